#!/usr/bin/env python3
"""Checker self-test (both directions). Never touches /repo: every variant is a scratch copy outside /repo and /verif,
removed as soon as its check has run.

  must fire     : selftest/mutants.json (reverted fixes, seeded defects under seeded/<id>/patch.diff) - the named property's
                  check must exit 1 and (when given) name the expected rule
  must stay quiet: selftest/refactorings.json - behaviour-preserving edits; the property's check must exit 0

usage: selftest/run.py [--only <substr>] [--jobs N]
"""
import argparse
import glob
import json
import os
import shutil
import subprocess
import sys
import tempfile
from concurrent.futures import ThreadPoolExecutor

HERE = os.path.dirname(os.path.abspath(__file__))
VERIF = os.path.dirname(HERE)
REPO = "/repo"


def cases():
    out = []
    for m in json.load(open(os.path.join(HERE, "mutants.json"))):
        m = dict(m)
        m["path"] = os.path.join(HERE, "mutants", m["patch"])
        out.append(m)
    for meta in sorted(glob.glob(os.path.join(VERIF, "seeded", "*", "meta.json"))):
        d = json.load(open(meta))
        out.append({"patch": os.path.basename(os.path.dirname(meta)), "path": os.path.join(os.path.dirname(meta), "patch.diff"),
                    "property": d["property"], "expect": d.get("expect", "violation"), "kind": "seeded", "rule": d.get("caught_by_rule", ""),
                    "also": d.get("also_checked", [])})
    rf = os.path.join(HERE, "refactorings.json")
    if os.path.isfile(rf):
        for m in json.load(open(rf)):
            m = dict(m)
            m["path"] = os.path.join(HERE, "refactorings", m["patch"])
            m["expect"] = "quiet"
            out.append(m)
    return out


def run_case(c):
    tmp = tempfile.mkdtemp(prefix="occa_selftest_")
    try:
        subprocess.check_call(["rsync", "-a", "--exclude", "_build", "--exclude", ".git", REPO + "/", tmp + "/"])
        p = subprocess.run(["git", "apply", "--directory=" + tmp.lstrip("/"), "--unsafe-paths", c["path"]], cwd="/", capture_output=True, text=True)
        if p.returncode != 0:
            p = subprocess.run(["patch", "-p1", "-d", tmp, "-i", c["path"]], capture_output=True, text=True)
            if p.returncode != 0:
                return c, "PATCH-FAILED", p.stdout[-300:] + p.stderr[-300:]
        env = dict(os.environ)
        env["VERIF_REPO"] = tmp
        env["VERIF_NO_EVIDENCE"] = "1"
        props = [c["property"]] + list(c.get("also", []))
        verdicts = []
        for prop in props:
            r = subprocess.run([os.path.join(VERIF, "check"), prop], cwd=VERIF, env=env, capture_output=True, text=True)
            verdicts.append((prop, r.returncode, r.stdout))
        prop, rc, out = verdicts[0]
        if c["expect"] == "violation":
            fired = [v for v in verdicts if v[1] == 1]
            if not fired:
                return c, "MISSED", "exit codes %s\n%s" % ([v[1] for v in verdicts], out[-400:])
            if c.get("rule") and not any(c["rule"] in v[2] for v in fired):
                return c, "FIRED-OTHER-RULE", out[-400:]
            return c, "ok-fired", ""
        else:
            if rc != 0:
                return c, "FALSE-ALARM" if rc == 1 else "BROKEN", out[-600:]
            return c, "ok-quiet", ""
    finally:
        shutil.rmtree(tmp, ignore_errors=True)
        # scratch facts of this copy
        fd = os.path.join(VERIF, ".work", "facts")
        tag = tmp.strip("/").replace("/", "__")
        for v in os.listdir(fd) if os.path.isdir(fd) else []:
            for f in glob.glob(os.path.join(fd, v, tag + "*")):
                os.remove(f)


def main():
    ap = argparse.ArgumentParser()
    ap.add_argument("--only", default="")
    ap.add_argument("--jobs", type=int, default=4)
    a = ap.parse_args()
    cs = [c for c in cases() if a.only in c["patch"] or a.only in c["property"]]
    bad = 0
    with ThreadPoolExecutor(max_workers=a.jobs) as ex:
        for c, verdict, detail in ex.map(run_case, cs):
            print("%-16s %-8s %-44s %s" % (verdict, c["property"], c["patch"][:44], c.get("kind", "")))
            if not verdict.startswith("ok"):
                bad += 1
                print("    " + detail.replace("\n", "\n    "))
    print("%d cases, %d not as expected" % (len(cs), bad))
    return 1 if bad else 0


if __name__ == "__main__":
    sys.exit(main())
