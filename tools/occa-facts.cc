// occa-facts: libTooling extractor. One JSON file of facts per translation unit:
// for every function defined in a file under --root it emits identity, a compact
// typed AST of the body, the clang CFG (setAllAlwaysAdd) referencing AST node
// ids, plus record / enum / global-variable facts.  All property-specific logic
// lives in the python rules; this file only reports what clang resolved.
#include "clang/AST/ASTConsumer.h"
#include "clang/AST/ASTContext.h"
#include "clang/AST/DeclCXX.h"
#include "clang/AST/DeclTemplate.h"
#include "clang/AST/ExprCXX.h"
#include "clang/AST/RecursiveASTVisitor.h"
#include "clang/AST/StmtCXX.h"
#include "clang/Analysis/CFG.h"
#include "clang/Frontend/CompilerInstance.h"
#include "clang/Frontend/FrontendAction.h"
#include "clang/Lex/Lexer.h"
#include "clang/Tooling/CommonOptionsParser.h"
#include "clang/Tooling/Tooling.h"
#include "llvm/Support/CommandLine.h"
#include "llvm/Support/JSON.h"
#include "llvm/Support/raw_ostream.h"
#include <map>
#include <set>
#include <string>
#include <vector>

using namespace clang;
namespace json = llvm::json;

static llvm::cl::OptionCategory Cat("occa-facts");
static llvm::cl::opt<std::string> OutFile("o", llvm::cl::desc("output json"), llvm::cl::cat(Cat), llvm::cl::Required);
static llvm::cl::opt<std::string> Root("root", llvm::cl::desc("only facts for files under this prefix"), llvm::cl::cat(Cat), llvm::cl::init("/repo/"));
static llvm::cl::opt<std::string> Extra("extra-root", llvm::cl::desc("second accepted prefix"), llvm::cl::cat(Cat), llvm::cl::init(""));

namespace {

struct Ctx {
  ASTContext *AC = nullptr;
  SourceManager *SM = nullptr;
  PrintingPolicy PP{LangOptions()};
  std::map<std::string, int> typeIdx;
  json::Array types;
  std::map<std::string, int> fileIdx;
  json::Array files;
  std::map<const Decl *, int> declIdx;
  json::Array functions;
  json::Array records;
  json::Array enums;
  json::Array globals;
  std::set<std::string> seenFn;
  std::set<const Decl *> seenRec;
  std::set<std::string> deps;
  int parseErrors = 0;

  int typeId(QualType T) {
    std::string s = T.isNull() ? std::string("<null>") : T.getAsString(PP);
    auto it = typeIdx.find(s);
    if (it != typeIdx.end()) return it->second;
    int id = (int)types.size();
    types.push_back(s);
    typeIdx[s] = id;
    return id;
  }
  int fileId(const std::string &f) {
    auto it = fileIdx.find(f);
    if (it != fileIdx.end()) return it->second;
    int id = (int)files.size();
    files.push_back(f);
    fileIdx[f] = id;
    return id;
  }
  int declId(const Decl *D) {
    if (!D) return -1;
    D = D->getCanonicalDecl();
    auto it = declIdx.find(D);
    if (it != declIdx.end()) return it->second;
    int id = (int)declIdx.size();
    declIdx[D] = id;
    return id;
  }
  std::string fileOf(SourceLocation L) {
    if (L.isInvalid()) return "";
    SourceLocation E = SM->getExpansionLoc(L);
    PresumedLoc P = SM->getPresumedLoc(E);
    if (P.isInvalid()) return "";
    std::string f = P.getFilename();
    // normalise a/../b
    llvm::SmallString<256> s(f);
    llvm::sys::path::remove_dots(s, true);
    return std::string(s);
  }
  bool inRoot(SourceLocation L) {
    std::string f = fileOf(L);
    if (f.empty()) return false;
    if (f.compare(0, Root.size(), Root) == 0) return true;
    if (!Extra.empty() && f.compare(0, Extra.size(), Extra) == 0) return true;
    return false;
  }
  unsigned lineOf(SourceLocation L) {
    if (L.isInvalid()) return 0;
    return SM->getExpansionLineNumber(L);
  }
  unsigned colOf(SourceLocation L) {
    if (L.isInvalid()) return 0;
    return SM->getExpansionColumnNumber(L);
  }
  std::string macroOf(SourceLocation L) {
    // outermost macro this location was expanded from
    if (!L.isMacroID()) return "";
    SourceLocation cur = L;
    std::string name;
    while (cur.isMacroID()) {
      if (SM->isMacroArgExpansion(cur)) {
        cur = SM->getImmediateExpansionRange(cur).getBegin();
        continue;
      }
      name = Lexer::getImmediateMacroName(cur, *SM, AC->getLangOpts()).str();
      cur = SM->getImmediateExpansionRange(cur).getBegin();
    }
    return name;
  }
  bool isMacroArg(SourceLocation L) {
    // true if the token was written by the user as an argument of the macro
    return L.isMacroID() && SM->isMacroArgExpansion(L);
  }
};

std::string qname(const NamedDecl *D) {
  if (!D) return "";
  std::string s;
  llvm::raw_string_ostream os(s);
  D->printQualifiedName(os);
  return os.str();
}

std::string fnKey(Ctx &C, const FunctionDecl *FD) {
  SourceLocation L = FD->getBeginLoc();
  std::string k = C.fileOf(L) + ":" + std::to_string(C.lineOf(L)) + ":" + std::to_string(C.colOf(L));
  if (FD->isTemplateInstantiation()) {
    std::string s;
    llvm::raw_string_ostream os(s);
    FD->getNameForDiagnostic(os, C.PP, true);
    k += "#" + os.str();
    if (auto *MD = dyn_cast<CXXMethodDecl>(FD)) {
      if (auto *R = MD->getParent()) k += "@" + C.AC->getRecordType(R).getAsString(C.PP);
    }
  }
  return k;
}

// Key that identifies a callee independent of TU: qualified name + type
std::string declSig(Ctx &C, const FunctionDecl *FD) {
  return qname(FD) + " :: " + FD->getType().getAsString(C.PP);
}

struct Dumper {
  Ctx &C;
  std::map<const Stmt *, int> ids;
  int next = 0;
  std::vector<const LambdaExpr *> lambdas;
  std::string ownerKey;

  explicit Dumper(Ctx &c) : C(c) {}

  static const Stmt *skipTransparent(const Stmt *S) {
    while (S) {
      if (auto *P = dyn_cast<ParenExpr>(S)) S = P->getSubExpr();
      else if (auto *E = dyn_cast<ExprWithCleanups>(S)) S = E->getSubExpr();
      else if (auto *M = dyn_cast<MaterializeTemporaryExpr>(S)) S = M->getSubExpr();
      else if (auto *B = dyn_cast<CXXBindTemporaryExpr>(S)) S = B->getSubExpr();
      else if (auto *K = dyn_cast<ConstantExpr>(S)) S = K->getSubExpr();
      else if (auto *F = dyn_cast<FullExpr>(S)) S = F->getSubExpr();
      else break;
    }
    return S;
  }

  void refInfo(json::Object &o, const ValueDecl *D) {
    if (!D) return;
    o["n"] = qname(D);
    o["d"] = C.declId(D);
    o["dk"] = std::string(D->getDeclKindName());
    if (auto *VD = dyn_cast<VarDecl>(D)) {
      if (VD->isLocalVarDeclOrParm()) o["loc"] = true;
      if (VD->isStaticLocal()) o["sloc"] = true;
    }
  }

  void calleeInfo(json::Object &o, const FunctionDecl *FD) {
    if (!FD) return;
    o["callee"] = qname(FD);
    o["csig"] = FD->getType().getAsString(C.PP);
    const FunctionDecl *Def = nullptr;
    const FunctionDecl *pat = FD;
    if (FD->hasBody(Def) && Def) pat = Def;
    else if (auto *P = FD->getTemplateInstantiationPattern()) {
      pat = P;
      if (P->hasBody(Def) && Def) pat = Def;
    }
    if (Def && C.inRoot(Def->getBeginLoc())) o["cdef"] = fnKey(C, Def);
    if (C.inRoot(FD->getLocation())) o["crepo"] = true;
    if (auto *MD = dyn_cast<CXXMethodDecl>(FD)) {
      if (MD->isVirtual()) o["cvirt"] = true;
      if (MD->isConst()) o["cconst"] = true;
      if (MD->isStatic()) o["cstatic"] = true;
      if (auto *R = MD->getParent()) o["ccls"] = qname(R);
    }
    if (FD->isNoReturn()) o["noret"] = true;
    (void)pat;
  }

  json::Value dumpDecl(const Decl *D) {
    json::Object o;
    o["i"] = next++;
    if (auto *VD = dyn_cast<VarDecl>(D)) {
      o["k"] = "VarDecl";
      o["n"] = VD->getNameAsString();
      o["d"] = C.declId(VD);
      o["t"] = C.typeId(VD->getType());
      o["l"] = (int64_t)C.lineOf(VD->getLocation());
      if (VD->isStaticLocal()) o["static"] = true;
      json::Array ch;
      if (VD->hasInit()) ch.push_back(dump(VD->getInit()));
      o["c"] = std::move(ch);
    } else {
      o["k"] = std::string(D->getDeclKindName()) + "Decl";
      o["l"] = (int64_t)C.lineOf(D->getLocation());
    }
    return json::Value(std::move(o));
  }

  json::Value dump(const Stmt *S0) {
    const Stmt *S = skipTransparent(S0);
    if (!S) {
      json::Object o;
      o["i"] = next++;
      o["k"] = "Null";
      return json::Value(std::move(o));
    }
    json::Object o;
    int id = next++;
    o["i"] = id;
    // all transparent wrappers map to this id
    for (const Stmt *W = S0; W && W != S;) {
      ids[W] = id;
      if (auto *P = dyn_cast<ParenExpr>(W)) W = P->getSubExpr();
      else if (auto *F = dyn_cast<FullExpr>(W)) W = F->getSubExpr();
      else if (auto *M = dyn_cast<MaterializeTemporaryExpr>(W)) W = M->getSubExpr();
      else if (auto *B = dyn_cast<CXXBindTemporaryExpr>(W)) W = B->getSubExpr();
      else break;
    }
    ids[S] = id;
    o["k"] = std::string(S->getStmtClassName());
    SourceLocation BL = S->getBeginLoc();
    o["l"] = (int64_t)C.lineOf(BL);
    o["col"] = (int64_t)C.colOf(BL);
    if (BL.isMacroID()) {
      std::string m = C.macroOf(BL);
      if (!m.empty()) o["mac"] = m;
      if (C.isMacroArg(BL)) o["marg"] = true;
    }
    if (S0 != S && isa<ParenExpr>(S0)) o["paren"] = true;
    if (auto *E = dyn_cast<Expr>(S)) {
      o["t"] = C.typeId(E->getType());
      if (E->isLValue()) o["lv"] = true;
    }

    json::Array ch;
    bool childrenDone = false;

    if (auto *DS = dyn_cast<DeclStmt>(S)) {
      for (auto *D : DS->decls()) ch.push_back(dumpDecl(D));
      childrenDone = true;
    } else if (auto *DR = dyn_cast<DeclRefExpr>(S)) {
      refInfo(o, DR->getDecl());
      if (auto *FD = dyn_cast<FunctionDecl>(DR->getDecl())) calleeInfo(o, FD);
    } else if (auto *ME = dyn_cast<MemberExpr>(S)) {
      refInfo(o, ME->getMemberDecl());
      if (ME->isArrow()) o["arrow"] = true;
      if (auto *FD = dyn_cast<FieldDecl>(ME->getMemberDecl())) {
        o["fcls"] = qname(FD->getParent());
      }
      if (auto *MD = dyn_cast<CXXMethodDecl>(ME->getMemberDecl())) calleeInfo(o, MD);
    } else if (auto *DM = dyn_cast<CXXDependentScopeMemberExpr>(S)) {
      o["n"] = DM->getMember().getAsString();
      if (DM->isArrow()) o["arrow"] = true;
      if (!DM->isImplicitAccess()) ch.push_back(dump(DM->getBase()));
      childrenDone = true;
    } else if (auto *UM = dyn_cast<UnresolvedMemberExpr>(S)) {
      o["n"] = UM->getMemberName().getAsString();
      if (UM->isArrow()) o["arrow"] = true;
      if (!UM->isImplicitAccess()) ch.push_back(dump(UM->getBase()));
      childrenDone = true;
    } else if (auto *UL = dyn_cast<UnresolvedLookupExpr>(S)) {
      o["n"] = UL->getName().getAsString();
      json::Array cands;
      for (auto *D : UL->decls()) cands.push_back(qname(D));
      o["cands"] = std::move(cands);
    } else if (auto *DS2 = dyn_cast<DependentScopeDeclRefExpr>(S)) {
      o["n"] = DS2->getDeclName().getAsString();
    } else if (auto *CE = dyn_cast<CallExpr>(S)) {
      const FunctionDecl *FD = CE->getDirectCallee();
      calleeInfo(o, FD);
      if (auto *MC = dyn_cast<CXXMemberCallExpr>(CE)) {
        // virtual dispatch unless qualified call
        if (auto *MD = MC->getMethodDecl()) {
          bool qualified = false;
          if (auto *ME = dyn_cast<MemberExpr>(MC->getCallee()->IgnoreParens())) qualified = ME->hasQualifier();
          if (MD->isVirtual() && !qualified) o["vdisp"] = true;
        }
      }
      if (auto *OC = dyn_cast<CXXOperatorCallExpr>(CE)) {
        o["op"] = std::string(getOperatorSpelling(OC->getOperator()));
      }
      o["nargs"] = (int64_t)CE->getNumArgs();
    } else if (auto *CC = dyn_cast<CXXConstructExpr>(S)) {
      calleeInfo(o, CC->getConstructor());
      o["nargs"] = (int64_t)CC->getNumArgs();
      if (CC->isElidable()) o["elide"] = true;
    } else if (auto *BO = dyn_cast<BinaryOperator>(S)) {
      o["op"] = BO->getOpcodeStr().str();
      if (auto *CA = dyn_cast<CompoundAssignOperator>(S)) {
        o["ct"] = C.typeId(CA->getComputationResultType());
      }
    } else if (auto *UO = dyn_cast<UnaryOperator>(S)) {
      o["op"] = UnaryOperator::getOpcodeStr(UO->getOpcode()).str();
      if (UO->isPostfix()) o["post"] = true;
    } else if (auto *IL = dyn_cast<IntegerLiteral>(S)) {
      llvm::SmallString<32> sv;
      IL->getValue().toString(sv, 10, IL->getType()->isSignedIntegerType());
      o["v"] = std::string(sv);
    } else if (auto *SL = dyn_cast<StringLiteral>(S)) {
      if (SL->getCharByteWidth() == 1) o["v"] = SL->getBytes().str();
      else o["v"] = "<wide>";
    } else if (auto *CL = dyn_cast<CharacterLiteral>(S)) {
      o["v"] = (int64_t)CL->getValue();
    } else if (auto *BL2 = dyn_cast<CXXBoolLiteralExpr>(S)) {
      o["v"] = BL2->getValue();
    } else if (auto *FL = dyn_cast<FloatingLiteral>(S)) {
      llvm::SmallString<32> sv;
      FL->getValue().toString(sv);
      o["v"] = std::string(sv);
    } else if (auto *IC = dyn_cast<CastExpr>(S)) {
      o["ck"] = std::string(IC->getCastKindName());
      if (auto *EC = dyn_cast<ExplicitCastExpr>(S)) o["tw"] = C.typeId(EC->getTypeAsWritten());
    } else if (auto *NE = dyn_cast<CXXNewExpr>(S)) {
      o["nt"] = C.typeId(NE->getAllocatedType());
      if (NE->isArray()) o["array"] = true;
    } else if (auto *DE = dyn_cast<CXXDeleteExpr>(S)) {
      if (DE->isArrayForm()) o["array"] = true;
      o["dt"] = C.typeId(DE->getDestroyedType());
    } else if (auto *LE = dyn_cast<LambdaExpr>(S)) {
      lambdas.push_back(LE);
      o["lam"] = fnKey(C, LE->getCallOperator());
      json::Array caps;
      for (auto &cap : LE->captures()) {
        json::Object co;
        if (cap.capturesVariable()) {
          co["n"] = cap.getCapturedVar()->getNameAsString();
          co["d"] = C.declId(cap.getCapturedVar());
        } else if (cap.capturesThis()) co["n"] = "this";
        co["byref"] = cap.getCaptureKind() == LCK_ByRef;
        caps.push_back(std::move(co));
      }
      o["caps"] = std::move(caps);
      o["capdef"] = (int64_t)LE->getCaptureDefault();
      childrenDone = true;  // capture inits not dumped
    } else if (auto *DA = dyn_cast<CXXDefaultArgExpr>(S)) {
      o["defarg"] = true;
      ch.push_back(dump(DA->getExpr()));
      childrenDone = true;
    } else if (auto *DI = dyn_cast<CXXDefaultInitExpr>(S)) {
      ch.push_back(dump(DI->getExpr()));
      childrenDone = true;
    } else if (auto *CS = dyn_cast<CaseStmt>(S)) {
      if (const Expr *L = CS->getLHS()) {
        Expr::EvalResult R;
        if (!L->isValueDependent() && L->EvaluateAsInt(R, *C.AC)) {
          llvm::SmallString<32> sv;
          R.Val.getInt().toString(sv, 10);
          o["v"] = std::string(sv);
        }
        const Expr *LL = L->IgnoreParenImpCasts();
        if (auto *K = dyn_cast<ConstantExpr>(LL)) LL = K->getSubExpr()->IgnoreParenImpCasts();
        if (auto *DRE = dyn_cast<DeclRefExpr>(LL)) o["en"] = qname(DRE->getDecl());
      }
    } else if (auto *TE = dyn_cast<CXXThrowExpr>(S)) {
      if (TE->getSubExpr()) o["tt"] = C.typeId(TE->getSubExpr()->getType());
    } else if (auto *SO = dyn_cast<UnaryExprOrTypeTraitExpr>(S)) {
      o["trait"] = (int64_t)SO->getKind();
      if (SO->isArgumentType()) o["at"] = C.typeId(SO->getArgumentType());
      Expr::EvalResult R;
      if (!SO->isValueDependent() && SO->EvaluateAsInt(R, *C.AC)) o["v"] = (int64_t)R.Val.getInt().getExtValue();
    } else if (auto *TO = dyn_cast<CXXTemporaryObjectExpr>(S)) {
      (void)TO;
    } else if (auto *FC = dyn_cast<CXXFunctionalCastExpr>(S)) {
      (void)FC;
    }

    if (!childrenDone) {
      if (auto *FR = dyn_cast<CXXForRangeStmt>(S)) {
        // range init, loop var, body (skip the synthesized begin/end machinery except decls)
        json::Object names;
        if (FR->getRangeStmt()) ch.push_back(dump(FR->getRangeStmt()));
        if (FR->getBeginStmt()) ch.push_back(dump(FR->getBeginStmt()));
        if (FR->getEndStmt()) ch.push_back(dump(FR->getEndStmt()));
        if (FR->getCond()) ch.push_back(dump(FR->getCond()));
        if (FR->getInc()) ch.push_back(dump(FR->getInc()));
        if (FR->getLoopVarStmt()) ch.push_back(dump(FR->getLoopVarStmt()));
        ch.push_back(dump(FR->getBody()));
      } else if (auto *IS = dyn_cast<IfStmt>(S)) {
        // fixed slots: cond, then, else   (+ init / condvar as extra)
        if (IS->getInit()) o["hasinit"] = true;
        ch.push_back(dump(IS->getCond()));
        ch.push_back(dump(IS->getThen()));
        if (IS->getElse()) ch.push_back(dump(IS->getElse()));
        if (IS->getInit()) ch.push_back(dump(IS->getInit()));
        if (IS->getConditionVariableDeclStmt()) ch.push_back(dump(IS->getConditionVariableDeclStmt()));
      } else if (auto *FS = dyn_cast<ForStmt>(S)) {
        // fixed slots: init, cond, inc, body (Null when absent)
        ch.push_back(dump(FS->getInit()));
        ch.push_back(dump(FS->getCond()));
        ch.push_back(dump(FS->getInc()));
        ch.push_back(dump(FS->getBody()));
      } else if (auto *WS = dyn_cast<WhileStmt>(S)) {
        ch.push_back(dump(WS->getCond()));
        ch.push_back(dump(WS->getBody()));
        if (WS->getConditionVariableDeclStmt()) ch.push_back(dump(WS->getConditionVariableDeclStmt()));
      } else if (auto *SS = dyn_cast<SwitchStmt>(S)) {
        ch.push_back(dump(SS->getCond()));
        ch.push_back(dump(SS->getBody()));
      } else if (auto *CS = dyn_cast<CaseStmt>(S)) {
        ch.push_back(dump(CS->getSubStmt()));
      } else {
        for (const Stmt *K : S->children()) ch.push_back(dump(K));
      }
    }
    if (!ch.empty()) o["c"] = std::move(ch);
    return json::Value(std::move(o));
  }

  json::Value dumpCFG(const FunctionDecl *FD, const Stmt *Body) {
    CFG::BuildOptions BO;
    BO.setAllAlwaysAdd();
    const bool dependent = FD->isDependentContext();
    BO.AddImplicitDtors = !dependent;
    BO.AddEHEdges = false;
    BO.AddInitializers = !dependent;
    BO.AddTemporaryDtors = false;
    BO.PruneTriviallyFalseEdges = false;
    std::unique_ptr<CFG> cfg = CFG::buildCFG(FD, const_cast<Stmt *>(Body), C.AC, BO);
    if (!cfg) return json::Value(nullptr);
    json::Object o;
    o["entry"] = (int64_t)cfg->getEntry().getBlockID();
    o["exit"] = (int64_t)cfg->getExit().getBlockID();
    json::Array blocks;
    for (const CFGBlock *B : *cfg) {
      json::Object bo;
      bo["b"] = (int64_t)B->getBlockID();
      json::Array el;
      for (const CFGElement &E : *B) {
        if (auto SE = E.getAs<CFGStmt>()) {
          const Stmt *St = SE->getStmt();
          auto it = ids.find(St);
          if (it != ids.end()) el.push_back(it->second);
          else {
            // synthesized statement (e.g. split DeclStmt): map to its single decl's init owner
            if (auto *DS = dyn_cast<DeclStmt>(St)) {
              if (DS->isSingleDecl()) {
                json::Object so;
                so["decl"] = C.declId(DS->getSingleDecl());
                el.push_back(std::move(so));
                continue;
              }
            }
            json::Object so;
            so["syn"] = std::string(St->getStmtClassName());
            so["l"] = (int64_t)C.lineOf(St->getBeginLoc());
            el.push_back(std::move(so));
          }
        } else if (auto IE = E.getAs<CFGInitializer>()) {
          json::Object so;
          const CXXCtorInitializer *I = IE->getInitializer();
          if (I->isAnyMemberInitializer()) so["init"] = qname(I->getAnyMember());
          else if (I->isBaseInitializer()) so["initbase"] = QualType(I->getBaseClass(), 0).getAsString(C.PP);
          else so["init"] = "<delegating>";
          auto it = ids.find(skipTransparent(I->getInit()));
          if (it != ids.end()) so["e"] = it->second;
          el.push_back(std::move(so));
        } else if (auto DE = E.getAs<CFGAutomaticObjDtor>()) {
          json::Object so;
          so["dtor"] = C.declId(DE->getVarDecl());
          so["n"] = DE->getVarDecl()->getNameAsString();
          so["t"] = C.typeId(DE->getVarDecl()->getType());
          el.push_back(std::move(so));
        } else if (auto ME = E.getAs<CFGMemberDtor>()) {
          json::Object so;
          so["mdtor"] = qname(ME->getFieldDecl());
          el.push_back(std::move(so));
        } else if (auto BE = E.getAs<CFGBaseDtor>()) {
          json::Object so;
          so["bdtor"] = QualType(BE->getBaseSpecifier()->getType()).getAsString(C.PP);
          el.push_back(std::move(so));
        } else if (auto DD = E.getAs<CFGDeleteDtor>()) {
          json::Object so;
          so["deldtor"] = true;
          el.push_back(std::move(so));
        }
      }
      bo["e"] = std::move(el);
      json::Array su;
      for (auto SI = B->succ_begin(); SI != B->succ_end(); ++SI) {
        const CFGBlock *T = SI->getReachableBlock();
        if (!T) T = SI->getPossiblyUnreachableBlock();
        if (T) su.push_back((int64_t)T->getBlockID());
        else su.push_back(nullptr);
      }
      bo["s"] = std::move(su);
      if (const Stmt *T = B->getTerminatorStmt()) {
        auto it = ids.find(T);
        if (it != ids.end()) bo["t"] = it->second;
        bo["tk"] = std::string(T->getStmtClassName());
        if (const Stmt *TC = B->getTerminatorCondition()) {
          auto it2 = ids.find(TC);
          if (it2 == ids.end()) it2 = ids.find(skipTransparent(TC));
          if (it2 != ids.end()) bo["tc"] = it2->second;
        }
      }
      if (const Stmt *L = B->getLabel()) {
        auto it = ids.find(L);
        if (it != ids.end()) bo["label"] = it->second;
      }
      if (B->hasNoReturnElement()) bo["noret"] = true;
      blocks.push_back(std::move(bo));
    }
    o["blocks"] = std::move(blocks);
    return json::Value(std::move(o));
  }
};

void emitFunction(Ctx &C, const FunctionDecl *FD, const std::string &lambdaOwner);

void emitFunction(Ctx &C, const FunctionDecl *FD, const std::string &lambdaOwner) {
  if (!FD->doesThisDeclarationHaveABody()) return;
  const Stmt *Body = FD->getBody();
  if (!Body) return;
  if (!C.inRoot(FD->getBeginLoc())) return;
  std::string key = fnKey(C, FD);
  if (!C.seenFn.insert(key).second) return;

  json::Object f;
  f["key"] = key;
  f["q"] = qname(FD);
  f["sig"] = FD->getType().getAsString(C.PP);
  f["file"] = C.fileOf(FD->getBeginLoc());
  f["line"] = (int64_t)C.lineOf(FD->getBeginLoc());
  f["end"] = (int64_t)C.lineOf(FD->getEndLoc());
  f["ret"] = C.typeId(FD->getReturnType());
  if (!lambdaOwner.empty()) f["lambdaOf"] = lambdaOwner;
  const char *kind = "function";
  if (auto *MD = dyn_cast<CXXMethodDecl>(FD)) {
    kind = "method";
    if (isa<CXXConstructorDecl>(MD)) kind = "ctor";
    else if (isa<CXXDestructorDecl>(MD)) kind = "dtor";
    else if (isa<CXXConversionDecl>(MD)) kind = "conversion";
    if (auto *R = MD->getParent()) {
      f["cls"] = qname(R);
      if (R->isLambda()) kind = "lambda";
    }
    if (MD->isConst()) f["const"] = true;
    if (MD->isVirtual()) f["virtual"] = true;
    if (MD->isStatic()) f["static"] = true;
    json::Array ov;
    for (auto *O : MD->overridden_methods()) ov.push_back(qname(O));
    if (!ov.empty()) f["overrides"] = std::move(ov);
    if (auto *CD = dyn_cast<CXXConstructorDecl>(MD)) {
      if (CD->isCopyConstructor()) f["copyctor"] = true;
      if (CD->isMoveConstructor()) f["movector"] = true;
    }
    if (MD->isCopyAssignmentOperator()) f["copyassign"] = true;
    if (MD->isMoveAssignmentOperator()) f["moveassign"] = true;
  }
  f["kind"] = kind;
  if (FD->isTemplateInstantiation()) f["tmpl"] = "inst";
  else if (FD->getDescribedFunctionTemplate() || FD->isDependentContext()) f["tmpl"] = "pattern";
  if (FD->isOverloadedOperator()) f["oper"] = std::string(getOperatorSpelling(FD->getOverloadedOperator()));

  json::Array params;
  for (auto *P : FD->parameters()) {
    json::Object po;
    po["n"] = P->getNameAsString();
    po["t"] = C.typeId(P->getType());
    po["d"] = C.declId(P);
    if (P->hasDefaultArg() && !P->hasUninstantiatedDefaultArg() && !P->hasUnparsedDefaultArg()) po["hasdef"] = true;
    params.push_back(std::move(po));
  }
  f["params"] = std::move(params);

  Dumper D(C);
  D.ownerKey = key;
  if (auto *CD = dyn_cast<CXXConstructorDecl>(FD)) {
    json::Array inits;
    for (auto *I : CD->inits()) {
      json::Object io;
      if (I->isAnyMemberInitializer()) {
        io["field"] = qname(I->getAnyMember());
        io["fname"] = I->getAnyMember()->getNameAsString();
      } else if (I->isBaseInitializer()) io["base"] = QualType(I->getBaseClass(), 0).getAsString(C.PP);
      else io["delegating"] = true;
      io["written"] = I->isWritten();
      io["l"] = (int64_t)C.lineOf(I->getSourceLocation());
      io["e"] = D.dump(I->getInit());
      inits.push_back(std::move(io));
    }
    f["inits"] = std::move(inits);
  }
  f["body"] = D.dump(Body);
  f["cfg"] = D.dumpCFG(FD, Body);
  f["nnodes"] = (int64_t)D.next;
  C.functions.push_back(std::move(f));
  for (auto *LE : D.lambdas) emitFunction(C, LE->getCallOperator(), key);
}

void emitRecord(Ctx &C, const CXXRecordDecl *R) {
  if (!R->isCompleteDefinition()) return;
  if (!C.inRoot(R->getLocation())) return;
  if (R->isLambda()) return;
  if (!C.seenRec.insert(R).second) return;
  json::Object r;
  r["q"] = qname(R);
  r["ty"] = C.AC->getRecordType(R).getAsString(C.PP);
  r["file"] = C.fileOf(R->getLocation());
  r["line"] = (int64_t)C.lineOf(R->getLocation());
  r["tag"] = std::string(R->getKindName());
  if (R->getDescribedClassTemplate()) r["tmpl"] = "pattern";
  else if (isa<ClassTemplateSpecializationDecl>(R)) r["tmpl"] = "inst";
  json::Array bases;
  if (R->getNumBases() || true) {
    for (auto &B : R->bases()) {
      json::Object bo;
      bo["t"] = B.getType().getAsString(C.PP);
      if (auto *BR = B.getType()->getAsCXXRecordDecl()) bo["q"] = qname(BR);
      bo["virtual"] = B.isVirtual();
      bases.push_back(std::move(bo));
    }
  }
  r["bases"] = std::move(bases);
  json::Array fields;
  for (auto *F : R->fields()) {
    json::Object fo;
    fo["n"] = F->getNameAsString();
    fo["q"] = qname(F);
    fo["t"] = F->getType().getAsString(C.PP);
    fo["ct"] = F->getType().getCanonicalType().getAsString(C.PP);
    fo["mutable"] = F->isMutable();
    fo["access"] = (int64_t)F->getAccess();
    fo["l"] = (int64_t)C.lineOf(F->getLocation());
    fields.push_back(std::move(fo));
  }
  r["fields"] = std::move(fields);
  json::Array svars;
  for (auto *D : R->decls()) {
    if (auto *VD = dyn_cast<VarDecl>(D)) {
      json::Object vo;
      vo["n"] = VD->getNameAsString();
      vo["t"] = VD->getType().getAsString(C.PP);
      svars.push_back(std::move(vo));
    }
  }
  if (!svars.empty()) r["statics"] = std::move(svars);
  json::Array methods;
  for (auto *M : R->methods()) {
    if (M->isImplicit()) continue;
    json::Object mo;
    mo["q"] = qname(M);
    mo["n"] = M->getNameAsString();
    mo["sig"] = M->getType().getAsString(C.PP);
    mo["virtual"] = M->isVirtual();
    mo["pure"] = M->isPure();
    mo["const"] = M->isConst();
    mo["static"] = M->isStatic();
    mo["deleted"] = M->isDeleted();
    mo["defaulted"] = M->isDefaulted();
    mo["access"] = (int64_t)M->getAccess();
    mo["l"] = (int64_t)C.lineOf(M->getLocation());
    json::Array ov;
    for (auto *O : M->overridden_methods()) ov.push_back(qname(O));
    if (!ov.empty()) mo["overrides"] = std::move(ov);
    if (auto *CD = dyn_cast<CXXConstructorDecl>(M)) {
      if (CD->isCopyConstructor()) mo["copyctor"] = true;
      if (CD->isMoveConstructor()) mo["movector"] = true;
      if (CD->isExplicit()) mo["explicit"] = true;
    }
    if (M->isCopyAssignmentOperator()) mo["copyassign"] = true;
    if (M->isMoveAssignmentOperator()) mo["moveassign"] = true;
    if (isa<CXXDestructorDecl>(M)) mo["dtor"] = true;
    methods.push_back(std::move(mo));
  }
  r["methods"] = std::move(methods);
  r["userCopyCtor"] = R->hasUserDeclaredCopyConstructor();
  r["userCopyAssign"] = R->hasUserDeclaredCopyAssignment();
  r["userDtor"] = R->hasUserDeclaredDestructor();
  r["userMoveCtor"] = R->hasUserDeclaredMoveConstructor();
  r["userMoveAssign"] = R->hasUserDeclaredMoveAssignment();
  r["polymorphic"] = R->isPolymorphic();
  r["abstract"] = R->isAbstract();
  C.records.push_back(std::move(r));
}

class Visitor : public RecursiveASTVisitor<Visitor> {
 public:
  explicit Visitor(Ctx &c) : C(c) {}
  bool shouldVisitTemplateInstantiations() const { return true; }
  bool shouldVisitImplicitCode() const { return false; }

  bool VisitFunctionDecl(FunctionDecl *FD) {
    if (FD->isImplicit()) return true;
    if (auto *MD = dyn_cast<CXXMethodDecl>(FD))
      if (MD->getParent() && MD->getParent()->isLambda()) return true;  // emitted with their owner
    emitFunction(C, FD, "");
    return true;
  }
  bool VisitCXXRecordDecl(CXXRecordDecl *R) {
    emitRecord(C, R);
    return true;
  }
  bool VisitEnumDecl(EnumDecl *E) {
    if (!E->isCompleteDefinition() || !C.inRoot(E->getLocation())) return true;
    json::Object eo;
    eo["q"] = qname(E);
    eo["file"] = C.fileOf(E->getLocation());
    eo["line"] = (int64_t)C.lineOf(E->getLocation());
    json::Array en;
    for (auto *K : E->enumerators()) {
      json::Object ko;
      ko["n"] = K->getNameAsString();
      ko["q"] = qname(K);
      llvm::SmallString<32> sv;
      K->getInitVal().toString(sv, 10);
      ko["v"] = std::string(sv);
      en.push_back(std::move(ko));
    }
    eo["enumerators"] = std::move(en);
    C.enums.push_back(std::move(eo));
    return true;
  }
  bool VisitVarDecl(VarDecl *VD) {
    if (VD->isLocalVarDeclOrParm()) return true;
    if (!C.inRoot(VD->getLocation())) return true;
    if (!VD->isThisDeclarationADefinition()) return true;
    if (VD->getDeclContext()->isDependentContext()) return true;
    json::Object g;
    g["q"] = qname(VD);
    g["d"] = C.declId(VD);
    g["t"] = VD->getType().getAsString(C.PP);
    g["file"] = C.fileOf(VD->getLocation());
    g["line"] = (int64_t)C.lineOf(VD->getLocation());
    if (VD->hasInit()) {
      Dumper D(C);
      g["init"] = D.dump(VD->getInit());
      if (!VD->getInit()->isValueDependent()) {
        if (const APValue *V = VD->evaluateValue()) {
          if (V->isInt()) {
            llvm::SmallString<32> sv;
            V->getInt().toString(sv, 10);
            g["v"] = std::string(sv);
          }
        }
      }
    }
    C.globals.push_back(std::move(g));
    return true;
  }
  bool VisitTypedefNameDecl(TypedefNameDecl *TD) {
    if (!C.inRoot(TD->getLocation())) return true;
    if (TD->getDeclContext()->isFunctionOrMethod()) return true;
    json::Object t;
    t["q"] = qname(TD);
    t["t"] = TD->getUnderlyingType().getAsString(C.PP);
    t["ct"] = TD->getUnderlyingType().getCanonicalType().getAsString(C.PP);
    typedefs.push_back(std::move(t));
    return true;
  }
  json::Array typedefs;

 private:
  Ctx &C;
};

class Consumer : public ASTConsumer {
 public:
  void HandleTranslationUnit(ASTContext &AC) override {
    Ctx C;
    C.AC = &AC;
    C.SM = &AC.getSourceManager();
    C.PP = PrintingPolicy(AC.getLangOpts());
    C.PP.SuppressTagKeyword = true;
    C.PP.Bool = true;
    C.PP.SuppressUnwrittenScope = true;
    C.PP.FullyQualifiedName = true;
    C.PP.PrintCanonicalTypes = false;
    Visitor V(C);
    V.TraverseDecl(AC.getTranslationUnitDecl());

    json::Object out;
    auto &SM = AC.getSourceManager();
    out["unit"] = C.fileOf(SM.getLocForStartOfFile(SM.getMainFileID()));
    json::Array deps;
    for (auto it = SM.fileinfo_begin(); it != SM.fileinfo_end(); ++it) {
      std::string n = it->first->getName().str();
      llvm::SmallString<256> s(n);
      llvm::sys::fs::make_absolute(s);
      llvm::sys::path::remove_dots(s, true);
      deps.push_back(std::string(s));
    }
    out["deps"] = std::move(deps);
    out["errors"] = (int64_t)AC.getDiagnostics().getClient()->getNumErrors();
    out["types"] = std::move(C.types);
    out["functions"] = std::move(C.functions);
    out["records"] = std::move(C.records);
    out["enums"] = std::move(C.enums);
    out["globals"] = std::move(C.globals);
    out["typedefs"] = std::move(V.typedefs);
    std::error_code EC;
    llvm::raw_fd_ostream os(OutFile, EC);
    if (EC) {
      llvm::errs() << "cannot write " << OutFile << ": " << EC.message() << "\n";
      exit(3);
    }
    os << json::Value(std::move(out));
    os << "\n";
  }
};

class Action : public ASTFrontendAction {
 public:
  std::unique_ptr<ASTConsumer> CreateASTConsumer(CompilerInstance &, llvm::StringRef) override {
    return std::make_unique<Consumer>();
  }
};

}  // namespace

int main(int argc, const char **argv) {
  auto Exp = tooling::CommonOptionsParser::create(argc, argv, Cat);
  if (!Exp) {
    llvm::errs() << Exp.takeError();
    return 2;
  }
  tooling::ClangTool Tool(Exp->getCompilations(), Exp->getSourcePathList());
  int rc = Tool.run(tooling::newFrontendActionFactory<Action>().get());
  return rc ? 2 : 0;
}
