#!/usr/bin/env python3
"""regenerate /verif/MANIFEST.json from the META dict of each rules/cNN.py; unclaimed properties go to not_applicable"""
import importlib
import json
import os
import subprocess
import sys

HERE = os.path.dirname(os.path.dirname(os.path.abspath(__file__)))
sys.path.insert(0, HERE)

NA = {
    "C20": "semantic equivalence of seven translators over all generated kernels is a relation between program executions; no structural clause of the translators is a necessary condition that is not already claimed under C17/C18/C19/C21/C22 (DESIGN.md section 6)",
    "C23": "numerical agreement of occa::array/range/forLoop with std:: algorithms for all lengths and tilings is value-level; the one structural cause of failure found (tile step) is a C18 clause and is claimed there (DESIGN.md section 6)",
}


def main():
    props = [json.loads(l) for l in open(os.path.join(HERE, "properties.jsonl"))]
    checks, na, served = [], [], []
    for p in props:
        pid = p["id"]
        path = os.path.join(HERE, "rules", pid.lower() + ".py")
        if pid in NA or not os.path.isfile(path):
            na.append({"property_id": pid, "reason": NA.get(pid, "designed (DESIGN.md section 4) but the static check is not built; not claimed")})
            continue
        mod = importlib.import_module("rules." + pid.lower())
        m = mod.META
        served.append(pid)
        checks.append({
            "property_id": pid,
            "quick_cmd": "./check %s --tier quick" % pid,
            "thorough_cmd": "./check %s --tier thorough" % pid,
            "evidence_file": "/verif/evidence/%s.json" % pid,
            "replay_cmd_template": "./check %s --explain {path}" % pid,
            "engine": "occa-facts+vlib",
            "level_claimed": {"category": "other", "text": m["level"], "design_ref": "DESIGN.md section 4, " + pid},
            "level_note": m["note"],
            "technique": m["technique"],
        })
    hooks_commits = []
    man = {
        "version": 1,
        "setup_cmd": "make -C /verif/tools",
        "hooks": {
            "guard": "LIBOCCA_OCCA_VERIF",
            "enable": "none needed: the analysis is external to /repo (no hook is compiled into libocca); checks parse /repo's working tree with clang using flags synthesised from /repo/scripts",
            "baseline_off_cmd": "cmake -S /repo -B /repo/_build -G Ninja >/dev/null && cmake --build /repo/_build -j16 && ctest --test-dir /repo/_build -j8 --timeout 900",
            "source_commits": hooks_commits,
            "add_only": True,
        },
        "engines": [{
            "name": "occa-facts+vlib",
            "path": "/verif/tools/occa-facts.cc, /verif/vlib, /verif/rules",
            "serves_properties": served,
            "kind_free_text": "static analysis: libTooling extractor (typed AST + clang CFG + resolved calls per function of every unit, from /repo's working tree) and python rules (who-may-write, must-pass-through, guard dominance, typestate, sibling/table agreement) with frozen instance tables, instance floors and known findings",
        }],
        "checks": checks,
        "notes": "Static analysis only: no registered command executes OCCA code, the test-suite, a fuzzer or a solver over program paths. exit 0 ok / 1 VIOLATION / 2 analysis-broken (anchor vanished, rule below its instance floor, unit does not parse). Known findings: /verif/known_findings.jsonl.",
        "not_applicable": na,
    }
    json.dump(man, open(os.path.join(HERE, "MANIFEST.json"), "w"), indent=1)
    print("claimed:", " ".join(served))
    print("not applicable:", " ".join(x["property_id"] for x in na))


main()
