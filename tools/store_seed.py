#!/usr/bin/env python3
"""store a confirmed seeded change from /tmp/seed_out/<ID>/ as /verif/seeded/<ID>-<suffix>/
usage: store_seed.py <ID> <suffix> <property> <caught_by_rule> <also,comma|-> <what> <needs> <history>"""
import json, os, shutil, sys
ID, suf, prop, rule, also, what, needs, hist = sys.argv[1:9]
src = "/tmp/seed_out/%s" % ID
name = ID[:-1] if ID.endswith("b") and suf == "b" else ID
dst = "/verif/seeded/%s-%s" % (name, suf)
os.makedirs(dst, exist_ok=True)
for f in ("patch.diff", "demo.cpp", "notes.md", "demo.sh"):
    if os.path.isfile(os.path.join(src, f)):
        shutil.copy(os.path.join(src, f), os.path.join(dst, f))
meta = {"id": "%s-%s" % (name, suf), "property": prop, "what": what, "needs_to_manifest": needs,
        "confirmed": "tools/confirm_seed.sh %s: patch applied to a clean isolated worktree of /repo HEAD (/tmp/wt_confirm), library and tests rebuilt, 61/61 tests pass with the change (fresh kernel cache); "
                     "demo.cpp built against that tree FAILs (exit 1) and built against /repo/_build PASSes (exit 0); patch then applied to /repo, checks run, patch reverted" % ID,
        "author": "independent sub-agent given only the property text and its own worktree",
        "expect": "violation", "caught_by_rule": rule, "detection_history": hist}
if also != "-":
    meta["also_checked"] = also.split(",")
json.dump(meta, open(os.path.join(dst, "meta.json"), "w"), indent=1)
print("stored", dst)
