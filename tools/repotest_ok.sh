#!/bin/bash
# runs the pinned suite on /repo (fresh kernel cache) and exits 0 only if all 61 tests passed
out=$(/verif/tools/repotest.sh 2>&1 | tail -4)
echo "$out" | tail -3
echo "$out" | grep -q "100% tests passed, 0 tests failed out of 61"
