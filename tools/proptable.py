#!/usr/bin/env python3
"""regenerates the rule inventory of DESIGN.md section 10.3 (between the GENERATED markers) from evidence/*.json and known_findings.jsonl"""
import json, re, os, glob
V = os.path.dirname(os.path.dirname(os.path.abspath(__file__)))
fixed, known = {}, {}
for line in open(V + "/known_findings.jsonl"):
    line = line.strip()
    if line.startswith("fixed:"):
        m = re.match(r"fixed: property=(C\d+) (\S+) (.*)", line)
        fixed.setdefault(m.group(1), []).append((m.group(2), m.group(3)))
    elif line.startswith("{"):
        d = json.loads(line)
        known.setdefault(d["property"], []).append(d)
out = []
tot_ob = tot_rules = 0
for p in sorted(glob.glob(V + "/evidence/C*.json")):
    e = json.load(open(p)); c = e["coverage"]; pid = e["property_id"]
    tot_ob += c["obligations"]; tot_rules += len(c["rules"])
    out.append("**%s** - %d obligations over %d rules (%d non-trivial), %d known findings, %d `fix:` commits" % (
        pid, c["obligations"], len(c["rules"]), c["distinct_nontrivial"], len(known.get(pid, [])), len(fixed.get(pid, []))))
    out.append("")
    def rk(r):
        m = re.match(r"C\d+-([A-Z]+)(\d+)(.*)", r)
        return (m.group(1) != "R", int(m.group(2)), m.group(3)) if m else (True, 0, r)
    for r in sorted(c["rules"], key=rk):
        d = c["rules"][r]
        out.append("* %s (%d, floor %d): %s" % (r, d["instances"], d["floor"], d["description"]))
    for sha, what in fixed.get(pid, []):
        out.append("* fixed %s: %s" % (sha, what))
    for k in known.get(pid, []):
        out.append("* known finding %s %s: %s" % (k.get("rule", ""), k.get("function", ""), k.get("key", k.get("what", ""))))
    out.append("")
out.insert(0, "Totals: %d obligations over %d rules in %d claimed properties; %d `fix:` commits recorded; %d known findings.\n" % (
    tot_ob, tot_rules, len(glob.glob(V + "/evidence/C*.json")), sum(map(len, fixed.values())), sum(map(len, known.values()))))
text = "\n".join(out)
B, E = "<!-- BEGIN GENERATED rule-inventory (tools/proptable.py) -->", "<!-- END GENERATED rule-inventory -->"
s = open(V + "/DESIGN.md").read()
if B in s:
    s = s[:s.index(B) + len(B)] + "\n\n" + text + "\n" + s[s.index(E):]
    open(V + "/DESIGN.md", "w").write(s)
    print("DESIGN.md inventory regenerated:", out[0].strip())
else:
    print(text)
