#!/usr/bin/env python3
"""debug helper: ./tools/show.py <unit-relpath> <qualified-name-substring> [--cfg] [--variant v]"""
import os
import sys

sys.path.insert(0, os.path.dirname(os.path.dirname(os.path.abspath(__file__))))
from vlib import facts, work  # noqa


def dump(fn, n, ind=0):
    extra = []
    for k in ("op", "n", "callee", "v", "ck", "mac", "lam", "en", "arrow", "vdisp", "defarg", "paren"):
        if k in n:
            extra.append("%s=%r" % (k, n[k]))
    t = fn.type(n)
    print("%s%d %s %s  <%s> L%s" % ("  " * ind, n["i"], n["k"], " ".join(extra), t[:60], n.get("l")))
    for c in facts.kids(n):
        dump(fn, c, ind + 1)


def main():
    unit, pat = sys.argv[1], sys.argv[2]
    variant = "default"
    if "--variant" in sys.argv:
        variant = sys.argv[sys.argv.index("--variant") + 1]
    p = facts.load_program([os.path.join(work.REPO, unit)], variant)
    for f in p.funcs.values():
        if pat in f.q and f.d.get("tmpl") != "inst":
            print("=== %s  %s  %s:%d  key=%s" % (f.q, f.d["sig"], f.relfile, f.d["line"], f.key))
            for i in f.d.get("inits", ()):
                print(" init", i.get("field") or i.get("base"))
                dump(f, i["e"], 2)
            dump(f, f.body)
            if "--cfg" in sys.argv:
                c = f.cfg
                for b in sorted(c.blocks.values(), key=lambda b: -b.id):
                    print(" B%d succ=%s term=%s tc=%s %s" % (b.id, b.succs, b.tk, b.tc, "NORET" if b.noret else ""))
                    for e in b.elems:
                        if isinstance(e, int):
                            print("     %d: %s" % (e, facts.render(f.nodes[e])[:110]))
                        else:
                            print("     ", e)


main()
