#!/bin/bash
# usage: mkmutant.sh <fix-sha> <property> <rule> : writes selftest/mutants/revert-<prop>-<sha>.diff (the fix reverted on top of /repo HEAD)
sha=$1; prop=$2; rule=$3
wt=/tmp/wt_confirm
[ -d $wt ] || git -C /repo worktree add --detach $wt HEAD > /dev/null 2>&1   # scratch worktree, created on demand (remove it afterwards: git -C /repo worktree remove --force $wt)
git -C $wt checkout -q --detach $(git -C /repo rev-parse HEAD) && git -C $wt reset -q --hard
if git -C $wt revert --no-commit $sha > /dev/null 2>&1; then
  git -C $wt diff HEAD > /verif/selftest/mutants/revert-$prop-$sha.diff
  git -C $wt reset -q --hard
  echo "written revert-$prop-$sha.diff ($(wc -l < /verif/selftest/mutants/revert-$prop-$sha.diff) lines)"
else
  git -C $wt revert --abort 2>/dev/null; git -C $wt reset -q --hard
  echo "REVERT CONFLICT for $sha"
fi
