#!/bin/sh
# rebuild /repo/_build from the working tree and run the pinned test-suite with a fresh kernel cache
# (tests use OCCA_CACHE_DIR=/repo/_build/occa; cache keys do not include the translator version,
#  so a stale cache would hide translator changes)
set -e
cmake --build /repo/_build -j16 2>&1 | grep -E "error|FAILED" | head -20 || true
rm -rf /repo/_build/occa/cache
ctest --test-dir /repo/_build -j8 --timeout 900 2>&1 | tail -4
