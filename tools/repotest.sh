#!/bin/sh
# rebuild /repo/_build from the working tree and run the pinned test-suite (guard off: there are no hooks)
set -e
cmake --build /repo/_build -j16 2>&1 | grep -E "error|FAILED|warning: unused" | head -20 || true
ctest --test-dir /repo/_build -j8 --timeout 900 2>&1 | tail -4
