#!/bin/bash
# like confirm_seed.sh, but re-uses the author's own scratch worktree (already built with the change) for the suite and the demo:
# usage: confirm_seed2.sh <ID> <slot>     (writes /tmp/seed_out/<ID>/confirm.log; the checks on /repo are run separately: confirm_seed2_checks.sh)
id=$1; wt=/tmp/wt3_$2; out=/tmp/seed_out/$id; exec > $out/confirm.log 2>&1
git -C /repo merge-base --is-ancestor $(git -C $wt rev-parse HEAD) HEAD || { echo "worktree is not at an ancestor of /repo HEAD"; exit 1; }
git -C $wt diff > $out/wt.diff; cmp -s $out/wt.diff $out/patch.diff || { echo "worktree diff differs from patch.diff: re-applying"; git -C $wt checkout -q -- . ; git -C $wt apply $out/patch.diff || exit 1; }
echo "== patch"; head -60 $out/patch.diff
echo "== build + tests in the scratch worktree WITH the change"
(cd $wt && cmake --build _build -j8 2>&1 | grep -E "error|FAILED" | head; rm -rf _build/occa/cache; ctest --test-dir _build -j6 --timeout 900 2>&1 | tail -3)
demo=$out/demo.cpp
echo "== demo WITH change"
g++ -std=c++17 -g -I$wt/include -I$wt/_build/include -I$wt/src $demo -o $out/demo_with -L$wt/_build/lib -locca -Wl,-rpath,$wt/_build/lib -fopenmp -ldl && (rm -rf $out/cache1; cd $out; OCCA_CACHE_DIR=$out/cache1 timeout 900 $out/demo_with > $out/with.txt 2>&1; echo "exit=$?"; tail -4 $out/with.txt | cut -c1-200)
echo "== demo WITHOUT change (against /repo/_build)"
g++ -std=c++17 -g -I/repo/include -I/repo/_build/include -I/repo/src $demo -o $out/demo_without -L/repo/_build/lib -locca -Wl,-rpath,/repo/_build/lib -fopenmp -ldl && (rm -rf $out/cache2; cd $out; OCCA_CACHE_DIR=$out/cache2 timeout 900 $out/demo_without > $out/without.txt 2>&1; echo "exit=$?"; tail -3 $out/without.txt | cut -c1-200)
