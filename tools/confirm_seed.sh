#!/bin/bash
# confirm one seeded change produced in /tmp/wt_<id> + /tmp/seed_out/<id>, then try the checks on it
# usage: confirm_seed.sh <ID> [props to check...]
id=$1; shift; props=${@:-$id}
wt=/tmp/wt_$id; out=/tmp/seed_out/$id
echo "== patch"; cat $out/patch.diff | head -60
echo "== tests in worktree (with change)"
(cd $wt && cmake --build _build -j16 2>&1 | tail -1 && rm -rf _build/occa/cache && ctest --test-dir _build -j8 --timeout 900 2>&1 | tail -3)
if [ -f $out/demo.cpp ]; then
  echo "== demo WITH change"
  g++ -std=c++17 -g -I$wt/include -I$wt/_build/include -I$wt/src $out/demo.cpp -o $out/demo_with -L$wt/_build/lib -locca -Wl,-rpath,$wt/_build/lib -fopenmp && (rm -rf $out/cache1; OCCA_CACHE_DIR=$out/cache1 timeout 300 $out/demo_with | tail -5; echo "exit=$?")
  echo "== demo WITHOUT change (against /repo/_build)"
  g++ -std=c++17 -g -I/repo/include -I/repo/_build/include -I/repo/src $out/demo.cpp -o $out/demo_without -L/repo/_build/lib -locca -Wl,-rpath,/repo/_build/lib -fopenmp && (rm -rf $out/cache2; OCCA_CACHE_DIR=$out/cache2 timeout 300 $out/demo_without | tail -5; echo "exit=$?")
fi
echo "== checks on /repo with the patch applied"
git -C /repo apply $out/patch.diff || { echo "PATCH DOES NOT APPLY"; exit 1; }
for p in $props; do (cd /verif && VERIF_NO_EVIDENCE=1 ./check $p | grep -v "^VIOLATION" | cut -c1-300 | tail -6); done
git -C /repo checkout -- .
git -C /repo status --short | grep -v _build
