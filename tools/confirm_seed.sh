#!/bin/bash
# confirm one seeded change (/tmp/seed_out/<id>/patch.diff + demo) in the isolated worktree /tmp/wt_confirm,
# then try the checks on /repo with the patch applied (and undo it)
# usage: confirm_seed.sh <ID> [props to check...]
id=$1; shift; props=${@:-$id}; exec > >(tee /tmp/seed_out/$id/confirm.log) 2>&1
wt=/tmp/wt_confirm
[ -d $wt ] || git -C /repo worktree add --detach $wt HEAD > /dev/null 2>&1   # scratch worktree, created on demand (remove it afterwards: git -C /repo worktree remove --force $wt); out=/tmp/seed_out/$id
git -C $wt checkout -q -- . ; git -C $wt clean -fdq -e _build; git -C $wt checkout -q --detach $(git -C /repo rev-parse HEAD)
echo "== patch"; head -50 $out/patch.diff
git -C $wt apply $out/patch.diff || { echo "PATCH DOES NOT APPLY to a clean tree"; exit 1; }
git -C $wt status --short | grep -v _build
[ -d $wt/_build ] || (cd $wt && cmake -S . -B _build -G Ninja -DCMAKE_BUILD_TYPE=RelWithDebInfo -DOCCA_ENABLE_TESTS=ON -DOCCA_ENABLE_EXAMPLES=OFF -DOCCA_ENABLE_FORTRAN=OFF > /dev/null 2>&1)
echo "== build + tests in isolated worktree WITH the change"
(cd $wt && cmake --build _build -j16 2>&1 | grep -E "error|FAILED" | head; rm -rf _build/occa/cache; ctest --test-dir _build -j8 --timeout 900 2>&1 | tail -3)
demo=""
[ -f $out/demo.cpp ] && demo=$out/demo.cpp
if [ -n "$demo" ]; then
  echo "== demo WITH change"
  g++ -std=c++17 -g -I$wt/include -I$wt/_build/include -I$wt/src $demo -o $out/demo_with -L$wt/_build/lib -locca -Wl,-rpath,$wt/_build/lib -fopenmp -ldl && (rm -rf $out/cache1; cd $out; OCCA_CACHE_DIR=$out/cache1 timeout 600 $out/demo_with > $out/with.txt 2>&1; echo "exit=$?"; tail -4 $out/with.txt | cut -c1-200)
  echo "== demo WITHOUT change (against /repo/_build)"
  g++ -std=c++17 -g -I/repo/include -I/repo/_build/include -I/repo/src $demo -o $out/demo_without -L/repo/_build/lib -locca -Wl,-rpath,/repo/_build/lib -fopenmp -ldl && (rm -rf $out/cache2; cd $out; OCCA_CACHE_DIR=$out/cache2 timeout 600 $out/demo_without > $out/without.txt 2>&1; echo "exit=$?"; tail -3 $out/without.txt | cut -c1-200)
elif [ -f $out/demo.sh ]; then
  echo "== demo.sh present: run by hand"
fi
git -C $wt checkout -q -- .
echo "== checks on /repo with the patch applied"
git -C /repo apply $out/patch.diff || { echo "PATCH DOES NOT APPLY to /repo"; exit 1; }
for p in $props; do (cd /verif && VERIF_NO_EVIDENCE=1 ./check $p | grep -v "^VIOLATION" | cut -c1-300 | tail -5); done
git -C /repo checkout -- .
git -C /repo status --short | grep -v _build
