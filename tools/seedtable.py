#!/usr/bin/env python3
"""prints the markdown table of seeded changes for DESIGN.md 10.6 from seeded/*/meta.json"""
import glob, json, os
rows = []
for m in sorted(glob.glob("/verif/seeded/*/meta.json")):
    d = json.load(open(m))
    h = d.get("detection_history", "")
    first = "caught" if h.lower().startswith("caught") else ("crashed" if h.lower().startswith("check crashed") else ("shape only" if h.lower().startswith("flagged") else "MISSED"))
    rows.append("| %s | %s | %s | %s | %s | %s |" % (d["id"], d["property"], d["what"].replace("|", "/"), d["needs_to_manifest"].replace("|", "/"), first, d.get("caught_by_rule", "")))
print("| seed | prop | change | needs to manifest | as first built | caught now by |")
print("|---|---|---|---|---|---|")
print("\n".join(rows))
