"""C04 - memory-pool accounting matches its live reservations (structural clauses).

 R1  who-may-write `reserved`
 R2  addModeMemoryRef / removeModeMemoryRef compute the contribution with the same overlap scan (sibling agreement)
 R3  reservation set and ring are updated together; numReservations() is the set's size
 R4  resize starts with the reserved <= bytes guard; shrinkToFit resizes to reserved()
 R5  `size` is only assigned an aligned amount covering the request
"""
import re

from vlib.facts import kids, strip, walk, is_call, call_args, call_object, callee, render, literal
from vlib.cfg import write_target
from vlib.work import AnalysisBroken
from vlib.flow import lex_keys

UNITS = ["src/occa/internal/core/memoryPool.cpp", "src/core/memoryPool.cpp"]
MP = "occa::modeMemoryPool_t::"
RES = MP + "reserved"
WRITERS = {(MP + "addModeMemoryRef", "+="), (MP + "removeModeMemoryRef", "-="), (MP + "resize", "="), (MP + "setAlignment", "=")}


def norm_stmt(f, n):
    s = render(n, False)
    return re.sub(r"\s+", " ", s)


def run(ctx):
    R = ctx.R
    prog = ctx.program(UNITS, thorough_all=False)
    R.explanation = ("Decides who changes the pool's `reserved` counter, that registering and releasing a reservation compute its contribution with the identical overlap scan (so release undoes reserve), that the "
                     "reservation set, the ring and the counter move together, and the guards of resize/shrinkToFit. Does not decide the union-of-aligned-ranges identity itself.")
    R.rule("C04-R1", "who-may-write reserved", floor=5)
    R.rule("C04-R2", "add/remove compute the contribution with the same overlap scan over the whole reservation set", floor=5)
    R.rule("C04-R3", "reservation set and ring updated together; numReservations = set size", floor=5)
    R.rule("C04-R4", "resize guard and shrinkToFit target", floor=2)
    R.rule("C04-R5", "size assigned only an aligned amount >= request", floor=3)

    for f in prog.funcs.values():
        if f.d.get("tmpl") == "inst":
            continue
        for i in f.d.get("inits", ()):
            if i.get("field") == RES:
                R.ob("C04-R1", literal(i["e"]) == 0, f.q, "init:reserved=0", "%s:%s" % (f.relfile, i["l"]), "starts at zero", nontrivial=False)
        for n in f.walk():
            t = write_target(n)
            if t is not None and strip(t).get("n") == RES:
                ok = (f.q, n.get("op")) in WRITERS
                R.ob("C04-R1", ok, f.q, "write:reserved %s %s" % (n.get("op"), render(kids(n)[1], False)), f.site(n),
                     "enumerated writer" if ok else "`reserved` is changed outside add/remove/resize/setAlignment: it no longer mirrors the reservation set")
    add = prog.fn(MP + "addModeMemoryRef")
    rem = prog.fn(MP + "removeModeMemoryRef")

    def scan_signature(f):
        """normalised statements that compute lo/hi: the two inits and the range-for body"""
        out = []
        for n in f.walk():
            if n["k"] == "VarDecl" and n.get("n") in ("lo", "hi") and kids(n):
                out.append("%s = %s" % (n["n"], render(kids(n)[0], False)))
        loops = [n for n in f.walk() if n["k"] == "CXXForRangeStmt"]
        if len(loops) != 1:
            # no scan over the whole set: reported below as a disagreement / incomplete scan
            anyloop = [n for n in f.walk() if n["k"] in ("ForStmt", "WhileStmt", "DoStmt") and not n.get("mac")]
            if not anyloop:
                raise AnalysisBroken("%s: no loop over the reservations" % f.q)
            out.append("PARTIAL-SCAN " + render(kids(anyloop[0])[0], False)[:80])
            return out
        body = kids(loops[0])[-1]
        rng = render(kids(loops[0])[0], False)
        out.append("for " + rng)
        for n in walk(body):
            if n["k"] in ("IfStmt",):
                out.append("if " + render(kids(n)[0], False))
            elif n["k"] == "VarDecl" and kids(n):
                out.append("%s = %s" % (n["n"], render(kids(n)[0], False)))
            elif write_target(n) is not None:
                out.append(render(n, False))
            elif n["k"] in ("BreakStmt", "ContinueStmt"):
                out.append(n["k"])
        return out
    sa, sr = scan_signature(add), scan_signature(rem)
    for f_, sg in ((add, sa), (rem, sr)):
        whole = any(x.startswith("for ") and "reservations" in x for x in sg)
        R.ob("C04-R2", whole, f_.q, "scan visits every live reservation", "%s:%d" % (f_.relfile, f_.d["line"]),
             "range-for over the whole reservation set" if whole else
             "the overlap scan does not run over the whole reservation set: a covering reservation that is not a neighbour in offset order (a parent behind a sibling slice) is never examined, so `reserved` drops while the range is still covered")
    ok = sa == sr
    diff = [(a, b) for a, b in zip(sa, sr) if a != b][:2]
    R.ob("C04-R2", ok, MP + "add/removeModeMemoryRef", "scan:identical", "%s:%d" % (add.relfile, add.d["line"]),
         "both compute hi-lo with the same %d-step scan" % len(sa) if ok else "the two scans differ (%s): releasing a reservation does not subtract what reserving it added" % (diff or "length"))
    for f, op in ((add, "+="), (rem, "-=")):
        ws = [n for n in f.walk() if write_target(n) is not None and strip(write_target(n)).get("n") == RES]
        ok = len(ws) == 1 and ws[0].get("op") == op and render(kids(ws[0])[1], False).replace(" ", "") in ("(hi-lo)", "hi-lo")
        R.ob("C04-R2", ok, f.q, "delta:reserved %s hi-lo" % op, f.site(ws[0]) if ws else f.relfile, "contribution applied with %s" % op)
    # ---- R3 --------------------------------------------------------------------------
    def has_call(f, suffix):
        return [c for c in f.walk() if is_call(c) and callee(c).endswith(suffix)]
    okadd = has_call(add, "ring_t<occa::modeMemory_t>::addRef") and (has_call(add, "::emplace") or has_call(add, "::insert"))
    R.ob("C04-R3", bool(okadd), add.q, "pair:ring.addRef + reservations.emplace", "%s:%d" % (add.relfile, add.d["line"]), "reservation enters ring and set together")
    okrem = has_call(rem, "ring_t<occa::modeMemory_t>::removeRef") and has_call(rem, "::erase")
    R.ob("C04-R3", bool(okrem), rem.q, "pair:ring.removeRef + reservations.erase", "%s:%d" % (rem.relfile, rem.d["line"]), "reservation leaves ring and set together")
    # the scan in remove runs after the erase (the released reservation must not count as a neighbour of itself)
    er = has_call(rem, "::erase")
    lp = [n for n in rem.walk() if n["k"] == "CXXForRangeStmt"]
    ok = bool(er) and bool(lp) and rem.cfg.before(er[0], kids(lp[0])[-1])
    R.ob("C04-R3", ok, rem.q, "order:erase before scan", rem.site(er[0]) if er else rem.relfile, "the released reservation is removed from the set before its neighbours are scanned")
    em = has_call(add, "::emplace") or has_call(add, "::insert")
    lp = [n for n in add.walk() if n["k"] == "CXXForRangeStmt"]
    ok = bool(em) and bool(lp) and not add.cfg.before(em[0], kids(lp[0])[-1])
    R.ob("C04-R3", ok, add.q, "order:scan before emplace", add.site(em[0]) if em else add.relfile, "the new reservation is inserted after its neighbours are scanned")
    nr = prog.fn(MP + "numReservations")
    rets = [n for n in nr.walk() if n["k"] == "ReturnStmt"]
    ok = len(rets) == 1 and "this->reservations.size()" in render(rets[0], False)
    cmpf = [f for f in prog.funcs.values() if f.q == "occa::modeMemoryPool_t::compare::operator()"]
    td = prog.typedefs.get("occa::modeMemoryPool_t::reservationSet")
    if len(cmpf) != 1 or td is None:
        raise AnalysisBroken("reservation set comparator / typedef vanished")
    try:
        keys = lex_keys(cmpf[0])
    except ValueError as e:
        raise AnalysisBroken("reservation comparator is not a recognised lexicographic comparison: %s" % e)
    multi = td["ct"].startswith("std::multiset<")
    okc = multi or (bool(keys) and keys[-1][0] == "$")
    R.ob("C04-R3", okc, cmpf[0].q, "set keeps every live reservation: distinct reservations never compare equivalent", "%s:%d" % (cmpf[0].relfile, cmpf[0].d["line"]),
         ("comparator keys %s end with the object identity" % keys) if okc else
         "comparator keys %s do not end with the object identity: a slice/cast/second reservation with equal keys is dropped by std::set::emplace while `reserved` and the ring count it - "
         "numReservations() and the later erase(find()) no longer match the live reservations" % keys)
    R.ob("C04-R3", ok, nr.q, "numReservations:set size", "%s:%d" % (nr.relfile, nr.d["line"]), "numReservations() returns reservations.size()")
    hnr = prog.fn("occa::memoryPool::numReservations")
    ok = any(is_call(c) and callee(c) == MP + "numReservations" for c in hnr.walk())
    R.ob("C04-R3", ok, hnr.q, "handle:forwards", "%s:%d" % (hnr.relfile, hnr.d["line"]), "handle forwards to the pool")
    hr = prog.fn("occa::memoryPool::reserved")
    ok = any(x["k"] == "MemberExpr" and x.get("n") == RES for x in hr.walk())
    R.ob("C04-R3", ok, hr.q, "handle:reads reserved", "%s:%d" % (hr.relfile, hr.d["line"]), "handle reports the pool's counter")
    # ---- R4 --------------------------------------------------------------------------
    rz = prog.fn(MP + "resize")
    cfg = rz.cfg
    IN = cfg.facts_in()
    first_effect = None
    for n in rz.walk():
        if (is_call(n) and (callee(n).endswith("::malloc") or callee(n).endswith("makeBuffer"))) or n["k"] == "CXXDeleteExpr":
            first_effect = n
            break
    bparam = rz.d["params"][0]["n"]
    fs = cfg.facts_at(first_effect, IN)
    ok = any(pol and k.replace(" ", "").startswith("(this->reserved<=%s#" % bparam) for (k, pol) in fs)
    R.ob("C04-R4", ok, rz.q, "guard:reserved <= bytes", rz.site(first_effect), "resizing below the reserved amount raises before anything is changed")
    stf = prog.fn("occa::memoryPool::shrinkToFit")
    ok = any(is_call(c) and callee(c) == "occa::memoryPool::resize" and is_call(strip(call_args(c)[0])) and callee(strip(call_args(c)[0])) == "occa::memoryPool::reserved" for c in stf.walk())
    R.ob("C04-R4", ok, stf.q, "shrinkToFit:resize(reserved())", "%s:%d" % (stf.relfile, stf.d["line"]), "shrinkToFit resizes to exactly the reserved amount")
    # ---- R5 --------------------------------------------------------------------------
    SZ = "occa::modeBuffer_t::size"
    for q in (MP + "resize", MP + "setAlignment"):
        f = prog.fn(q)
        for n in f.walk():
            t = write_target(n)
            if t is None or strip(t).get("n") != SZ or not (kids(strip(t)) and strip(kids(strip(t))[0])["k"] == "CXXThisExpr"):
                continue
            rhs = strip(kids(n)[1])
            ok = False
            why = render(rhs, False)
            if rhs["k"] == "DeclRefExpr":
                ds = f.local_defs().get(rhs["d"], [])
                init = [d for d in ds if d["k"] == "VarDecl" and kids(d)]
                if init:
                    e = render(kids(init[0])[0], False).replace(" ", "")
                    # round-up of the request to the alignment, or the packed total accumulated from round-ups
                    if re.search(r"\(\(\(\(?\w+\+this->alignment\)-1\)/this->alignment\)\*this->alignment\)", e):
                        ok = True
                    elif rhs["n"] == "newReserved":
                        incs = [d for d in ds if d["k"] == "CompoundAssignOperator"]
                        ok = bool(incs) and all("Alignment" in render(kids(d)[1], False) or "alignment" in render(kids(d)[1], False) or "reservationSize" in render(kids(d)[1], False) for d in incs)
            R.ob("C04-R5", ok, q, "size = %s" % why, f.site(n), "size is an aligned amount covering the request" if ok else "pool size assigned a value that is not the aligned request / packed total")
    # resize / setAlignment recompute `reserved` from the merged blocks of the sweep: the sweep clauses are shared with C03
    from rules import c03
    from vlib.refile import refile
    refile(ctx, c03, {"C03-R4": "C04-R6", "C03-R6": "C04-R7"}, "C03")


META = {
    "technique": "who-may-write over field events of `reserved`; sibling agreement of the normalised overlap scans; pairing/ordering via dominators; guard dominance; comparator key sequence ends with the object identity",
    "level": "Static decision that `reserved` changes only in add/remove (by the scanned contribution) and in resize/setAlignment (to the packed total), that add and remove run the identical overlap scan so a release "
             "subtracts exactly what the reservation added, that set, ring and counter are updated together and in the right order, that resize rejects sizes below the reserved amount before any effect, "
             "that size only ever takes aligned amounts, and (shared with C03) that the sweeps from which resize / setAlignment recompute `reserved` agree and never move a block end backwards. Covers every history's bookkeeping step; tests check a few totals.",
    "note": "Does not decide the identity reserved == |union of aligned ranges| (arithmetic over runtime ranges). An outside dynamic probe (DESIGN 10.9, probes/P03) shows the identity FAILS for partially overlapping reservations: add/remove subtract the intersection with a neighbour instead of the uncovered remainder (both identically, which is why the sibling rule C04-R2 is satisfied); `reserved` drifts and can underflow. No rule here reports that.",
}
