"""C30 - with sharable devices, concurrent handle use is race-free (lock discipline in the `sharable` configuration).

Analysed with OCCA_THREAD_SHARABLE_ENABLED = 1 (a configuration the test-suite never builds).
 R1  LOCK balance: on every path of the ring functions and of settings() lock/unlock of the mutex balance, flag-sensitively for `threadLock`;
     no path unlocks a mutex the function did not lock, none returns holding it
 R2  protected state: ring_t::head and the ring links are written only while the ring mutex is held
 R3  check-then-act: dropping a reference, testing needsFree() and deleting happen inside one critical section
 R4  the device's allocation counters are updated under a lock or atomically
 R5  settings() does not hand out a reference to shared state after unlocking
"""
from vlib.facts import kids, strip, walk, is_call, call_args, call_object, callee, render, literal, noid
from vlib.cfg import write_target
from vlib.work import AnalysisBroken

UNITS = ["src/core/memory.cpp", "src/core/memoryPool.cpp", "src/core/device.cpp", "src/core/kernel.cpp", "src/core/stream.cpp", "src/core/streamTag.cpp",
         "src/occa/internal/core/memory.cpp", "src/occa/internal/core/buffer.cpp", "src/occa/internal/core/device.cpp", "src/occa/internal/core/memoryPool.cpp",
         "src/occa/internal/utils/env.cpp", "src/occa/internal/utils/gc.cpp", "src/utils/mutex.cpp"]
HANDLES = ["occa::device", "occa::memory", "occa::memoryPool", "occa::kernel", "occa::stream", "occa::streamTag"]
LOCK, UNLOCK = "occa::mutex_t::lock", "occa::mutex_t::unlock"


def lock_kind(n):
    """'lock' / 'unlock' for a (possibly dependent) call on a mutex object, else None"""
    if n is None:
        return None
    if n["k"] == "CXXMemberCallExpr" and callee(n) in (LOCK, UNLOCK):
        return "lock" if callee(n) == LOCK else "unlock"
    if n["k"] == "CallExpr" and not callee(n) and kids(n):
        m = kids(n)[0]
        if m["k"] in ("CXXDependentScopeMemberExpr", "UnresolvedMemberExpr") and m.get("n") in ("lock", "unlock") and "mutex" in noid(render(m, False)):
            return m["n"]
    return None


def lock_states(f, held_at_entry=False):
    """forward analysis of the set of possible lock depths at each block entry, path-sensitive on bool parameters
    (state = (depth, frozenset of (param decl, value) assumptions)). Returns (events, exits)
    events: [(node, kind, depths-before)], exits: set of depths at normal exits"""
    cfg = f.cfg
    cfg.facts_in()
    pbool = {p["d"] for p in f.d["params"] if "bool" in f.tname(p["t"])}
    start = (1 if held_at_entry else 0, frozenset())
    seen = set()
    work = [(cfg.entry, start)]
    events = {}
    exits = set()
    while work:
        b, (depth, assume) = work.pop()
        if (b, depth, assume) in seen:
            continue
        seen.add((b, depth, assume))
        blk = cfg.blocks[b]
        d = depth
        for e in blk.elems:
            n = f.nodes.get(e) if isinstance(e, int) else None
            lk = lock_kind(n)
            if lk == "lock":
                events.setdefault(n["i"], (n, "lock", set()))[2].add(d)
                d += 1
            elif lk == "unlock":
                events.setdefault(n["i"], (n, "unlock", set()))[2].add(d)
                d -= 1
        if b == cfg.exit:
            exits.add(d)
            continue
        if not blk.succs and not blk.noret:
            exits.add(d)
        for s in blk.succs:
            if s is None:
                continue
            if s == cfg.exit and blk.noret:
                continue
            na = set(assume)
            ok = True
            for (node, pol) in cfg._edge_facts.get((b, s), ()):
                x = strip(node)
                if x["k"] == "DeclRefExpr" and x.get("d") in pbool:
                    if (x["d"], not pol) in na:
                        ok = False
                    na.add((x["d"], pol))
            if ok:
                work.append((s, (d, frozenset(na))))
    return events, exits


def held_at(f, node, held_at_entry=False, assume0=()):
    """is the mutex held on every path at `node`? assume0: initial (bool parameter decl, value) assumptions"""
    cfg = f.cfg
    cfg.facts_in()
    pos = cfg.position(node)
    pbool = {p["d"] for p in f.d["params"] if "bool" in f.tname(p["t"])}
    seen = set()
    work = [(cfg.entry, 1 if held_at_entry else 0, frozenset(assume0))]
    depths = set()
    while work:
        b, d, assume = work.pop()
        if (b, d, assume) in seen:
            continue
        seen.add((b, d, assume))
        blk = cfg.blocks[b]
        for idx, e in enumerate(blk.elems):
            if (b, idx) == pos:
                depths.add(d)
            n = f.nodes.get(e) if isinstance(e, int) else None
            lk = lock_kind(n)
            if lk == "lock":
                d += 1
            elif lk == "unlock":
                d -= 1
        for s in blk.succs:
            if s is None:
                continue
            na = set(assume)
            ok = True
            for (nd, pol) in cfg._edge_facts.get((b, s), ()):
                x = strip(nd)
                if x["k"] == "DeclRefExpr" and x.get("d") in pbool:
                    if (x["d"], not pol) in na:
                        ok = False
                    na.add((x["d"], pol))
            if ok:
                work.append((s, d, frozenset(na)))
    return bool(depths) and min(depths) >= 1, depths


def held_flagwise(f, node):
    """ring_t::removeRef(entry, threadLock): the callee locks itself when threadLock is true and relies on the caller's lock when it is
    false (checked at the call site, R1). The node must be inside the critical section in both scenarios."""
    pb = [p["d"] for p in f.d["params"] if "bool" in f.tname(p["t"])]
    if len(pb) != 1:
        return held_at(f, node)
    a, da = held_at(f, node, held_at_entry=False, assume0=[(pb[0], True)])
    b, db = held_at(f, node, held_at_entry=True, assume0=[(pb[0], False)])
    return a and b, {"self-locking": sorted(da), "caller-locked": sorted(db)}


def run(ctx):
    R = ctx.R
    prog = ctx.program(UNITS, variant="sharable")
    R.explanation = ("Analyses the thread-sharable configuration, which no test builds. Decides lock/unlock balance (flag-sensitive) of every function that touches the ring mutex or the settings mutex, that ring state is written only "
                     "while the mutex is held, whether reference drop / needsFree / delete form one critical section, and whether allocation counters are synchronised. The genuine races found are recorded as known findings per function, "
                     "so a new unprotected access is still reported. Absence of races in general is not decided.")
    R.assumptions += ["one mutex per ring_t<entry_t> instantiation (static member), as declared", "analysis of configuration variant `sharable` (OCCA_THREAD_SHARABLE_ENABLED 1)"]
    R.rule("C30-R1", "lock/unlock balance on every path (flag-sensitive)", floor=5)
    R.rule("C30-R2", "ring state written only while the ring mutex is held", floor=6)
    R.rule("C30-R3", "reference drop, needsFree() test and delete in one critical section", floor=6)
    R.rule("C30-R4", "allocation counters updated under a lock or atomically", floor=4)
    R.rule("C30-R6", "every translation unit that instantiates ring operations compiles the locking declaration of ring_t (the configuration macro is defined before gc.hpp is read)", floor=3)
    R.rule("C30-R5", "settings(): no reference to shared state escapes the critical section", floor=1)

    # ---- R6: gc.hpp selects the locking variant with `#if OCCA_THREAD_SHARABLE_ENABLED` but does not include the header that defines it ------
    import json as _json
    from vlib import work as _work
    import os as _os
    us = _work.all_units() if ctx.tier == "thorough" else [_os.path.join(_work.REPO, u) for u in UNITS]
    res, _ = _work.extract(us, "sharable")
    n_users = 0
    for unit in sorted(res):
        with open(res[unit]) as fh:
            d = _json.load(fh)
        ring = [r for r in d["records"] if r.get("q") == "occa::gc::ring_t"]
        if not ring:
            continue
        locking = any(m["n"] == "removeRef" and "bool" in m.get("sig", "") for m in ring[0]["methods"])
        fl = d["functions"].values() if isinstance(d["functions"], dict) else d["functions"]
        inst = sorted({fn.get("q", "") for fn in fl if fn.get("q", "").startswith("occa::gc::ring_t") and fn.get("tmpl") == "inst"})
        rel = _os.path.relpath(unit, _work.REPO)
        if not inst:
            continue            # sees the declaration only (gc.cpp): no ring operation is compiled into this unit
        n_users += 1
        R.ob("C30-R6", locking, rel, "unit compiles the locking ring_t (%d ring member instantiations)" % len(inst), rel,
             "removeRef(entry, threadLock) / mutex present" if locking else
             "this unit reads gc.hpp before OCCA_THREAD_SHARABLE_ENABLED is defined: in a sharable build its ring operations (%s ...) are compiled WITHOUT the mutex while every other unit locks - concurrent slices / copies race on the ring" % ", ".join(inst[:2]),
             nontrivial=False)
    if n_users < 3:
        raise AnalysisBroken("only %d units with ring instantiations found in the sharable variant" % n_users)

    ring_fns = [f for f in prog.funcs.values() if f.d.get("tmpl") == "pattern" and (f.q.startswith("occa::gc::ring_t::") or f.q.startswith("occa::gc::multiRing_t::"))]
    if len(ring_fns) < 10:
        raise AnalysisBroken("gc ring functions not found in the sharable variant (%d)" % len(ring_fns))
    # gc.cpp includes gc.hpp before any header that defines OCCA_THREAD_SHARABLE_ENABLED, so that one unit sees the non-sharable
    # declarations even in a sharable build; the sharable definitions are the ones with the extra `threadLock` parameter
    if any(f.q == "occa::gc::ring_t::removeRef" and len(f.d["params"]) == 2 for f in ring_fns):
        ring_fns = [f for f in ring_fns if not (f.q == "occa::gc::ring_t::removeRef" and len(f.d["params"]) == 1)]
    lockers = [f for f in ring_fns if any(lock_kind(c) for c in f.walk())]
    st = prog.fn("occa::settings")
    if not any(lock_kind(c) == "lock" for c in st.walk()):
        raise AnalysisBroken("settings(): the sharable variant does not lock - wrong configuration analysed?")
    # callers that invoke removeRef(entry, false) hold the lock themselves
    for f in lockers + [st]:
        held_entry = False
        events, exits = lock_states(f)
        fname = f.q + " " + f.d["sig"]
        for nid, (n, kind, depths) in sorted(events.items()):
            if kind == "unlock":
                ok = min(depths) >= 1
                R.ob("C30-R1", ok, fname, "unlock:held on every path", f.site(n), "the mutex is held whenever it is released here" if ok else
                     "a path reaches this unlock without having locked (depths %s): with threadLock == false the caller's lock is released behind its back and later unlocked again" % sorted(depths))
            else:
                ok = max(depths) == 0
                R.ob("C30-R1", ok, fname, "lock:not already held", f.site(n), "no self-deadlock" if ok else "locks a mutex this function may already hold (depths %s)" % sorted(depths))
        ok = exits <= {0}
        R.ob("C30-R1", ok, fname, "exit:lock depth 0", "%s:%d" % (f.relfile, f.d["line"]), "every exit leaves the mutex as it found it" if ok else "an exit leaves the mutex locked/over-released (depths %s)" % sorted(exits))
    # multiRing_t::removeRef calls ring.removeRef(entry, false) while holding the lock
    mr = [f for f in ring_fns if f.q == "occa::gc::multiRing_t::removeRef"]
    for f in mr:
        for c in f.walk():
            if is_call(c) and "removeRef" in noid(render(kids(c)[0], False)) and len(call_args(c)) == 2 and literal(call_args(c)[1]) is False:
                ok, depths = held_at(f, c)
                R.ob("C30-R1", ok, f.q, "nested removeRef(entry, false) called with the lock held", f.site(c), "the flag tells the callee not to lock again" if ok else "callee is told not to lock but the caller does not hold the lock")

    # ---- R2 --------------------------------------------------------------------------
    for f in ring_fns:
        if f.d["kind"] == "ctor":
            continue
        for n in f.walk():
            t = write_target(n)
            if t is None:
                continue
            s = noid(render(strip(t), False))
            if s in ("this->head", "head") or s.endswith("RingEntry") or s.endswith(".head"):
                has_lock = f in lockers
                held_entry = f.q == "occa::gc::ring_t::removeRef"   # may be entered with the caller's lock when threadLock == false
                ok, depths = held_at(f, n) if has_lock else (False, set())
                if not ok and has_lock and f.q == "occa::gc::ring_t::removeRef":
                    # flag-sensitive: with threadLock == false the caller holds it (checked above), with true the function locks itself
                    ok, depths = held_flagwise(f, n)
                R.ob("C30-R2", ok, f.q + " " + f.d["sig"], "write:%s" % s, f.site(n), "ring state is updated inside the critical section" if ok else "ring state is written without holding the ring mutex")
    re_ = prog.fn("occa::gc::ringEntry_t::removeRef")
    callers = {g.q for g in prog.funcs.values() if g.d.get("tmpl") in ("pattern", None) for c in g.walk() if is_call(c) and callee(c) == re_.q}
    for g in prog.funcs.values():
        if g.d.get("tmpl") == "inst":
            continue
        for c in g.walk():
            if is_call(c) and (callee(c) == re_.q or (c["k"] == "CallExpr" and not callee(c) and noid(render(kids(c)[0], False)).endswith("entry->removeRef"))):
                if g in lockers:
                    ok, depths = held_at(g, c)
                    if not ok and g.q == "occa::gc::ring_t::removeRef":
                        ok, depths = held_flagwise(g, c)
                    R.ob("C30-R2", ok, g.q + " " + g.d["sig"], "call:entry->removeRef() under the lock", g.site(c), "neighbour links rewired inside the critical section" if ok else "links rewired without the lock")

    # ---- R3 --------------------------------------------------------------------------
    for h in HANDLES:
        for f in prog.methods_of(h):
            dels = [n for n in f.walk() if n["k"] == "CXXDeleteExpr" or (n["k"] == "CXXMemberCallExpr" and callee(n) == h + "::free")]
            nf = [c for c in f.walk() if c["k"] == "CXXMemberCallExpr" and callee(c).endswith("::needsFree")]
            rem = [c for c in f.walk() if c["k"] == "CXXMemberCallExpr" and "::remove" in callee(c) and callee(c).endswith("Ref") and call_args(c) and strip(call_args(c)[0])["k"] == "CXXThisExpr"]
            if not (nf and rem and dels):
                continue
            # one critical section: a lock taken in this function before the drop and released after the delete
            locks = [c for c in f.walk() if lock_kind(c) == "lock"]
            ok = bool(locks) and all(f.cfg.before(locks[0], r) for r in rem)
            R.ob("C30-R3", ok, f.q, "atomic:drop reference; needsFree(); delete", f.site(nf[0]),
                 "one critical section" if ok else
                 "the reference is dropped under the ring mutex, but needsFree() and the delete run after it is released: two threads destroying the last two handles both see an empty ring and both delete the object (double free)")
    mm = prog.fn("occa::modeMemory_t::removeModeMemoryRef")
    locks = [c for c in mm.walk() if lock_kind(c) == "lock"]
    R.ob("C30-R3", bool(locks), mm.q, "atomic:drop buffer reference; needsFree(); delete", "%s:%d" % (mm.relfile, mm.d["line"]),
         "one critical section" if locks else "same unsynchronised check-then-delete on the buffer's ring of slices")

    # ---- R4 --------------------------------------------------------------------------
    BA = ("occa::modeDevice_t::bytesAllocated", "occa::modeDevice_t::maxBytesAllocated")
    rec = prog.record("occa::modeDevice_t")
    fld = {x["n"]: x["t"] for x in rec["fields"]}
    atomic = all("atomic" in fld.get(n.split("::")[-1], "") for n in BA)
    for f in prog.funcs.values():
        if f.d.get("tmpl") == "inst" or f.d["kind"] == "ctor":
            continue
        ws = [n for n in f.walk() if write_target(n) is not None and strip(write_target(n)).get("n") in BA]
        if not ws:
            continue
        locks = [c for c in f.walk() if lock_kind(c) == "lock"]
        ok = atomic or (bool(locks) and all(f.cfg.before(locks[0], w) for w in ws))
        R.ob("C30-R4", ok, f.q, "counters:%d update(s)" % len(ws), f.site(ws[0]), "synchronised" if ok else
             "bytesAllocated / maxBytesAllocated are plain udim_t fields updated with += / -= and max() without any lock: concurrent malloc/free on one device lose updates (miscounted memory)")

    # ---- R5 --------------------------------------------------------------------------
    rets = [r for r in st.walk() if r["k"] == "ReturnStmt"]
    rt = st.tname(st.d.get("ret"))
    shared_static = any(n["k"] == "VarDecl" and n.get("static") and n["n"] == "props" for n in st.walk())
    ok = not (rt.endswith("&") and shared_static)
    R.ob("C30-R5", ok, st.q, "returns a reference to the shared static `props` after unlock", "%s:%d" % (st.relfile, st.d["line"]),
         "no shared reference escapes" if ok else "every caller reads and mutates the process-wide settings object through this reference with no lock held (the mutex only protects the lazy initialisation)")


META = {
    "technique": "lock typestate over the CFGs of the ring and settings functions in the `sharable` configuration variant (two scenarios analysed separately: threadLock true with the mutex free at entry, threadLock false with the caller holding it), held-state queries for writes to ring state, critical-section span checks for check-then-act and counter updates",
    "level": "Static decision, in the only configuration where it matters and which no test builds, that every lock is released exactly by the path that took it (flag-sensitively) and ring state is only written while held; and an exact "
             "inventory of the places where the property is violated by design of the current code - the reference drop / needsFree / delete sequences of all six handle classes and of buffer slices, the unsynchronised allocation counters, "
             "and settings() - each recorded as a known finding by function so that any NEW unprotected access, unbalanced path or additional racy site is reported as a violation.",
    "note": "Does not decide absence of data races in general (no happens-before / interleaving exploration: that would be a different technique family). The recorded findings are genuine races of the sharable build (double free when two threads "
            "drop the last two handles; lost counter updates) whose repair is a redesign of the reference protocol, not a small patch.",
}
