"""C01 - handles release each backend object exactly once (reference-ring protocol conformance).

 R1  who-may-write H::modeX and under which local protocol (release / write / re-register; null after delete; null while draining the ring)
 R2  every mode-object destructor drains its wrapper ring before it returns
 R3  who-may-delete a mode object, and under which guard
 R4  constructor registration with the parent is paired with deregistration in the destructor; freeResources covers every object ring
 R5  the six handle classes implement copy / assign / destroy through the protocol functions
"""
from vlib.facts import kids, strip, walk, is_call, call_args, call_object, callee, render, is_null_const, noid
from vlib.cfg import write_target
from vlib.work import AnalysisBroken

UNITS = [
    "src/core/memory.cpp", "src/core/memoryPool.cpp", "src/core/device.cpp", "src/core/kernel.cpp",
    "src/core/stream.cpp", "src/core/streamTag.cpp",
    "src/occa/internal/core/memory.cpp", "src/occa/internal/core/buffer.cpp", "src/occa/internal/core/device.cpp",
    "src/occa/internal/core/kernel.cpp", "src/occa/internal/core/memoryPool.cpp", "src/occa/internal/core/stream.cpp",
    "src/occa/internal/core/streamTag.cpp", "src/occa/internal/utils/gc.cpp",
    "src/occa/internal/modes/serial/device.cpp", "src/occa/internal/modes/serial/memory.cpp",
    "src/occa/internal/modes/serial/buffer.cpp", "src/occa/internal/modes/serial/memoryPool.cpp",
    "src/occa/internal/modes/serial/kernel.cpp", "src/occa/internal/modes/serial/stream.cpp",
]

HANDLES = ["occa::device", "occa::memory", "occa::memoryPool", "occa::kernel", "occa::stream", "occa::streamTag"]
MODE_BASES = ["occa::modeDevice_t", "occa::modeMemory_t", "occa::modeBuffer_t", "occa::modeKernel_t",
              "occa::modeStream_t", "occa::modeStreamTag_t", "occa::modeMemoryPool_t"]

# who may delete a mode object:  (function, operand) -> required guard
#   needsFree : branch fact  <operand>->needsFree() == true  holds at the delete
#   nullafter : the handle's pointer is set to NULL on every path after the delete, or the deleted object's destructor drains the ring this handle is in (R2)
#   drain     : operand was just taken from <ring>.head and removed from the ring
#   owner     : exclusive owner field of the enclosing object (pool backing buffer)
DELETE_TABLE = {
    ("occa::memory::removeMemoryRef", "this->modeMemory"): "needsFree",
    ("occa::memoryPool::removeMemoryPoolRef", "this->modeMemoryPool"): "needsFree",
    ("occa::modeMemory_t::removeModeMemoryRef", "this->modeBuffer"): "needsFree",
    ("occa::device::free", "this->modeDevice"): "nullafter",
    ("occa::kernel::free", "this->modeKernel"): "nullafter",
    ("occa::memory::free", "this->modeMemory"): "nullafter",
    ("occa::memory::detach", "this->modeMemory"): "nullafter",
    ("occa::memoryPool::free", "this->modeMemoryPool"): "nullafter",
    ("occa::stream::free", "this->modeStream"): "nullafter",
    ("occa::streamTag::free", "this->modeStreamTag"): "nullafter",
    ("occa::modeDevice_t::freeRing", "ptr"): "drain",
    ("occa::modeBuffer_t::~modeBuffer_t", "mem"): "drain",
    ("occa::modeMemoryPool_t::~modeMemoryPool_t", "this->buffer"): "owner",
    ("occa::modeMemoryPool_t::resize", "this->buffer"): "owner",
    ("occa::modeMemoryPool_t::setAlignment", "this->buffer"): "owner",
    # seen only when every unit is loaded (thorough tier): launcher kernels own their device-side kernels
    ("occa::launchedModeKernel_t::~launchedModeKernel_t", "this->launcherKernel"): "owner",
    ("occa::launchedModeKernel_t::~launchedModeKernel_t", "this->deviceKernels[i]"): "owner",
    # a kernel object created in this function and deleted on its own failure path, before any handle exists
    ("occa::opencl::device::buildOKLKernelFromBinary", "(&k)"): "owner",
}
THOROUGH_ONLY = {("occa::launchedModeKernel_t::~launchedModeKernel_t", "this->launcherKernel"),
                 ("occa::launchedModeKernel_t::~launchedModeKernel_t", "this->deviceKernels[i]"),
                 ("occa::opencl::device::buildOKLKernelFromBinary", "(&k)")}


def is_ring_call(n, what):
    """call of gc::ring_t<..>::addRef / removeRef (resolved or dependent)"""
    cq = callee(n)
    return cq.startswith("occa::gc::ring_t") and cq.endswith("::" + what)


def ring_of(n):
    o = call_object(n)
    return render(o, False) if o is not None else "?"


def run(ctx):
    R = ctx.R
    prog = ctx.program(UNITS)
    R.explanation = (
        "Decides conformance of every handle / mode-object function to the reference-ring ownership protocol on all CFG paths: the handle's mode "
        "pointer is written only by the release-write-register bracket, to NULL after a delete, or to NULL while the dying object drains its ring; "
        "mode objects are deleted only at the enumerated sites under their guards; destructors drain rings and deregister from the parent; "
        "freeResources covers every ring. Under conformance 'exactly once' reduces to ring_t itself. Does not decide ring_t's list surgery.")
    R.assumptions += ["gc::ring_t::addRef/removeRef/needsFree are correct (list surgery over runtime shapes is out of static reach)",
                      "calls do not reset a guarded handle pointer behind the caller's back (branch facts are killed by direct writes only)"]
    R.rule("C01-R1", "write of a handle's mode pointer follows the ring protocol (init NULL | release;write;register | NULL after delete | NULL while draining)", floor=34)
    R.rule("C01-R2", "mode-object destructor drains its wrapper ring: loop on ring.head, removeRef + null/delete, exit only with head == NULL", floor=7)
    R.rule("C01-R3", "delete of a mode object only at an enumerated site under its guard", floor=13)
    R.rule("C01-R4", "constructor registration with the parent object is undone by the destructor; freeResources frees every object ring", floor=8)
    R.rule("C01-R5", "handle copy-ctor / operator= / destructor go through setModeX / removeXRef; isInitialized tests the pointer", floor=18)
    R.rule("C01-R6", "ring list surgery: link updates of ringEntry_t::removeRef / ring_t::addRef / ring_t::removeRef / needsFree (as sets of assignments and guards)", floor=8)

    # ---- discover handle fields ------------------------------------------------
    hfield = {}
    for h in HANDLES:
        r = prog.record(h)
        fs = [f for f in r["fields"] if f["t"].startswith("occa::mode") and f["t"].endswith("*")]
        if len(fs) != 1:
            raise AnalysisBroken("handle %s: expected exactly one mode pointer field, found %s" % (h, [f["n"] for f in r["fields"]]))
        hfield[h] = (fs[0]["q"], fs[0]["t"].rstrip(" *"))
    modecls = set(MODE_BASES)
    for b in MODE_BASES:
        prog.record(b)
        modecls.update(prog.subclasses(b))
    R.analysed["handle_fields"] = {h: v[0] for h, v in hfield.items()}
    R.analysed["mode_classes"] = len(modecls)
    fld2h = {v[0]: h for h, v in hfield.items()}

    # summaries of mode-class forwarding methods: name -> 'add' / 'remove' when the body forwards param 0 to ring.addRef/removeRef
    fwd = {}
    for f in prog.funcs.values():
        if f.d.get("cls") in modecls and f.d["params"]:
            p0 = f.d["params"][0]["d"]
            for n in f.walk():
                if is_call(n):
                    for what in ("addRef", "removeRef"):
                        if is_ring_call(n, what):
                            a = call_args(n)
                            if a and strip(a[0])["k"] == "DeclRefExpr" and strip(a[0]).get("d") == p0:
                                fwd[f.q] = (what, ring_of(n))

    def through_alias(f, e):
        """a local that merely holds the value of an expression stands for that expression"""
        e = strip(e)
        hops = 0
        while e is not None and e["k"] == "DeclRefExpr" and e.get("loc") and hops < 3:
            ds = f.local_defs().get(e["d"], [])
            if len(ds) == 1 and ds[0]["k"] == "VarDecl" and kids(ds[0]):
                e = strip(kids(ds[0])[0])
                hops += 1
                continue
            break
        return e

    def this_call(f, n, names=None):
        """member call on implicit/explicit this"""
        if n["k"] != "CXXMemberCallExpr":
            return False
        o = call_object(n)
        return o is None or strip(o)["k"] == "CXXThisExpr"

    # release functions of each handle: methods that call M::removeXRef(this) on their own pointer on every path where it is non-null
    release = {}
    for h, (fq, mt) in hfield.items():
        for f in prog.methods_of(h):
            for n in f.walk():
                if n["k"] == "CXXMemberCallExpr" and fwd.get(callee(n), ("",))[0] == "removeRef":
                    o = call_object(n)
                    a = call_args(n)
                    o = through_alias(f, o) if o is not None else None
                    if o is not None and o["k"] == "MemberExpr" and o.get("n") == fq and a and strip(a[0])["k"] == "CXXThisExpr":
                        release[f.q] = h

    # ---- R1: writes -------------------------------------------------------------
    for f in prog.funcs.values():
        if f.d.get("tmpl") == "inst":
            continue
        for i in f.d.get("inits", ()):
            if i.get("field") in fld2h:
                ok = is_null_const(i["e"])
                R.ob("C01-R1", ok, f.q, "init:%s=%s" % (i["field"], render(i["e"], False)), "%s:%s" % (f.relfile, i["l"]),
                     "constructor initialises the pointer to NULL and registers through the setter" if ok else
                     "constructor stores a mode pointer directly: the handle is not entered in the object's ring", nontrivial=False)
        for n in f.walk():
            t = write_target(n)
            if t is None:
                continue
            t = strip(t)
            if t["k"] != "MemberExpr" or t.get("n") not in fld2h:
                continue
            h = fld2h[t["n"]]
            base = strip(kids(t)[0]) if kids(t) else None
            on_this = base is None or base["k"] == "CXXThisExpr"
            rhs = kids(n)[1] if n["k"] != "CXXOperatorCallExpr" else kids(n)[2]
            key = "write:%s = %s" % (render(t, False), render(rhs, False))
            cfg = f.cfg
            if is_null_const(rhs):
                if on_this and f.d.get("cls") == h:
                    dels = [d for d in f.walk() if d["k"] == "CXXDeleteExpr" and render(strip(kids(d)[0]), False) == render(t, False)]
                    ok = any(cfg.before(d, n) for d in dels)
                    R.ob("C01-R1", ok, f.q, key, f.site(n),
                         "NULL after delete of the same pointer" if ok else "pointer dropped without deleting or releasing the object: its ring still lists this handle")
                elif (not on_this) and f.d["kind"] == "dtor" and f.d.get("cls") in modecls and base is not None and base["k"] == "DeclRefExpr":
                    # entry taken from ring.head, removed from that ring before being nulled
                    defs = f.local_defs().get(base["d"], [])
                    from_head = any(dn["k"] == "VarDecl" and any(x["k"] == "MemberExpr" and x.get("n", "").endswith("::head") for x in walk(dn)) for dn in defs)
                    rem = [c for c in f.walk() if is_call(c) and is_ring_call(c, "removeRef") and call_args(c) and strip(call_args(c)[0]).get("d") == base["d"]]
                    ok = from_head and any(cfg.before(c, n) for c in rem)
                    R.ob("C01-R1", ok, f.q, key, f.site(n),
                         "wrapper taken from ring.head, removed from the ring, then nulled" if ok else "a handle is nulled without being taken from / removed from this object's ring")
                else:
                    R.ob("C01-R1", False, f.q, key, f.site(n), "NULL write to a handle's mode pointer outside the handle's own methods and outside a mode destructor")
                continue
            # non-null write
            if not (on_this and f.d.get("cls") == h):
                R.ob("C01-R1", False, f.q, key, f.site(n),
                     "mode pointer of another handle object is overwritten directly: neither ring is updated (the other handle now points at an object whose ring does not list it)")
                continue
            rel = [c for c in f.walk() if c["k"] == "CXXMemberCallExpr" and callee(c) in release and release[callee(c)] == h and this_call(f, c)]
            ok_rel = any(cfg.before(c, n) for c in rel)
            # the release must not run when the handle is (re)assigned its own object: releasing the sole handle frees the object
            # before it is registered again, so the release has to be guarded by  current != new
            newv = strip(rhs)
            if newv is not None and newv["k"] == "DeclRefExpr" and rel:
                INg = cfg.facts_in()
                for c in rel:
                    if not cfg.before(c, n):
                        continue
                    fs = cfg.facts_at(c, INg)
                    differs = False
                    for (k_, pol_) in fs:
                        a_ = cfg.fact_node((k_, pol_))
                        if a_["k"] == "BinaryOperator" and a_.get("op") == "==" and not pol_:
                            l_, r_ = strip(kids(a_)[0]), strip(kids(a_)[1])
                            for x_, y_ in ((l_, r_), (r_, l_)):
                                if x_["k"] == "MemberExpr" and x_.get("n") == hfield[h][0] and y_["k"] == "DeclRefExpr" and y_.get("d") == newv.get("d"):
                                    differs = True
                    R.ob("C01-R1", differs, f.q, "release guarded by current != new: %s" % render(c, False), f.site(c),
                         "the old object is released only when a different object is assigned" if differs else
                         "assigning a handle its own object releases it first: if it is the only handle the object is freed and then re-registered (use after free, double delete)")
            # after the write: every path to exit registers this handle, or the pointer is known NULL
            fq = hfield[h][0]
            def is_add(b, i, e, f=f, fq=fq):
                x = f.nodes.get(e) if isinstance(e, int) else None
                if x is None or x["k"] != "CXXMemberCallExpr" or fwd.get(callee(x), ("",))[0] != "addRef":
                    return False
                o = call_object(x)
                a = call_args(x)
                o = through_alias(f, o) if o is not None else None
                return o is not None and o["k"] == "MemberExpr" and o.get("n") == fq and bool(a) and strip(a[0])["k"] == "CXXThisExpr"
            IN = cfg.facts_in()
            path = None
            pos = cfg.position(n)
            ok_add = True
            # explore paths avoiding the register call; each exit reached this way must know the pointer is NULL
            seen = set()
            work = [(pos[0], pos[1] + 1, [pos[0]])]
            while work:
                b, i0, pth = work.pop()
                blk = cfg.blocks[b]
                hit = False
                for idx in range(i0, len(blk.elems)):
                    if is_add(b, idx, blk.elems[idx]):
                        hit = True
                        break
                if hit:
                    continue
                if b == cfg.exit:
                    continue
                for s in blk.succs:
                    if s is None:
                        continue
                    if s == cfg.exit or (cfg.blocks[s].succs == [cfg.exit] and not cfg.blocks[s].elems):
                        fs = cfg.facts_on_edge(b, s, IN)
                        nullknown = any((not pol) and cfg.fact_node((k, pol))["k"] == "MemberExpr" and cfg.fact_node((k, pol)).get("n") == fq for (k, pol) in fs)
                        if not nullknown:
                            ok_add = False
                            path = pth + [s]
                    elif s not in seen:
                        seen.add(s)
                        work.append((s, 0, pth + [s]))
            ok = ok_rel and ok_add
            why = []
            if not ok_rel:
                why.append("the old object is not released (no removeXRef() before the write)")
            if not ok_add:
                why.append("a path reaches the exit without registering this handle in the new object's ring")
            R.ob("C01-R1", ok, f.q, key, f.site(n), "release; write; register-if-non-null bracket" if ok else "; ".join(why), path=path)

    # ---- R2: destructors drain rings -------------------------------------------------
    for f in prog.funcs.values():
        if f.d["kind"] != "dtor" or f.d.get("cls") not in MODE_BASES:
            continue
        cls = f.d["cls"]
        rec = prog.record(cls)
        rings = [fl for fl in rec["fields"] if fl["t"].startswith("gc::ring_t<") or fl["t"].startswith("occa::gc::ring_t<")]
        # rings of wrappers (handles) or of slices that this object owns: those whose entry type is a handle or modeMemory_t
        for fl in rings:
            ent = fl["t"][fl["t"].index("<") + 1:-1].strip()
            ent_q = ent if ent.startswith("occa::") else "occa::" + ent
            if ent_q not in HANDLES and not (cls == "occa::modeBuffer_t" and ent_q == "occa::modeMemory_t"):
                continue
            cfg = f.cfg
            IN = cfg.facts_in()
            headname = "this->%s.head" % fl["n"]
            loops = [n for n in f.walk() if n["k"] in ("WhileStmt", "ForStmt", "DoStmt") and headname in render(kids(n)[0] if n["k"] != "ForStmt" else kids(n)[1], False)]
            ok = bool(loops)
            detail = "no loop on %s" % headname
            if ok:
                # exit only with head == NULL
                fs = IN.get(cfg.exit)
                ok = fs is not None and any((not pol) and k.endswith("%s.head" % fl["n"]) for (k, pol) in fs)
                detail = "the destructor returns only with %s == NULL" % headname if ok else "an exit of the destructor is reachable while the ring still lists wrappers (they would keep dangling pointers)"
                body_ok = False
                for lp in loops:
                    for c in walk(lp):
                        if is_call(c) and (is_ring_call(c, "removeRef") or fwd.get(callee(c), ("",))[0] == "removeRef"):
                            body_ok = True
                if not body_ok:
                    ok = False
                    detail = "drain loop does not remove the entry from the ring"
            R.ob("C01-R2", ok, f.q, "drain:%s" % fl["n"], "%s:%s" % (f.relfile, f.d["line"]), detail)

    # ---- R3: deletes -------------------------------------------------------------------
    seen_del = set()
    for f in prog.funcs.values():
        if f.d.get("tmpl") == "inst":
            continue
        for n in f.walk():
            if n["k"] != "CXXDeleteExpr":
                continue
            dt = f.tname(n.get("dt"))
            dq = dt if dt.startswith("occa::") else "occa::" + dt
            opnd = render(strip(kids(n)[0]), False)
            tk = (f.q, opnd)
            is_mode = dq in modecls or (tk in DELETE_TABLE)
            if not is_mode:
                continue
            key = "delete:%s" % opnd
            guard = DELETE_TABLE.get(tk)
            if guard is None:
                R.ob("C01-R3", False, f.q, key, f.site(n), "delete of a %s outside the enumerated owners (double-free candidate)" % dq)
                continue
            seen_del.add(tk)
            cfg = f.cfg
            if guard == "needsFree":
                fs = cfg.facts_at(n)
                ok = any(pol and k.startswith(opnd + "->") and k.endswith("needsFree()") for (k, pol) in fs)
                R.ob("C01-R3", ok, f.q, key, f.site(n), "guarded by %s->needsFree()" % opnd if ok else
                     "object deleted although other handles may still reference it (needsFree() guard on the same object missing)")
            elif guard == "nullafter":
                ws = [w for w in f.walk() if write_target(w) is not None and render(strip(write_target(w)), False) == opnd and is_null_const(kids(w)[1])]
                ok = any(cfg.after_all(n, w) for w in ws)
                how = "pointer nulled after the delete"
                if not ok:
                    # alternative: the destructor of the deleted object nulls every ring member, and this handle is a ring member (R1, R2)
                    h = f.d.get("cls")
                    mt = hfield.get(h, ("", ""))[1]
                    ok = any(o["rule"] == "C01-R2" and o["ok"] and o["function"].startswith(mt + "::~") for o in R.obl)
                    how = "the deleted object's destructor drains the ring this handle is registered in (R2)"
                R.ob("C01-R3", ok, f.q, key, f.site(n), how if ok else "handle keeps a dangling pointer after deleting its object")
            elif guard == "drain":
                o = strip(kids(n)[0])
                defs = f.local_defs().get(o.get("d"), []) if o["k"] == "DeclRefExpr" else []
                from_head = any(dn["k"] == "VarDecl" and any(x["k"] in ("MemberExpr", "CXXDependentScopeMemberExpr") and x.get("n", "").split("::")[-1] == "head" for x in walk(dn)) for dn in defs)
                rem = [c for c in f.walk() if is_call(c) and call_args(c) and strip(call_args(c)[0]).get("d") == o.get("d") and
                       (is_ring_call(c, "removeRef") or callee(c).endswith("removeModeMemoryRef") or (c["k"] == "CallExpr" and any(x.get("n") == "removeRef" for x in walk(kids(c)[0]))))]
                ok = from_head and any(cfg.before(c, n) for c in rem)
                R.ob("C01-R3", ok, f.q, key, f.site(n), "entry taken from ring.head and removed from the ring before it is deleted" if ok else
                     "deleted entry was not (taken from the ring head and) removed from the ring first")
            else:
                R.ob("C01-R3", True, f.q, key, f.site(n), "exclusive owner field", nontrivial=False)
    for tk in DELETE_TABLE:
        if tk in THOROUGH_ONLY and ctx.tier != "thorough":
            continue
        if tk not in seen_del:
            raise AnalysisBroken("C01-R3 anchor vanished: delete %s in %s" % (tk[1], tk[0]))

    # ---- R4: registration pairing ------------------------------------------------------
    for cls in MODE_BASES:
        ctors = [f for f in prog.methods_of(cls) if f.d["kind"] == "ctor"]
        dtors = [f for f in prog.methods_of(cls) if f.d["kind"] == "dtor"]
        for c in ctors:
            for n in c.walk():
                if n["k"] == "CXXMemberCallExpr" and fwd.get(callee(n), ("",))[0] == "addRef":
                    a = call_args(n)
                    if not (a and strip(a[0])["k"] == "CXXThisExpr"):
                        continue
                    base = render(call_object(n), False)
                    want = callee(n).replace("::add", "::remove")
                    ok = False
                    for d in dtors:
                        scope = [d] + [g for x in d.walk() if is_call(x) for g in prog.resolve_call(x, False) if g.d.get("cls") == cls]
                        for g in scope:
                            for x in g.walk():
                                if x["k"] == "CXXMemberCallExpr" and callee(x) == want and render(call_object(x), False) == base and call_args(x) and strip(call_args(x)[0])["k"] == "CXXThisExpr":
                                    ok = True
                    R.ob("C01-R4", ok, c.q, "pair:%s->%s" % (callee(n).split("::")[-1], want.split("::")[-1]), c.site(n),
                         "destructor deregisters from the same parent" if ok else "constructor registers with the parent but the destructor never deregisters (parent ring keeps a dangling entry)")
    md = prog.record("occa::modeDevice_t")
    fr = prog.fn("occa::modeDevice_t::freeResources")
    freed = set()
    for n in fr.walk():
        if is_call(n) and callee(n).startswith("occa::modeDevice_t::freeRing"):
            for x in walk(n):
                if x["k"] == "MemberExpr" and x.get("fcls") == "occa::modeDevice_t":
                    freed.add(x["n"].split("::")[-1])
    for fl in md["fields"]:
        if "ring_t<" in fl["t"]:
            ent = fl["t"][fl["t"].index("<") + 1:-1].strip()
            ent_q = ent if ent.startswith("occa::") else "occa::" + ent
            if ent_q in HANDLES:
                continue
            ok = fl["n"] in freed
            R.ob("C01-R4", ok, fr.q, "frees:%s" % fl["n"], "%s:%s" % (fr.relfile, fr.d["line"]),
                 "ring of %s is freed by freeResources" % ent if ok else "objects registered in %s are leaked when the device is freed" % fl["n"])
    df = prog.fn("occa::device::free")
    frc = [n for n in df.walk() if is_call(n) and callee(n) == "occa::modeDevice_t::freeResources"]
    dl = [n for n in df.walk() if n["k"] == "CXXDeleteExpr"]
    ok = bool(frc) and bool(dl) and all(df.cfg.before(frc[0], d) for d in dl)
    R.ob("C01-R4", ok, df.q, "order:freeResources before delete", df.relfile + ":%d" % df.d["line"], "device::free releases the device's objects before deleting it")

    # ---- R5: handle special members ------------------------------------------------------
    for h, (fq, mt) in hfield.items():
        rec = prog.record(h)
        setters = {f.q for f in prog.methods_of(h) for n in f.walk()
                   if write_target(n) is not None and strip(write_target(n)).get("n") == fq and not is_null_const(kids(n)[1]) and f.d["kind"] == "method"}
        R.ob("C01-R5", rec["userCopyCtor"] and rec["userCopyAssign"] and rec["userDtor"], h, "special-members:user-defined", rec["file"].replace("/repo/", "") + ":%d" % rec["line"],
             "copy constructor, copy assignment and destructor are user-provided (an implicit one would copy the pointer without touching the ring)", nontrivial=False)
        for f in prog.methods_of(h):
            if f.d.get("copyctor") or f.d.get("copyassign"):
                p0 = f.d["params"][0]["d"]
                ok = False
                for n in f.walk():
                    if n["k"] == "CXXMemberCallExpr" and callee(n) in setters:
                        a = call_args(n)
                        if a:
                            x = strip(a[0])
                            if x["k"] == "MemberExpr" and x.get("n") == fq and strip(kids(x)[0]).get("d") == p0:
                                ok = True
                # delegating through *this = other or through the ctor taking the pointer is equally fine
                if not ok:
                    for n in f.walk():
                        if is_call(n) and (prog.resolve_call(n, False) and any(g.d.get("copyassign") or g.d.get("copyctor") for g in prog.resolve_call(n, False))) and any(x.get("d") == p0 for x in walk(n)):
                            ok = True
                R.ob("C01-R5", ok, f.q, "copy:via-setter", "%s:%d" % (f.relfile, f.d["line"]),
                     "copies by %s(other.%s)" % ("/".join(s.split("::")[-1] for s in setters), fq.split("::")[-1]) if ok else "copy does not go through the registering setter")
            if f.d["kind"] == "dtor":
                ok = any(n["k"] == "CXXMemberCallExpr" and callee(n) in release for n in f.walk())
                R.ob("C01-R5", ok, f.q, "dtor:releases", "%s:%d" % (f.relfile, f.d["line"]), "destructor leaves the ring through %s" % "/".join(k.split("::")[-1] for k, v in release.items() if v == h))
        ii = [f for f in prog.methods_of(h) if f.q.endswith("::isInitialized")]
        for f in ii:
            rets = [n for n in f.walk() if n["k"] == "ReturnStmt"]
            ok = bool(rets) and all(any(x["k"] == "MemberExpr" and x.get("n") == fq for x in walk(r)) for r in rets)
            R.ob("C01-R5", ok, f.q, "isInitialized:tests-pointer", "%s:%d" % (f.relfile, f.d["line"]), "isInitialized() is a function of the mode pointer")

    # ---- R6: the ring itself (shape of the list surgery; order of independent assignments is free) ---------------------
    def rr(f, e, depth=0):
        """render with single-definition locals replaced by their initialiser (local names do not matter)"""
        e = strip(e)
        if e is None:
            return "?"
        if e["k"] == "DeclRefExpr" and e.get("loc") and depth < 3 and e["d"] not in f.param_ids():
            ds = f.local_defs().get(e["d"], [])
            if len(ds) == 1 and ds[0]["k"] == "VarDecl" and kids(ds[0]):
                return rr(f, kids(ds[0])[0], depth + 1)
        if e["k"] == "MemberExpr" and kids(e):
            return "%s%s%s" % (rr(f, kids(e)[0], depth), "->" if e.get("arrow") else ".", e.get("n", "?").split("::")[-1])
        return render(e, False)

    def leaves(f, e):
        e = strip(e)
        if e["k"] == "ConditionalOperator":
            return leaves(f, kids(e)[1]) | leaves(f, kids(e)[2])
        if e["k"] == "BinaryOperator" and e.get("op") == "=":
            return leaves(f, kids(e)[1])
        return {rr(f, e)}

    def assigns(f):
        out = set()
        for n in f.walk():
            t = write_target(n)
            if t is not None and n.get("op") == "=":
                for v in leaves(f, kids(n)[1]):
                    out.add((rr(f, t), v))
        return out
    er = prog.fn("occa::gc::ringEntry_t::removeRef")
    a = assigns(er)
    want = {("this->leftRingEntry->rightRingEntry", "this->rightRingEntry"), ("this->rightRingEntry->leftRingEntry", "this->leftRingEntry"),
            ("this->leftRingEntry", "this"), ("this->rightRingEntry", "this")}
    R.ob("C01-R6", want <= a, er.q, "unlink: neighbours bridged, entry self-looped", "%s:%d" % (er.relfile, er.d["line"]),
         "left.right = right; right.left = left; left = right = this" if want <= a else "the entry is not unlinked correctly: %s" % sorted(want - a))
    ctor = prog.fn("occa::gc::ringEntry_t::ringEntry_t")
    inits = {(i.get("fname"), render(i["e"], False)) for i in ctor.d.get("inits", ())}
    R.ob("C01-R6", {("leftRingEntry", "this"), ("rightRingEntry", "this")} <= inits, ctor.q, "new entry is a self-loop", "%s:%d" % (ctor.relfile, ctor.d["line"]), "both links start at this")
    ring = {}
    for f in prog.funcs.values():
        if f.d.get("tmpl") == "pattern" and f.q.startswith("occa::gc::ring_t::"):
            ring.setdefault(f.q.split("::")[-1], []).append(f)
    if not {"addRef", "removeRef", "needsFree"} <= set(ring):
        raise AnalysisBroken("gc::ring_t member patterns not found")
    ad = ring["addRef"][0]
    a = assigns(ad)
    want = {("entry->leftRingEntry", "this->head->leftRingEntry"), ("this->head->leftRingEntry->rightRingEntry", "entry"), ("this->head->leftRingEntry", "entry"),
            ("entry->rightRingEntry", "this->head"), ("this->head", "entry")}
    R.ob("C01-R6", want <= a, ad.q, "insert before head: four links + first-entry case", "%s:%d" % (ad.relfile, ad.d["line"]),
         "entry.left = tail; tail.right = entry; head.left = entry; entry.right = head; empty ring: head = entry" if want <= a else "insertion links differ: missing %s" % sorted(want - a))
    # the old tail must be read before head->left is overwritten
    rd = [n for n in ad.walk() if n["k"] == "VarDecl" and kids(n) and rr(ad, kids(n)[0]) == "this->head->leftRingEntry"]
    wr = [n for n in ad.walk() if write_target(n) is not None and rr(ad, write_target(n)) == "this->head->leftRingEntry"]
    R.ob("C01-R6", bool(rd) and bool(wr) and all(ad.cfg.before(rd[0], w) for w in wr), ad.q, "old tail read before head->left is overwritten", ad.site(rd[0]) if rd else ad.relfile, "tail taken from the head's left link first")
    unl = [c for c in ad.walk() if c["k"] == "CallExpr" and "entry->removeRef" in render(kids(c)[0], False)]
    relink = [n for n in ad.walk() if write_target(n) is not None and render(strip(write_target(n)), False) in ("entry->leftRingEntry", "this->head")]
    ok = len(unl) == 1 and all(ad.cfg.before(unl[0], n) for n in relink)
    R.ob("C01-R6", ok, ad.q, "entry leaves its previous ring before joining", ad.site(unl[0]) if unl else ad.relfile, "entry->removeRef() precedes every relink")
    conds = [render(kids(n)[0], False) for n in ad.walk() if n["k"] == "IfStmt"]
    ok = any("(!entry)" in c and "this->head == entry" in c for c in conds) and any(c == "(!this->head)" for c in conds)
    R.ob("C01-R6", ok, ad.q, "guards: null entry / already head / empty ring", "%s:%d" % (ad.relfile, ad.d["line"]), "conditions %s" % conds)
    # every handle that names the object is in its ring (free() and the destructors reset the handles by walking it): addRef may decline
    # to link only a null entry or the entry that already is the head - in particular not depending on useRefs (dontUseRefs() stops counting, not tracking)
    def disjuncts(e):
        e = strip(e)
        if e["k"] == "BinaryOperator" and e.get("op") == "||":
            return disjuncts(kids(e)[0]) + disjuncts(kids(e)[1])
        return [e]
    link_ws = [n for n in ad.walk() if write_target(n) is not None and render(strip(write_target(n)), False) == "this->head"]
    for ifs in [n for n in ad.walk() if n["k"] == "IfStmt" and not n.get("mac") and any(x["k"] == "ReturnStmt" for x in walk(kids(n)[1]))
                and not any(write_target(x) is not None for x in walk(kids(n)[1]))]:     # a return that links nothing
        atoms = [render(a_, False).replace(" ", "") for a_ in disjuncts(kids(ifs)[0])]
        allowed = {"(!entry)", "!entry", "(entry==NULL)", "(entry==nullptr)", "(this->head==entry)", "this->head==entry", "(entry==this->head)", "entry==this->head"}
        extra = [a_ for a_ in atoms if a_ not in allowed]
        R.ob("C01-R6", not extra, ad.q, "early exit of addRef only for a null entry or the current head", ad.site(ifs),
             "declines: %s" % atoms if not extra else
             "addRef also declines to link the handle when %s: a handle copied / assigned in that state is not in the ring, free() through another handle leaves it dangling (isInitialized() stays true, its destructor touches the destroyed object)" % ", ".join(extra))
    for rm in ring["removeRef"]:
        a = assigns(rm)
        hw = {v for (t_, v) in a if t_ == "this->head"}
        ok = hw == {"this->head->leftRingEntry", "NULL"}
        R.ob("C01-R6", ok, rm.q + " " + rm.d["sig"], "head moves to the old tail, or NULL when the ring empties", "%s:%d" % (rm.relfile, rm.d["line"]), "head becomes the old tail or NULL" if ok else "head update is %s" % sorted(hw))
        # NULL exactly when the removed entry was the only one (tail == entry)
        nullw = [n for n in rm.walk() if n["k"] == "ConditionalOperator" and "NULL" in leaves(rm, n)] + [n for n in rm.walk() if write_target(n) is not None and rr(rm, write_target(n)) == "this->head" and leaves(rm, kids(n)[1]) == {"NULL"}]
        okn = False
        for n in nullw:
            if n["k"] == "ConditionalOperator":
                c_ = rr(rm, kids(n)[0]) if False else render(kids(n)[0], False)
                cond = strip(kids(n)[0])
                okn = cond["k"] == "BinaryOperator" and cond.get("op") in ("!=", "==") and {rr(rm, kids(cond)[0]), rr(rm, kids(cond)[1])} == {"this->head->leftRingEntry", "entry"} and \
                    ((cond["op"] == "!=" and leaves(rm, kids(n)[2]) == {"NULL"}) or (cond["op"] == "==" and leaves(rm, kids(n)[1]) == {"NULL"}))
            else:
                fsn = {(noid(k), pol) for (k, pol) in rm.cfg.facts_at(n)}
                okn = any(("tail == entry" in k and pol) for (k, pol) in fsn)
        R.ob("C01-R6", okn, rm.q + " " + rm.d["sig"], "head = NULL exactly when the old tail is the removed entry", "%s:%d" % (rm.relfile, rm.d["line"]), "the ring empties only when its single entry is removed")
        unl = [c for c in rm.walk() if c["k"] == "CallExpr" and "entry->removeRef" in render(kids(c)[0], False)]
        tl = [n for n in rm.walk() if n["k"] == "VarDecl" and kids(n) and rr(rm, kids(n)[0]) == "this->head->leftRingEntry"]
        hd = [n for n in rm.walk() if write_target(n) is not None and render(strip(write_target(n)), False) == "this->head"]
        ok = len(unl) == 1 and len(tl) == 1 and rm.cfg.before(tl[0], unl[0]) and all(rm.cfg.before(unl[0], n) for n in hd)
        R.ob("C01-R6", ok, rm.q + " " + rm.d["sig"], "tail read before unlinking, head fixed after", "%s:%d" % (rm.relfile, rm.d["line"]), "tail = head->left; entry->removeRef(); then head")
        fs = {k for (k, pol) in rm.cfg.facts_at(hd[0]) if pol} if hd else set()
        R.ob("C01-R6", any("this->head == entry" in k for k in fs), rm.q + " " + rm.d["sig"], "head changes only when the removed entry was the head", rm.site(hd[0]) if hd else rm.relfile, "guarded by head == entry")
    nf = ring["needsFree"][0]
    rets = [r for r in nf.walk() if r["k"] == "ReturnStmt"]
    atoms_ = set()
    def cj(e):
        e = strip(e)
        if e["k"] == "BinaryOperator" and e.get("op") == "&&":
            cj(kids(e)[0]); cj(kids(e)[1])
        else:
            atoms_.add(render(e, False).replace(" ", ""))
    if len(rets) == 1:
        cj(kids(rets[0])[0])
    ok = len(rets) == 1 and "this->useRefs" in atoms_ and (atoms_ & {"(this->head==NULL)", "(!this->head)", "(NULL==this->head)"}) and len(atoms_) == 2
    R.ob("C01-R6", ok, nf.q, "needsFree = useRefs && head == NULL", "%s:%d" % (nf.relfile, nf.d["line"]), "an object is freed only when no handle references it and reference counting is on")


META = {
    "technique": "who-may-write / who-may-delete tables over resolved field and delete events, with dominance, post-dominance and branch-fact (guard) queries on each function's CFG",
    "level": "Static all-paths conformance of every handle and mode-object function (6 handle classes, 7 mode classes and their Serial subclasses) to the reference-ring "
             "ownership protocol: the only writers of a handle's mode pointer are NULL initialisation, the release-write-register bracket, NULL after delete and NULL while the "
             "dying object drains its ring; mode objects are deleted only at 15 enumerated sites under needsFree / drain / owner guards; destructors exit only with an empty "
             "ring; registration with the parent is paired; freeResources covers every ring. A handle history (copies, swaps, frees, destructions) cannot break 'exactly once' "
             "without one function violating this protocol, and every function is checked on every path - tests only sample histories. The ring surgery itself (link updates and guards of addRef / removeRef / needsFree, "
             "addRef declining only a null entry or the current head) is decided by C01-R6.",
    "note": "Decides protocol conformance and the list surgery of gc::ring_t as sets of assignments and guards, not accounted memory (C05). Branch facts are killed by direct writes only. "
            "Other backends' mode subclasses are compiled out in the pinned configuration.",
}
