"""C28 - the trie returns the longest stored prefix, frozen or not (structural clauses).

 R1  the flattened arrays are never stale: every structural mutation of the node tree happens after defrost() and is followed by freeze() under autoFreeze
 R2  contradiction rule: every result trieNode::get builds for the current node carries the same length expression (the node's depth)
 R3  size(): values.size() when frozen, root.size() otherwise; remove() erases one value and shifts larger indices in both representations
 R4  the frozen form is built in map (sorted) order, which the binary search relies on; the unfrozen and frozen lookups are selected by isFrozen only
"""
from vlib.facts import noid, kids, strip, walk, is_call, call_args, call_object, callee, render, literal
from vlib.cfg import write_target
from vlib.work import AnalysisBroken

import os
from vlib.work import VERIF
UNITS = ["src/occa/internal/utils/trie.cpp", os.path.join(VERIF, "witness", "trie_inst.cc")]
T = "occa::trie<int>::"


def inst(prog, name, nparams=None, sig=None):
    """one instantiation of trie<TM>::name (all instantiations share the pattern's body)"""
    fs = [f for f in prog.funcs.values() if f.q == T + name and f.d.get("tmpl") == "inst" and (nparams is None or len(f.d["params"]) == nparams) and (sig is None or sig in f.d["sig"])]
    if not fs:
        raise AnalysisBroken("no instantiation of trie<TM>::%s found" % name)
    fs.sort(key=lambda f: f.key)
    return fs[0]


def run(ctx):
    R = ctx.R
    prog = ctx.program(UNITS, thorough_all=False)
    R.explanation = ("Decides that the node tree is only mutated in the defrosted state and re-frozen under autoFreeze, that trieNode::get reports one consistent length for the current node, that size/remove treat both "
                     "representations alike, and that the frozen arrays are laid out in sorted order for the binary search. Does not decide equality of the two lookup algorithms in general.")
    R.rule("C28-R1", "tree mutation is dominated by defrost() and followed by freeze() under autoFreeze", floor=4)
    R.rule("C28-R2", "trieNode::get: one length expression for results naming the current node", floor=2)
    R.rule("C28-R3", "size() and remove() consistent across representations", floor=5)
    R.rule("C28-R6", "frozen lookup: the match length is recorded together with the value it belongs to", floor=2)
    R.rule("C28-R5", "remove prunes a node only when it holds no value and has no children", floor=4)
    R.rule("C28-R4", "frozen layout in sorted map order; lookup selected by isFrozen", floor=4)

    # ---- R1 --------------------------------------------------------------------------
    MUT = {"occa::trieNode::add", "occa::trieNode::remove"}
    for name, npar, sig in (("add", 2, "const char *"), ("remove", 2, "const char *"), ("clear", 0, None)):
        f = inst(prog, name, npar, sig)
        cfg = f.cfg
        IN = cfg.facts_in()
        muts = [c for c in f.walk() if (c["k"] == "CXXMemberCallExpr" and callee(c) in MUT and "this->root" in render(call_object(c), False)) or
                (c["k"] == "CXXMemberCallExpr" and callee(c).endswith("::clear") and "this->root.leaves" in render(call_object(c), False))]
        defrosts = [c for c in f.walk() if c["k"] == "CXXMemberCallExpr" and callee(c) == T + "defrost"]
        freezes = [c for c in f.walk() if c["k"] == "CXXMemberCallExpr" and callee(c) == T + "freeze"]
        for m in muts:
            before = any(cfg.before(d, m) for d in defrosts)
            after_defrost = cfg.find_path(cfg.position(m), "exit", lambda b, i, e: any(e == d["i"] for d in defrosts + freezes)) is None
            ok = before or after_defrost
            R.ob("C28-R1", ok, "occa::trie<TM>::%s" % name, "mutate:%s in defrosted state" % render(m, False)[:50], f.site(m),
                 "the flattened arrays are dropped before (or rebuilt after) the tree changes" if ok else "the tree is changed while the frozen arrays stay in use: frozen lookups answer from stale arrays")
            if name != "clear":
                # under autoFreeze the trie is frozen again before returning
                def frz(b, i, e):
                    return any(e == x["i"] for x in freezes)
                p = cfg.find_feasible_path(cfg.position(m), "exit", frz)
                okf = p is None
                if not okf:
                    # acceptable only if the path took the autoFreeze == false edge
                    okf = any((not pol) and k.endswith("autoFreeze") for (k, pol) in cfg.path_edge_facts(p))
                R.ob("C28-R1", okf, "occa::trie<TM>::%s" % name, "refreeze under autoFreeze", f.site(m), "after the mutation the trie is frozen again unless autoFreeze is off")
        if not muts:
            raise AnalysisBroken("trie::%s: mutation of root not found" % name)
    # who else mutates root?
    for f in prog.funcs.values():
        if f.d.get("tmpl") != "inst" or not f.q.startswith(T):
            continue
        nm = f.q.split("::")[-1]
        if nm in ("add", "remove", "clear", "operator=", "trie", "trie<int>"):
            continue
        bad = [c for c in f.walk() if c["k"] == "CXXMemberCallExpr" and callee(c) in MUT and "root" in render(call_object(c), False)]
        if bad:
            R.ob("C28-R1", False, f.q, "mutate:outside add/remove/clear", f.site(bad[0]), "the node tree is mutated by a function that does not manage the frozen state")

    # ---- R2 --------------------------------------------------------------------------
    g = [f for f in prog.fns("occa::trieNode::get") if len(f.d["params"]) == 3]
    if len(g) != 1:
        raise AnalysisBroken("trieNode::get(c, cIndex, length) vanished")
    g = g[0]
    cons = [n for n in g.walk() if n["k"] in ("CXXConstructExpr", "CXXTemporaryObjectExpr") and callee(n) == "occa::trieNode::result_t::result_t" and len(kids(n)) == 3
            and any(x["k"] == "CXXThisExpr" for x in walk(kids(n)[0]))]
    lens = sorted({render(strip(kids(n)[1]), False) for n in cons})
    if len(cons) < 1:
        raise AnalysisBroken("trieNode::get: result constructions for `this` not found")
    # the longest stored prefix: when the walk goes on below a node that holds a value and finds nothing there, that node is the answer
    recs = [c for c in g.walk() if c["k"] == "CXXMemberCallExpr" and callee(c) == "occa::trieNode::get" and len(call_args(c)) == 3]
    if not recs:
        raise AnalysisBroken("trieNode::get: recursive descent not found")
    for rc in recs:
        direct = [r for r in g.walk() if r["k"] == "ReturnStmt" and any(x["i"] == rc["i"] for x in walk(r))]
        holder = [v for v in g.walk() if v["k"] == "VarDecl" and kids(v) and any(x["i"] == rc["i"] for x in walk(v))]
        fallback = False
        if holder and not direct:
            hv = holder[0]["d"]
            for ifs in [n for n in g.walk() if n["k"] == "IfStmt"]:
                ctext = render(kids(ifs)[0], False)
                tests = any(x["k"] == "DeclRefExpr" and x.get("d") == hv for x in walk(kids(ifs)[0])) and ("success" in ctext or "valueIndex" in ctext)
                uses_this = any(x["k"] == "CXXThisExpr" for x in walk(kids(ifs)[1]))
                fallback = fallback or (tests and uses_this)
        R.ob("C28-R2", fallback, g.q, "fallback:a failed deeper lookup falls back on this node's value", g.site(rc),
             "the deeper result is tested and replaced by this node when it failed" if fallback else
             "the result of the deeper lookup is returned as it is: a query that walks past a stored key and ends at a node without a value (\"ab\" with keys \"a\", \"abb\") is answered not-found by the unfrozen trie and \"a\" by the frozen one")
    for n in cons:
        ok = len(lens) == 1
        R.ob("C28-R2", ok, g.q, "result(this, %s, valueIndex)" % render(strip(kids(n)[1]), False), g.site(n),
             "every result naming this node carries the node's depth" if ok else
             "the same node is reported with different key lengths %s: the unfrozen lookup reports a prefix one character longer than the stored key" % lens)
    # ---- R3 --------------------------------------------------------------------------
    sz = inst(prog, "size", 0)
    cfg = sz.cfg
    IN = cfg.facts_in()
    rets = [n for n in sz.walk() if n["k"] == "ReturnStmt"]
    seen = set()
    for r in rets:
        fs = cfg.facts_at(r, IN)
        txt = render(kids(r)[0], False)
        frozen = any(pol and k.endswith("isFrozen") for (k, pol) in fs)
        if frozen:
            ok = "this->values.size()" in txt
            seen.add("frozen")
        else:
            ok = "this->root.size()" in txt
            seen.add("unfrozen")
        R.ob("C28-R3", ok, "occa::trie<TM>::size", "size:%s" % ("frozen -> values.size()" if frozen else "unfrozen -> root.size()"), sz.site(r), "returns %s" % txt)
    R.ob("C28-R3", seen == {"frozen", "unfrozen"}, "occa::trie<TM>::size", "size:both representations", "%s:%d" % (sz.relfile, sz.d["line"]), "both cases present")
    rm = inst(prog, "remove", 2, "const char *")
    pops = [c for c in rm.walk() if c["k"] == "CXXMemberCallExpr" and callee(c).endswith("::pop_back") and "this->values" in render(call_object(c), False)]
    R.ob("C28-R3", len(pops) == 1, "occa::trie<TM>::remove", "values: exactly one element removed", rm.site(pops[0]) if pops else rm.relfile, "%d pop_back" % len(pops))
    shifts = [n for n in rm.walk() if write_target(n) is not None and n.get("op") == "=" and "this->values[(i - 1)]" in render(write_target(n), False).replace("i#%d" % 0, "i") and "this->values[i]" in render(n, False)]
    R.ob("C28-R3", len(shifts) == 1, "occa::trie<TM>::remove", "values: larger indices shifted down", rm.site(shifts[0]) if shifts else rm.relfile, "values above the removed index move down by one")
    nr = [f for f in prog.fns("occa::trieNode::remove") if len(f.d["params"]) == 3][0]
    calls = [callee(c).split("::")[-1] for c in nr.walk() if c["k"] == "CXXMemberCallExpr"]
    ok = "nestedRemove" in calls and "decrementIndex" in calls and calls.index("nestedRemove") < calls.index("decrementIndex")
    R.ob("C28-R3", ok, nr.q, "nodes: remove then decrement larger indices", "%s:%d" % (nr.relfile, nr.d["line"]), "node indices above the removed one are decremented, matching the shift of `values`")
    di = prog.fn("occa::trieNode::decrementIndex")
    ok = any(n["k"] == "UnaryOperator" and n.get("op") == "--" for n in di.walk()) and any(n["k"] == "BinaryOperator" and n.get("op") == ">" and "valueIndex" in render(n, False) for n in di.walk()) \
        and any(c["k"] == "CXXMemberCallExpr" and callee(c) == "occa::trieNode::decrementIndex" for c in di.walk())
    R.ob("C28-R3", ok, di.q, "nodes: recursive decrement of indices > removed", "%s:%d" % (di.relfile, di.d["line"]), "recursive over all leaves, strictly-greater test")
    # ---- R5: pruning --------------------------------------------------------------------------------------------------------------
    nre = prog.fn("occa::trieNode::nestedRemove")
    ncfg = nre.cfg
    NIN = ncfg.facts_in()

    def conjuncts(e):
        e = strip(e)
        while e["k"] == "ParenExpr":
            e = strip(kids(e)[0])
        if e["k"] == "BinaryOperator" and e.get("op") == "&&":
            return conjuncts(kids(e)[0]) + conjuncts(kids(e)[1])
        t = noid(render(e, False)).replace(" ", "")
        while t.startswith("(") and t.endswith(")") and _balanced(t[1:-1]):
            t = t[1:-1]
        return [t]

    def _balanced(t):
        d = 0
        for ch in t:
            d += ch == "("
            d -= ch == ")"
            if d < 0:
                return False
        return d == 0
    n_ret = 0
    for r in nre.walk():
        if r["k"] != "ReturnStmt":
            continue
        n_ret += 1
        if literal(kids(r)[0]) is False:
            R.ob("C28-R5", True, nre.q, "prunable:false", nre.site(r), "reports 'keep this node'", nontrivial=False)
            continue
        cj = conjuncts(kids(r)[0])
        novalue = any(c in ("this->valueIndex<0", "this->valueIndex==-1", "this->valueIndex==(-1)") for c in cj)
        nochild = any(c in ("!this->leaves.size()", "this->leaves.empty()", "this->leaves.size()==0") for c in cj)
        ok = novalue and nochild
        R.ob("C28-R5", ok, nre.q, "prunable: no value and no children", nre.site(r),
             "a node is reported prunable only if valueIndex < 0 and it has no leaves" if ok else
             "a node is reported prunable under %s only: the parent erases it although %s - add(\"a\"); add(\"ab\"); remove(\"ab\") loses \"a\""
             % (cj, "it still stores a key's value" if not novalue else "it still has children"))
    erases = [c for c in nre.walk() if c["k"] == "CXXMemberCallExpr" and callee(c).endswith("::erase") and "this->leaves" in noid(render(call_object(c), False))]
    rec = {v["d"] for v in nre.walk() if v["k"] == "VarDecl" and any(is_call(x) and callee(x) == nre.q for x in walk(v))}
    for c in erases:
        fs = ncfg.facts_at(c, NIN)
        by_callee = any(pol and noid(k).replace(" ", "").split("(")[0].endswith(".nestedRemove") for (k, pol) in fs)
        clears = [n for n in nre.walk() if write_target(n) is not None and noid(render(strip(write_target(n)), False)).endswith(".valueIndex") and literal(kids(n)[1]) == -1 or
                  (write_target(n) is not None and noid(render(strip(write_target(n)), False)).endswith(".valueIndex") and "-1" in noid(render(kids(n)[1], False)))]
        local = any((not pol) and noid(k).endswith(".leaves.size()") for (k, pol) in fs) or any(pol and noid(k).endswith(".leaves.empty()") for (k, pol) in fs)
        local = local and any(ncfg.before(w, c) for w in clears)
        ok = by_callee or local
        R.ob("C28-R5", ok, nre.q, "erase child: %s" % ("the child said it is prunable" if by_callee else "value just cleared and no grandchildren" if local else "unguarded"), nre.site(c),
             "child erased only when empty" if ok else "a child node is erased without knowing that it holds no value and has no children")
    if n_ret < 2 or len(erases) < 2:
        raise AnalysisBroken("nestedRemove: %d returns / %d erases (expected >= 2 each)" % (n_ret, len(erases)))
    # ---- R6: the walk may run on through prefixes of longer keys after the last stored key; the length must be the one at that key ------
    glf = inst(prog, "getLongest", 2)
    gcfg = glf.cfg
    ctors = [n for n in glf.walk() if n["k"] in ("CXXConstructExpr", "CXXTemporaryObjectExpr") and callee(n).endswith("result_t::result_t") and len(kids(n)) == 3 and
             kids(n)[2]["k"] != "CXXDefaultArgExpr" and kids(n)[1]["k"] != "CXXDefaultArgExpr"]
    if not ctors:
        raise AnalysisBroken("trie::getLongest: successful result construction not found")
    for n in ctors:
        ln, vi = strip(kids(n)[1]), strip(kids(n)[2])
        both_vars = ln["k"] == "DeclRefExpr" and ln.get("loc") and vi["k"] == "DeclRefExpr" and vi.get("loc")
        ok = bool(both_vars)
        detail = "length and value index are returned from the two variables recorded at the last stored key"
        if both_vars:
            defs = glf.local_defs()
            vw = [d for d in defs.get(vi["d"], []) if d["k"] != "VarDecl"]
            lw = [d for d in defs.get(ln["d"], []) if d["k"] != "VarDecl"]
            for w in vw:
                bw = gcfg.position(w)
                if not any(gcfg.position(x) and gcfg.position(x)[0] == bw[0] for x in lw):
                    ok = False
                    detail = "the value index is updated without the length next to it"
            if not vw or not lw:
                ok = False
                detail = "length / value index are never recorded during the walk"
        else:
            detail = ("the returned length is `%s`, not a length recorded together with the value: after the last stored key the walk continues through prefixes of longer keys "
                      "(`..` towards `...`), so the shorter key is returned with the longer length and the tokenizer skips characters (`a..b` -> `a . b`)" % noid(render(ln, False)))
        R.ob("C28-R6", ok, "occa::trie<TM>::getLongest", "result(this, %s, %s)" % (noid(render(ln, False))[:30], noid(render(vi, False))[:30]), glf.site(n), detail)
    R.ob("C28-R6", True, "occa::trie<TM>::getLongest", "%d successful result construction(s) analysed" % len(ctors), "%s:%d" % (glf.relfile, glf.d["line"]), "", nontrivial=False)

    # ---- R4 --------------------------------------------------------------------------
    td = prog.typedefs.get("occa::trieNodeMap_t")
    ok = td is not None and td["ct"].startswith("std::map<char, occa::trieNode")
    R.ob("C28-R4", ok, "occa::trieNodeMap_t", "leaves: std::map<char, trieNode> (sorted)", "src/occa/internal/utils/trie.hpp", "leaf map is %s" % (td["ct"][:50] if td else "?"), nontrivial=False)
    fz = inst(prog, "freeze", 2)
    ws = [render(strip(write_target(n)), False) for n in fz.walk() if write_target(n) is not None and "[offset]" in render(strip(write_target(n)), False)]
    ok = sorted(ws) == ["this->chars[offset]", "this->leafCount[offset]", "this->offsets[offset]", "this->valueIndices[offset]"]
    R.ob("C28-R4", ok, "occa::trie<TM>::freeze", "freeze: all four arrays written per leaf", "%s:%d" % (fz.relfile, fz.d["line"]), "writes %s" % sorted(ws))
    it = [n for n in fz.walk() if n["k"] == "VarDecl" and "leaves.begin()" in render(n, False)]
    R.ob("C28-R4", bool(it), "occa::trie<TM>::freeze", "freeze: iterates the leaf map in order", "%s:%d" % (fz.relfile, fz.d["line"]), "children laid out by iterating the sorted map from begin()")
    gl = inst(prog, "getLongest", 2)
    cfg = gl.cfg
    IN = cfg.facts_in()
    tg = [c for c in gl.walk() if c["k"] == "CXXMemberCallExpr" and callee(c) == T + "trieGetLongest"]
    ok = len(tg) == 1 and any((not pol) and k.endswith("isFrozen") for (k, pol) in cfg.facts_at(tg[0], IN))
    R.ob("C28-R4", ok, "occa::trie<TM>::getLongest", "dispatch: unfrozen lookup iff !isFrozen", gl.site(tg[0]) if tg else gl.relfile, "tree lookup is used exactly when the arrays are not valid")
    arr = [n for n in gl.walk() if n["k"] == "ArraySubscriptExpr" and "this->chars" in render(n, False)]
    ok = bool(arr) and all(any(pol and k.endswith("isFrozen") for (k, pol) in cfg.facts_at(n, IN)) or not tg or cfg.find_path((cfg.entry, -1), lambda b, i, e: e == n["i"], lambda b, i, e: False) is not None for n in arr)
    # array reads happen only after the !isFrozen early return
    early = [r for r in gl.walk() if r["k"] == "ReturnStmt" and any(x is tg[0] for x in walk(r))] if tg else []
    ok = bool(arr) and bool(early)
    R.ob("C28-R4", ok, "occa::trie<TM>::getLongest", "arrays read only when frozen", gl.site(arr[0]) if arr else gl.relfile, "the unfrozen case returns before the flattened arrays are read")


META = {
    "technique": "typestate-style ordering checks (defrost before mutation, freeze after) on the CFGs of one instantiation of trie<TM>; contradiction rule over result constructions; representation-consistency facts; conjunct analysis of the prunable predicate and guard dominance on every child erase",
    "level": "Static decision that the node tree is mutated only with the flattened arrays dropped and is re-frozen under autoFreeze on every path, that trieNode::get never reports two different lengths for the same node "
             "(the defect behind frozen/unfrozen disagreement), that size() and remove() keep the value vector and both index spaces consistent, and that the frozen layout is produced in sorted order and read only when valid.",
    "note": "Does not decide that the binary-search lookup and the tree lookup compute the same function for all tries (that is a relational proof over data shapes). The empty key is not covered.",
}
