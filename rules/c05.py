"""C05 - device memory accounting returns to zero and tracks live allocations (structural clauses).

 R1  who-may-write bytesAllocated / maxBytesAllocated
 R2  every increment is followed on all paths by the high-water-mark update
 R3  increment and decrement conditions agree: allocations counted by device::malloc are never marked wrapped,
     wrapped memory is never counted, the decrement is conditional on !isWrapped only
 R4  pool: each backing-buffer allocation is counted with the same amount and the replaced buffer is deleted
"""
from vlib.facts import noid, kids, strip, walk, is_call, call_args, call_object, callee, render, literal
from vlib.cfg import write_target
from vlib.work import AnalysisBroken

UNITS = ["src/core/device.cpp", "src/occa/internal/core/buffer.cpp", "src/occa/internal/core/memoryPool.cpp",
         "src/occa/internal/modes/serial/device.cpp", "src/occa/internal/modes/serial/buffer.cpp",
         "src/occa/internal/core/device.cpp", "src/occa/internal/modes/serial/memoryPool.cpp", "src/core/memoryPool.cpp", "src/core/memory.cpp"]
BA = "occa::modeDevice_t::bytesAllocated"
MX = "occa::modeDevice_t::maxBytesAllocated"
WRITERS = {
    ("occa::device::malloc", "+="): "user allocation",
    ("occa::modeMemoryPool_t::resize", "+="): "pool backing buffer (re)allocation",
    ("occa::modeMemoryPool_t::setAlignment", "+="): "pool backing buffer reallocation",
    ("occa::modeBuffer_t::~modeBuffer_t", "-="): "release of a non-wrapped buffer",
}


def run(ctx):
    R = ctx.R
    prog = ctx.program(UNITS)
    R.explanation = ("Decides who may change the device's allocation counters and under which conditions: increments only at allocation sites, each followed by the high-water update; the only decrement is in "
                     "~modeBuffer_t under !isWrapped; what is counted on allocation can never be a wrapped buffer and wrapped memory is never counted; pool buffers are counted with the amount allocated. "
                     "Does not decide the arithmetic identity over histories.")
    R.rule("C05-R1", "who-may-write the allocation counters", floor=8)
    R.rule("C05-R5", "nothing that can raise stands between a backing allocation and its accounting (a freed buffer is discounted whether or not it was counted)", floor=3)
    R.rule("C05-R2", "increment followed on all paths by maxBytesAllocated = max(maxBytesAllocated, bytesAllocated)", floor=4)
    R.rule("C05-R3", "counted allocations are never wrapped; wrapped memory is never counted; decrement only under !isWrapped", floor=5)
    R.rule("C05-R4", "pool: buffer->malloc(n) paired with bytesAllocated += n; old buffer deleted", floor=6)

    incs = []
    for f in prog.funcs.values():
        if f.d.get("tmpl") == "inst":
            continue
        for i in f.d.get("inits", ()):
            if i.get("field") in (BA, MX):
                ok = literal(i["e"]) == 0
                R.ob("C05-R1", ok, f.q, "init:%s=%s" % (i["fname"], render(i["e"], False)), "%s:%s" % (f.relfile, i["l"]), "counter starts at zero", nontrivial=False)
        for n in f.walk():
            t = write_target(n)
            if t is None:
                continue
            t = strip(t)
            if t["k"] != "MemberExpr" or t.get("n") not in (BA, MX):
                continue
            op = n.get("op")
            if t["n"] == BA:
                ok = (f.q, op) in WRITERS
                R.ob("C05-R1", ok, f.q, "write:bytesAllocated %s %s" % (op, render(kids(n)[1], False)), f.site(n),
                     WRITERS.get((f.q, op), "") if ok else "the allocation counter is changed outside the enumerated allocation/release sites")
                if op == "+=":
                    incs.append((f, n))
            else:
                # high-water mark: only  max = std::max(max, bytesAllocated)
                rhs = strip(kids(n)[1])
                ok = op == "=" and is_call(rhs) and callee(rhs) == "std::max" and {x.get("n") for a in call_args(rhs) for x in [strip(a)] if x["k"] == "MemberExpr"} == {BA, MX}
                R.ob("C05-R1", ok, f.q, "write:maxBytesAllocated %s %s" % (op, render(rhs, False)), f.site(n),
                     "high-water mark update" if ok else "maxBytesAllocated is written by something other than max(maxBytesAllocated, bytesAllocated)")
    # ---- R2 --------------------------------------------------------------------------
    for f, n in incs:
        cfg = f.cfg
        def is_max(b, i, e, f=f):
            x = f.nodes.get(e) if isinstance(e, int) else None
            if x is None:
                return False
            t = write_target(x)
            return t is not None and strip(t).get("n") == MX
        p = cfg.find_path(cfg.position(n), "exit", is_max)
        R.ob("C05-R2", p is None, f.q, "hwm-after:%s" % render(n, False), f.site(n),
             "every path from the increment to the exit updates the high-water mark" if p is None else "a path leaves the function after the increment without updating maxBytesAllocated", path=p)
    # ---- R5 --------------------------------------------------------------------------
    memo = {}
    def may_raise(g, depth=2):
        k = (g.key, depth)
        if k in memo:
            return memo[k]
        memo[k] = False
        r = None
        for c in g.walk():
            if not is_call(c):
                continue
            if callee(c) == "occa::error":
                r = "OCCA_ERROR in %s" % g.q.split("::")[-1]
                break
            if depth > 0:
                for t in prog.resolve_call(c) or []:
                    if t.key != g.key:
                        sub = may_raise(t, depth - 1)
                        if sub:
                            r = sub
                            break
                if r:
                    break
        memo[k] = r
        return r
    for f, n in incs:
        allocs = [c for c in f.walk() if c["k"] == "CXXMemberCallExpr" and callee(c).split("::")[-1] == "malloc" and f.cfg.before(c, n)]
        if not allocs:
            continue
        a = allocs[-1]
        between = [c for c in f.walk() if is_call(c) and c["i"] != a["i"] and f.cfg.before(a, c) and f.cfg.before(c, n) and not any(x["i"] == c["i"] for x in walk(n)) and not any(x["i"] == a["i"] for x in walk(c))]
        why = None
        for c in between:
            if callee(c) == "occa::error":
                why = (c, "OCCA_ERROR")
                break
            for t in prog.resolve_call(c) or []:
                sub = may_raise(t)
                if sub:
                    why = (c, "%s (%s)" % (callee(c).split("::")[-1], sub))
                    break
            if why:
                break
        R.ob("C05-R5", why is None, f.q, "alloc->count:%s then %s" % (noid(render(a, False))[:50], noid(render(n, False))[:50]), f.site(why[0]) if why else f.site(n),
             "no raising call in between" if why is None else
             "%s can raise after the buffer exists and before it is counted: the exception frees the buffer, ~modeBuffer_t discounts bytes that were never added and memoryAllocated() wraps below zero "
             "(device.malloc(n, unregisteredDtype))" % why[1])
    # ---- R3 --------------------------------------------------------------------------
    bd = prog.fn("occa::modeBuffer_t::~modeBuffer_t")
    decs = [n for n in bd.walk() if write_target(n) is not None and strip(write_target(n)).get("n") == BA]
    for n in decs:
        fs = bd.cfg.facts_at(n)
        nw = any((not pol) and k.endswith("isWrapped") for (k, pol) in fs)
        amount = render(kids(n)[1], False)
        R.ob("C05-R3", nw and amount == "this->size", bd.q, "dec:under !isWrapped by size", bd.site(n),
             "decrement by this->size under !isWrapped" if nw and amount == "this->size" else "decrement condition/amount changed (facts: %s, amount %s)" % (sorted(k for k, p in fs), amount))
    # counted allocation must not be wrapped
    for f in prog.overriders("occa::modeDevice_t::malloc"):
        cfg = f.cfg
        wr = [c for c in f.walk() if c["k"] == "CXXMemberCallExpr" and callee(c).endswith("::wrapMemory")]
        sets = [c for c in f.walk() if write_target(c) is not None and strip(write_target(c)).get("n", "").endswith("::isWrapped") and literal(kids(c)[1]) is True]
        for c in wr:
            obj = render(call_object(c))
            def resets(b, i, e, f=f, obj=obj):
                x = f.nodes.get(e) if isinstance(e, int) else None
                if x is None:
                    return False
                t = write_target(x)
                if t is None:
                    return False
                t = strip(t)
                return t["k"] == "MemberExpr" and t.get("n", "").endswith("::isWrapped") and render(kids(t)[0]) == obj and literal(kids(x)[1]) is False
            p = cfg.find_path(cfg.position(c), "exit", resets)
            R.ob("C05-R3", p is None, f.q, "counted-not-wrapped:%s" % render(c, False), f.site(c),
                 "the buffer is not left marked wrapped" if p is None else
                 "device::malloc counts this allocation, but the buffer is marked wrapped, so ~modeBuffer_t never discounts it (memoryAllocated() does not return to 0; an owned host pointer is never freed)", path=p)
        R.ob("C05-R3", not sets, f.q, "counted-not-wrapped:no direct isWrapped=true", "%s:%d" % (f.relfile, f.d["line"]), "malloc override never sets isWrapped = true directly")
    dm = [f for f in prog.fns("occa::device::malloc") if "const void *" in f.d["sig"] and "dtype_t" in f.d["sig"]]
    if len(dm) != 1:
        raise AnalysisBroken("device::malloc(entries, dtype, const void*, props) vanished")
    dm = dm[0]
    inc = [n for f_, n in incs if f_ is dm]
    mc = [c for c in dm.walk() if c["k"] == "CXXMemberCallExpr" and callee(c) == "occa::modeDevice_t::malloc"]
    ok = len(inc) == 1 and len(mc) == 1 and render(strip(kids(inc[0])[1])) == render(strip(call_args(mc[0])[0]))
    R.ob("C05-R3", ok, dm.q, "inc:amount == bytes passed to the backend", dm.site(inc[0]) if inc else dm.relfile, "the counted amount is the amount allocated")
    for f in prog.fns("occa::device::wrapMemory") + prog.overriders("occa::modeDevice_t::wrapMemory"):
        bad = [n for n in f.walk() if write_target(n) is not None and strip(write_target(n)).get("n") == BA]
        R.ob("C05-R3", not bad, "%s %s" % (f.q, f.d["sig"]), "wrap:not counted", "%s:%d" % (f.relfile, f.d["line"]), "wrapped memory does not touch the counter")
    for f in prog.overriders("occa::modeDevice_t::wrapMemory"):
        if f.q == "occa::modeDevice_t::wrapMemory":
            continue
        ok = any(c["k"] == "CXXMemberCallExpr" and callee(c).endswith("buffer::wrapMemory") for c in f.walk())
        R.ob("C05-R3", ok, f.q, "wrap:marks buffer wrapped", "%s:%d" % (f.relfile, f.d["line"]), "wrapMemory goes through buffer::wrapMemory (which marks the buffer wrapped, so it is never discounted)")
    bw = prog.fn("occa::serial::buffer::wrapMemory")
    ok = any(write_target(n) is not None and strip(write_target(n)).get("n", "").endswith("::isWrapped") and literal(kids(n)[1]) is True for n in bw.walk())
    R.ob("C05-R3", ok, bw.q, "wrap:isWrapped = true", "%s:%d" % (bw.relfile, bw.d["line"]), "buffer::wrapMemory marks the buffer as wrapped")

    # ---- R4 --------------------------------------------------------------------------
    for q in ("occa::modeMemoryPool_t::resize", "occa::modeMemoryPool_t::setAlignment"):
        f = prog.fn(q)
        cfg = f.cfg
        mallocs = [c for c in f.walk() if c["k"] == "CXXMemberCallExpr" and callee(c).endswith("modeBuffer_t::malloc")]
        myincs = [n for f_, n in incs if f_ is f]
        for c in mallocs:
            amt = render(strip(call_args(c)[0]))
            match = [n for n in myincs if render(strip(kids(n)[1])) == amt and cfg.before(c, n)]
            # and no path from the malloc to exit avoiding the increment
            ok = bool(match)
            if ok:
                p = cfg.find_path(cfg.position(c), "exit", lambda b, i, e: e == match[0]["i"])
                ok = p is None
            R.ob("C05-R4", ok, q, "pool-alloc:%s counted" % render(c, False), f.site(c), "backing buffer allocation of %s is counted with the same amount" % amt.split("#")[0] if ok else "a backing buffer allocation is not counted (or with another amount)")
        R.ob("C05-R4", len(mallocs) == len(myincs), q, "pool-alloc:one increment per allocation", "%s:%d" % (f.relfile, f.d["line"]), "%d allocations, %d increments" % (len(mallocs), len(myincs)))
        # the replaced buffer is deleted before the field is overwritten
        for n in f.walk():
            t = write_target(n)
            if t is not None and render(strip(t), False) == "this->buffer":
                rhs = strip(kids(n)[1])
                if is_call(rhs):
                    # buffer = makeBuffer(): preceded by  if (buffer) delete buffer
                    dels = [d for d in f.walk() if d["k"] == "CXXDeleteExpr" and render(strip(kids(d)[0]), False) == "this->buffer"]
                    ok = any(cfg.position(d) and cfg.position(n) and (cfg.position(d)[0] in cfg.dom.get(cfg.position(n)[0], ()) or cfg.find_path(cfg.position(d), lambda b, i, e: e == n["i"], lambda b, i, e: False)) for d in dels)
                else:
                    dels = [d for d in f.walk() if d["k"] == "CXXDeleteExpr" and render(strip(kids(d)[0]), False) == "this->buffer" and cfg.before(d, n)]
                    ok = bool(dels)
                R.ob("C05-R4", ok, q, "pool-replace:delete old buffer before %s" % render(n, False), f.site(n), "the replaced backing buffer is deleted (its destructor discounts it)" if ok else "the old backing buffer is dropped without being deleted: its bytes stay counted")


META = {
    "technique": "who-may-write over resolved field events of the two counters; must-pass-through on CFG paths (increment -> high-water update, wrapMemory -> un-wrap, malloc -> increment); guard dominance on the decrement; overrider resolution of modeDevice_t::malloc / wrapMemory",
    "level": "Static all-paths decision that the allocation counter changes only at four enumerated sites, that every increment is followed by the high-water update, that the only decrement is ~modeBuffer_t's under !isWrapped by the "
             "buffer's size, that no backend malloc override can return a buffer still marked wrapped while device::malloc counts it, that wrapMemory never counts, and that each pool buffer allocation is counted with the allocated "
             "amount and the replaced buffer deleted. These pair every counted byte with exactly one discount for every history; the tests only check a few totals.",
    "note": "Does not decide the arithmetic (sum of live sizes) itself; memory::detach (not in the property's history alphabet) is out of scope. GPU backends' overrides are compiled out in the pinned configuration.",
}
