"""C17 - every backend visits exactly the iterations of each OKL loop (structural clauses).

 R1  PAREN: in getIterationCount / makeDeclarationValue every user expression (init, bound, step, hardware index) enters an operator
     node's operand slot only parenthesised (or binding tighter, per the repository's own operator table)
 R2  launcher backends share the count/index mapping and only differ in an index spelling that depends injectively on the loop index;
     the launcher stores loop i's count under the same dimension index the device code reads
 R3  count and index->value map are built from the same validated header fields (sign of the step, step, init; inclusive adds one)
"""
from vlib.facts import kids, strip, walk, is_call, call_args, call_object, callee, render, literal, noid
from vlib.paren import Paren, ANY, CLEAN
from vlib.cfg import write_target
from vlib.work import AnalysisBroken
from vlib.exprterm import Builder, normal_form, show, NF, Poly, TermError, explore

UNITS = ["src/occa/internal/lang/modes/oklForStatement.cpp", "src/occa/internal/lang/modes/withLauncher.cpp", "src/occa/internal/lang/modes/cuda.cpp",
         "src/occa/internal/lang/modes/opencl.cpp", "src/occa/internal/lang/modes/metal.cpp", "src/occa/internal/lang/modes/dpcpp.cpp",
         "src/occa/internal/lang/modes/hip.cpp", "src/occa/internal/lang/modes/serial.cpp", "src/occa/internal/lang/operator.cpp",
         "src/occa/internal/lang/expr/exprNode.cpp", "src/occa/internal/lang/expr/exprOpNode.cpp", "src/occa/internal/lang/expr/expr.cpp"]
OF = "occa::lang::okl::oklForStatement::"
NS = "occa::lang::okl::"
LAUNCHERS = ["cudaParser", "hipParser", "openclParser", "metalParser", "dpcppParser"]


def okl_sources(f, e):
    if e["k"] == "MemberExpr":
        n = e.get("n", "")
        if n in (OF + "initValue", OF + "updateValue"):
            return ANY
        if n == OF + "checkValue":
            return frozenset(["OPERAND:checkOp"])
    if e["k"] == "DeclRefExpr" and e.get("n") == "magicIterator":
        return ANY
    return None


def run(ctx):
    R = ctx.R
    prog = ctx.program(UNITS, thorough_all=False)
    R.explanation = ("Decides the embedding discipline of the launch-size and index-mapping builders (an abstract interpretation over operator-top sets with the repository's precedence table), that all launcher backends share "
                     "those builders and differ only in an index spelling that is a function of the loop index, and that count and mapping read the same header fields. The closed forms of count and mapping are derived per header configuration and compared with the sequential loop's (C17-R5).")
    R.rule("C17-R1", "user expression embedded in a built operator node only parenthesised / tighter-binding", floor=14)
    R.rule("C17-R2", "launcher backends share count/mapping; hardware index spelling depends on the loop index; dims stored by matching index", floor=16)
    R.rule("C17-R3", "count and mapping use the same header fields", floor=5)
    R.rule("C17-R5", "closed form of the launch count and of the index mapping, per header configuration, equals the sequential loop's iteration count / k-th iterator value", floor=12)
    R.rule("C17-R6", "a negative (wrapped) launch dimension makes the launch a no-op: an empty run-time range runs the body zero times", floor=3)
    R.rule("C17-R7", "the expression DSL the count / mapping builders are written in builds what its operators say (a + b -> `+` node, parens -> wrapInParentheses)", floor=15)
    R.rule("C17-R4", "header facts are derived from the matching operator flags (inclusive, direction, side)", floor=6)

    for name in ("getIterationCount", "makeDeclarationValue"):
        f = prog.fn(OF + name)

        def rep(ok, node, key, detail, f=f):
            R.ob("C17-R1", ok, f.q, key, f.site(node), detail)
        n = Paren(prog, f, okl_sources, rep).run()
        if n < 4:
            raise AnalysisBroken("%s: only %d operand slots analysed" % (f.q, n))
    from vlib.exprterm import dsl_soundness
    dsl_soundness(prog, lambda ok, fn, key, site, detail: R.ob("C17-R7", ok, fn, key, site, detail))
    # sanitiser soundness (META-3): wrapInParentheses builds a parenthesesNode for every operator node
    base = prog.fn("occa::lang::exprNode::wrapInParentheses")
    opn = prog.fn("occa::lang::exprOpNode::wrapInParentheses")
    ok = any(n["k"] == "CXXNewExpr" and "parenthesesNode" in opn.tname(n.get("nt")) for n in opn.walk())
    R.ob("C17-R1", ok, opn.q, "sanitiser:operator nodes wrap into parenthesesNode", "%s:%d" % (opn.relfile, opn.d["line"]), "exprOpNode::wrapInParentheses creates a parenthesesNode")
    opkids = set(prog.subclasses("occa::lang::exprOpNode"))
    for cls in ("occa::lang::binaryOpNode", "occa::lang::ternaryOpNode", "occa::lang::leftUnaryOpNode", "occa::lang::rightUnaryOpNode"):
        R.ob("C17-R1", cls in opkids or bool(prog.fns(cls + "::wrapInParentheses")), cls, "sanitiser:inherits the wrapping override", "", "operator node classes derive from exprOpNode (or override wrapInParentheses)", nontrivial=False)

    # ---- R2 --------------------------------------------------------------------------
    wl = prog.record(NS + "withLauncher")
    for b in LAUNCHERS:
        cls = NS + b
        rec = prog.record(cls)
        ok = NS + "withLauncher" in prog.bases(cls)
        R.ob("C17-R2", ok, cls, "derives from withLauncher", "", "shares replaceOccaFor / setKernelLaunch / setDim")
        hides = [m["n"] for m in rec["methods"] if m["n"] in ("replaceOccaFor", "setKernelLaunch", "setDim", "getIterationCount", "makeDeclarationValue", "setOklLoopIndices")]
        R.ob("C17-R2", not hides, cls, "does not redeclare the shared mapping", "", "no member hides the shared builders" if not hides else "backend redeclares %s" % hides)
    for b in ("cudaParser", "openclParser", "metalParser", "dpcppParser"):
        for which in ("getOuterIterator", "getInnerIterator"):
            f = prog.fn(NS + b + "::" + which)
            p = f.d["params"][0]["d"]
            # every returned string data-depends on the parameter
            dep = {p}
            changed = True
            defs = f.local_defs()
            while changed:
                changed = False
                for d, ds in defs.items():
                    if d in dep:
                        continue
                    if any(any(x["k"] == "DeclRefExpr" and x.get("d") in dep for x in walk(dn)) for dn in ds):
                        dep.add(d)
                        changed = True
            rets = [n for n in f.walk() if n["k"] == "ReturnStmt"]
            ok = bool(rets) and all(any(x["k"] == "DeclRefExpr" and x.get("d") in dep for x in walk(r)) for r in rets)
            R.ob("C17-R2", ok, f.q, "hardware index spelling is a function of loopIndex", "%s:%d" % (f.relfile, f.d["line"]),
                 "distinct loop indices get distinct hardware indices" if ok else "the returned index name ignores the loop index: two loops map to the same hardware dimension")
            inj = any((n["k"] == "BinaryOperator" and n.get("op") == "+" and any(literal(x) == ord("x") for x in kids(n))) or
                      (is_call(n) and callee(n) in ("occa::toString", NS + "dpcppDimensionOrder")) for n in f.walk())
            R.ob("C17-R2", inj, f.q, "injective spelling ('x'+i / toString(i) / dpcppDimensionOrder(i))", "%s:%d" % (f.relfile, f.d["line"]), "index rendered through an injective map")
    ro = prog.fn(NS + "withLauncher::replaceOccaFor")
    li = [n for n in ro.walk() if n["k"] == "VarDecl" and n["n"] == "loopIndex"]
    ok = len(li) == 1 and "oklLoopIndex" in render(li[0], False)
    for c in ro.walk():
        if c["k"] == "CXXMemberCallExpr" and callee(c) in (NS + "withLauncher::getOuterIterator", NS + "withLauncher::getInnerIterator"):
            ok = ok and strip(call_args(c)[0]).get("d") == li[0]["d"]
            fs = {(noid(k), pol) for (k, pol) in ro.cfg.facts_at(c)}
            want = ("oklForSmnt.isOuterLoop()", callee(c).endswith("getOuterIterator"))
            ok = ok and want in fs
    R.ob("C17-R2", ok, ro.q, "outer loops -> outer iterator, inner -> inner, same loop index", "%s:%d" % (ro.relfile, ro.d["line"]), "iterator family selected by isOuterLoop(), indexed by oklLoopIndex()")
    mdv = [c for c in ro.walk() if c["k"] == "CXXMemberCallExpr" and callee(c) == OF + "makeDeclarationValue"]
    R.ob("C17-R2", len(mdv) == 1, ro.q, "iterator declared as makeDeclarationValue(hardware index)", ro.site(mdv[0]) if mdv else ro.relfile, "device-side value comes from the shared mapping")
    skl = prog.fn(NS + "withLauncher::setKernelLaunch")
    sd = [c for c in skl.walk() if c["k"] == "CXXMemberCallExpr" and callee(c) == NS + "withLauncher::setDim"]
    ok = len(sd) == 1 and any(is_call(x) and callee(x) == OF + "getIterationCount" for x in walk(call_args(sd[0])[3]))
    R.ob("C17-R2", ok, skl.q, "launch dim = getIterationCount() of the same loop", skl.site(sd[0]) if sd else skl.relfile, "host-side count comes from the shared builder")
    if sd:
        nm, ix = call_args(sd[0])[1], call_args(sd[0])[2]
        name_def = skl.local_defs().get(strip(nm).get("d"), [])
        idx_def = skl.local_defs().get(strip(ix).get("d"), [])
        okn = bool(name_def) and all("isOuter" in noid(render(d, False)) and '"outer"' in render(d, False) and '"inner"' in render(d, False) for d in name_def)
        R.ob("C17-R2", okn, skl.q, "dims: array name outer / inner selected by isOuter", skl.site(sd[0]), "outer loops size `outer`, inner loops `inner`")
        # the slot index must be the loop's OKL index - the one the device side uses to pick the hardware index - taken from the same loop object
        cnt_obj = [noid(render(call_object(x), False)) for x in walk(call_args(sd[0])[3]) if is_call(x) and callee(x) == OF + "getIterationCount"]
        idx_src = [x for d in idx_def for x in walk(d) if is_call(x) and callee(x) == OF + "oklLoopIndex"] if idx_def else \
                  [x for x in walk(ix) if is_call(x) and callee(x) == OF + "oklLoopIndex"]
        oki = bool(idx_src) and bool(cnt_obj) and all(noid(render(call_object(x), False)) == cnt_obj[0] for x in idx_src) and \
            (not idx_def or all(strip(kids(d)[0]) is not None and is_call(strip(kids(d)[0])) and callee(strip(kids(d)[0])) == OF + "oklLoopIndex" for d in idx_def if d["k"] == "VarDecl" and kids(d)))
        R.ob("C17-R2", oki, skl.q, "dims: slot index = oklLoopIndex() of the loop whose count is stored", skl.site(sd[0]),
             "same index source as the device side (explicit @outer(n) / @inner(n) honoured)" if oki else
             "the launch size is stored by position in the nest, the device side maps hardware indices by oklLoopIndex(): with explicit @outer(n)/@inner(n) the iterators run over each other's ranges")
    sdf = prog.fn(NS + "withLauncher::setDim")
    ok = any(n["k"] in ("CXXConstructExpr", "CXXNewExpr") and "op::assign" in noid(render(n, False)) for n in sdf.walk())
    R.ob("C17-R2", ok, sdf.q, "setDim: name[index] = value", "%s:%d" % (sdf.relfile, sdf.d["line"]), "assignment of the count into the dim array")

    # ---- R3 --------------------------------------------------------------------------
    gic = prog.fn(OF + "getIterationCount")
    mdvf = prog.fn(OF + "makeDeclarationValue")
    for fld in ("positiveUpdate", "updateValue", "initValue"):
        a = any(n["k"] == "MemberExpr" and n.get("n") == OF + fld for n in gic.walk())
        b = any(n["k"] == "MemberExpr" and n.get("n") == OF + fld for n in mdvf.walk())
        R.ob("C17-R3", a and b, OF + "getIterationCount/makeDeclarationValue", "both use %s" % fld, "%s:%d" % (gic.relfile, gic.d["line"]), "count and mapping are built from the same header field")
    cfg = gic.cfg
    IN = cfg.facts_in()
    adds = [n for n in gic.walk() if n["k"] in ("CXXConstructExpr", "CXXTemporaryObjectExpr") and callee(n).endswith("binaryOpNode::binaryOpNode") and "op::add" in noid(render(kids(n)[1], False)) and
            any(pol and noid(k) == "this->checkIsInclusive" for (k, pol) in cfg.facts_at(n, IN))]
    ok = len(adds) == 1 and any(x["k"] == "DeclRefExpr" and x.get("n") == "inc" for x in walk(adds[0]))
    incs = [n for n in gic.walk() if n["k"] == "VarDecl" and n["n"] == "inc"]
    ok = ok and len(incs) == 1 and any(literal(x) == 1 for x in walk(incs[0]))
    R.ob("C17-R3", ok, gic.q, "inclusive comparison adds exactly one", gic.site(adds[0]) if adds else gic.relfile, "<= / >= add 1 to the count, under checkIsInclusive only")
    g0 = [n for n in gic.walk() if n["k"] == "IfStmt" and "valid" in noid(render(kids(n)[0], False))]
    m0 = [n for n in mdvf.walk() if n["k"] == "IfStmt" and "valid" in noid(render(kids(n)[0], False))]
    R.ob("C17-R3", bool(g0) and bool(m0), OF + "*", "both refuse an invalid header", "%s:%d" % (gic.relfile, gic.d["line"]), "NULL for an unvalidated loop header")

    # ---- R5: closed forms ---------------------------------------------------------------------------------------------
    I, B, S, X = Poly.sym("init"), Poly.sym("bound"), Poly.sym("step"), Poly.sym("index")
    fields = {"initValue": "init", "checkValue": "bound", "updateValue": "step"}
    for pos in (True, False):
        for incl in (False, True):
            for stepped in (False, True):
                cfgd = {"this->valid": True, "this->positiveUpdate": pos, "this->checkIsInclusive": incl, "this->updateValue": stepped}
                tag = "%s %s %s" % ("ascending" if pos else "descending", "inclusive" if incl else "exclusive", "step" if stepped else "unit")
                n = (B - I) if pos else (I - B)
                want_count = NF.quot(n + (1 if incl else 0) + S - 1, S) if stepped else NF(n + (1 if incl else 0))
                want_map = NF(I + (S * X if stepped else X)) if pos else NF(I - (S * X if stepped else X))
                for f, want, what, params in ((gic, want_count, "count", {}), (mdvf, want_map, "value", {"magicIterator": "index"})):
                    try:
                        outcomes = explore(lambda f=f, params=params: Builder(prog, f, fields, cfgd, params), lambda b: b.result())
                        outcomes = [(ch, t, normal_form(t)) for (ch, t) in outcomes]
                    except TermError as e:
                        raise AnalysisBroken("%s [%s]: builder not reducible to a closed form: %s" % (f.q, tag, e))
                    for (ch, t, got) in outcomes:
                        ok = got == want
                        if not ok and ch and got.den is None and want.den is None:
                            # a branch taken under a condition on a header field (e.g. "the initial value is the constant 0"): equal if the
                            # difference vanishes once that field is zero
                            diff = got.out - want.out
                            for fld, sym in fields.items():
                                if any(fld in k and v for (k, v) in ch):
                                    z = Poly({mono: c_ for mono, c_ in diff.m.items() if sym not in mono})
                                    if z.is_zero():
                                        ok = True
                        extra = "" if not ch else " when " + " and ".join("%s%s" % ("" if v else "not ", k) for (k, v) in ch)
                        R.ob("C17-R5", ok, f.q, "%s[%s]%s" % (what, tag, extra[:60]), "%s:%d" % (f.relfile, f.d["line"]),
                             ("builds %s = %r" % (show(t), got)) if ok else
                             "builds %s = %r%s, but the sequential loop %s %r: they differ for some header values (a run-time empty or short range launches a wrong number of work items / maps an index to a value the loop never takes)"
                             % (show(t), got, extra, "runs" if what == "count" else "takes as its k-th value", want))
                # an invalid header yields no expression at all
    # the hardware index (unsigned 32-bit on CUDA / HIP / Metal) is converted to the iterator's type before it enters the arithmetic
    mp = mdvf.d["params"][0]["d"]
    uses = [n for n in mdvf.walk() if n["k"] == "DeclRefExpr" and n.get("d") == mp]
    conv = True
    for u in uses:
        anc = [a for a in mdvf.ancestors(u) if a["k"] in ("CXXConstructExpr", "CXXTemporaryObjectExpr") or a["k"] == "VarDecl"]
        cast = [a for a in anc if a["k"] != "VarDecl" and callee(a) == NS.replace("okl::", "") + "parenCastNode::parenCastNode"]
        okc = bool(cast) and "iterator" in noid(render(kids(cast[0])[1], False)) and "vartype" in noid(render(kids(cast[0])[1], False))
        conv = conv and okc
    R.ob("C17-R5", conv and bool(uses), mdvf.q, "hardware index converted to the iterator's type first", mdvf.site(uses[0]) if uses else mdvf.relfile,
         "every use of the index is the operand of a cast to iterator->vartype" if conv and uses else
         "the thread / block id enters the arithmetic as it is: with a 64-bit iterator `long i = -3 + blockIdx.x` is computed modulo 2^32 (block 0 gets 4294967293)")
    for f in (gic, mdvf):
        t = Builder(prog, f, fields, {"this->valid": False}, {"magicIterator": "index"}).result()
        R.ob("C17-R5", t == ("null",), f.q, "invalid header -> NULL", "%s:%d" % (f.relfile, f.d["line"]), "no count / mapping is produced for an unvalidated header", nontrivial=False)

    # ---- R4: how the validated header facts the builders rely on are derived -------------------------------------
    hc = prog.fn(OF + "hasValidCheck")
    ws = {noid(render(strip(write_target(n)), False)): n for n in hc.walk() if write_target(n) is not None}
    n_ = ws.get("this->checkIsInclusive")
    txt = noid(render(kids(n_)[1], False)) if n_ is not None else ""
    ok = n_ is not None and "lessThanEq" in txt and "greaterThanEq" in txt and "lessThan " not in txt.replace("lessThanEq", "") and "greaterThan " not in txt.replace("greaterThanEq", "") and "&" in txt
    R.ob("C17-R4", ok, hc.q, "checkIsInclusive = opType & (<= | >=)", hc.site(n_) if n_ is not None else hc.relfile, "inclusive exactly for <= and >=: %s" % txt[:90])
    n_ = ws.get("this->checkValueOnRight")
    ok = n_ is not None and noid(render(kids(n_)[1], False)).replace(" ", "") == "(checkOrder<0)"
    R.ob("C17-R4", ok, hc.q, "checkValueOnRight = (usesIterator(...) < 0)", hc.site(n_) if n_ is not None else hc.relfile, "bound on the right exactly when the iterator is the left operand")
    ui = [f for f in prog.fns(OF + "usesIterator") if len(f.d["params"]) == 2]
    if len(ui) != 1:
        raise AnalysisBroken("usesIterator(binaryOpNode&, exprNode*&) vanished")
    ui = ui[0]
    c = ui.cfg
    INu = c.facts_in()
    pairs = set()
    for r in (x for x in ui.walk() if x["k"] == "ReturnStmt"):
        v = strip(kids(r)[0])
        val = -int(strip(kids(v)[0])["v"]) if v["k"] == "UnaryOperator" and v.get("op") == "-" else (int(v["v"]) if v["k"] == "IntegerLiteral" else None)
        fs = {noid(k) for (k, pol) in c.facts_at(r, INu) if pol}
        side = "left" if any("opNode.leftValue" in k and "variable" in k for k in fs) and any("iterator" in k for k in fs) else ("right" if any("opNode.rightValue" in k and "variable" in k for k in fs) and any("iterator" in k for k in fs) else None)
        # which operand is handed out as the bound
        outw = [w for w in ui.walk() if write_target(w) is not None and noid(render(strip(write_target(w)), False)) == "value" and c.before(w, r)]
        given = noid(render(kids(outw[-1])[1], False)) if outw else None
        pairs.add((val, side, given))
    ok = (-1, "left", "opNode.rightValue") in pairs and (1, "right", "opNode.leftValue") in pairs and any(p_[0] == 0 for p_ in pairs)
    R.ob("C17-R4", ok, ui.q, "usesIterator: -1 / bound=right operand when the iterator is on the left, +1 / bound=left operand when on the right, 0 otherwise", "%s:%d" % (ui.relfile, ui.d["line"]), "returns %s" % sorted(pairs, key=str))
    hu = prog.fn(OF + "hasValidUpdate")
    c = hu.cfg
    INh = c.facts_in()
    pu = [n for n in hu.walk() if write_target(n) is not None and noid(render(strip(write_target(n)), False)) == "this->positiveUpdate"]
    want = {"leftUnary": "leftIncrement", "rightUnary": "rightIncrement", "binary": "addEq"}
    seen = {}
    for n in pu:
        rhs = noid(render(kids(n)[1], False))
        fs = {noid(k) for (k, pol) in c.facts_at(n, INh) if pol}
        neg = {noid(k) for (k, pol) in c.facts_at(n, INh) if not pol}
        branch = "leftUnary" if any("exprNodeType::leftUnary" in k and "==" in k for k in fs) else ("rightUnary" if any("exprNodeType::rightUnary" in k and "==" in k for k in fs) else "binary")
        seen[branch] = rhs
    for br, flag in want.items():
        ok = br in seen and flag in seen[br] and not any(o in seen[br] for o in ("Decrement", "subEq"))
        R.ob("C17-R4", ok, hu.q, "positiveUpdate in the %s branch = opType & %s" % (br, flag), "%s:%d" % (hu.relfile, hu.d["line"]), "direction taken from the increment flag of this operator kind: %s" % seen.get(br, "missing")[:80])
    vo = [n for n in hu.walk() if write_target(n) is not None and noid(render(strip(write_target(n)), False)) == "validOp"]
    txts = [noid(render(kids(n)[1], False)) for n in vo]
    ok = len(vo) == 3 and any("leftIncrement" in t and "leftDecrement" in t for t in txts) and any("rightIncrement" in t and "rightDecrement" in t for t in txts) and any("addEq" in t and "subEq" in t for t in txts)
    R.ob("C17-R4", ok, hu.q, "accepted update operators: ++ -- (prefix/postfix), += -=", "%s:%d" % (hu.relfile, hu.d["line"]), "each branch accepts exactly its increment and decrement forms")

    # ---- R6: the count of an empty range is negative (R5); it is stored into an unsigned dim --------------------------------------------
    kp = ctx.program(["src/occa/internal/core/kernel.cpp", "src/types/dim.cpp"], thorough_all=False)
    noop = kp.fn("occa::modeKernel_t::isNoop")
    txt = noid(render(noop.d["body"], False)).replace(" ", "")
    for dimv in ("outerDims", "innerDims"):
        ok = "this->%s.hasNegativeEntries()" % dimv in txt and "this->%s.isZero()" % dimv in txt
        R.ob("C17-R6", ok, noop.q, "%s: zero or negative entries -> no launch" % dimv, "%s:%d" % (noop.relfile, noop.d["line"]),
             "isNoop() covers empty and negative counts" if ok else
             "a negative iteration count (run-time empty loop) stored in the unsigned dim is launched as ~2^64 work groups")
    hn = [f for f in kp.fns("occa::dim::hasNegativeBitSet")]
    if not hn:
        raise AnalysisBroken("dim::hasNegativeBitSet not found")
    f0 = hn[0]
    shifts = [n for n in f0.walk() if n["k"] == "BinaryOperator" and n.get("op") in ("<<", ">>")]
    ok = False
    for sh in shifts:
        amt = noid(render(kids(sh)[1], False)).replace(" ", "")
        if "sizeof" in amt and ("8*" in amt or "*8" in amt or "CHAR_BIT" in amt) and "-1" in amt:
            ok = True
    R.ob("C17-R6", ok, f0.q, "tests the sign bit (8 * sizeof(T) - 1)", "%s:%d" % (f0.relfile, f0.d["line"]),
         "bit 8*sizeof(T)-1" if ok else "the bit tested is not the sign bit (sizeof(T) - 1 is bit 7 for a 64-bit entry): negative counts are not recognised")


META = {
    "technique": "PAREN: abstract interpretation over operator-top sets of the expression builders, with binding strengths read from the repository's operator table and sanitiser soundness re-checked; TERM: abstract execution of the two builders per header configuration (direction x inclusive x stepped) to the term they return, brought to the unique normal form numerator/denominator + outside and compared with the sequential loop's closed form; class-hierarchy / data-dependence facts for the backend index spellings; field-use agreement",
    "level": "Static decision that the launch-size builder and the index->value builder embed every user-supplied expression (initial value, bound, step, hardware index) parenthesised or under a looser operator, for every operator a user "
             "expression may have at its top; that CUDA, HIP, OpenCL, Metal and DPC++ all use these shared builders and differ only in an index spelling that is an injective function of the loop index, stored/read under the same "
             "dimension; that count and mapping read the same validated header fields; and that for each of the 8 header configurations the launch count is exactly (larger - smaller [+1] [+ step - 1]) [/ step] and the k-th value is init +/- [step *] k - "
             "as polynomial identities, hence for all run-time values including those that make the range empty. Backends other than Serial/OpenMP cannot even be executed in this sandbox.",
    "note": "Does not decide how the launcher treats a count <= 0 at run time (device back ends cannot run here), overflow of the count arithmetic, or the Serial/OpenMP paths (they keep the loop verbatim).",
}
