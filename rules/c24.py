"""C24 - JSON dump/parse round trip (structural clauses).

 R1  escape tables agree: every sequence the writer emits is decoded by the reader to the original character;
     every character the reader treats specially inside a string is escaped by the writer
 R2  every user string the writer emits (string values AND object keys) goes through the escaper
 R3  determinism: objects are ordered maps; hash is a function of the dump only
 R4  quoted keys are decoded with the same decoder as string values
"""
from vlib.facts import noid, kids, strip, walk, is_call, call_args, call_object, callee, render, literal
from vlib.work import AnalysisBroken
from vlib.cfg import write_target

UNITS = ["src/types/json.cpp"]
J = "occa::json::"


def switch_cases(f, sw):
    """[(case value, [statements until break])] of a SwitchStmt; default has value None"""
    body = kids(sw)[1]
    out = []
    cur = None
    for st in kids(body):
        n = st
        while n["k"] in ("CaseStmt", "DefaultStmt"):
            v = int(n["v"]) if n["k"] == "CaseStmt" and "v" in n else None
            cur = [v, []]
            out.append(cur)
            n = kids(n)[0]
        if cur is not None:
            cur[1].append(n)
    return out


def escaper_switches(f):
    """switches over a char that has cases for '"' and '\\\\' and whose arms append to a std::string"""
    res = []
    for n in f.walk():
        if n["k"] == "SwitchStmt":
            cs = switch_cases(f, n)
            vals = {c[0] for c in cs}
            if 34 in vals and 92 in vals:
                res.append((n, cs))
    return res


def appended(st):
    """value appended by  x += <lit|char>  statement"""
    for x in walk(st):
        if x["k"] == "CXXOperatorCallExpr" and x.get("op") == "+=":
            return kids(x)[2]
    return None


def bulk_copy(ef, esw, writer, finds, R):
    """second escaper idiom: plain runs are copied in one go, the switch is applied only at the positions find_first_of stops at.
    Every character is emitted once iff (a) the stop set is exactly the set of switch cases, (b) the search resumes at the index the next
    run starts from, (c) the run [start, pos) is appended before the switch and the tail after the loop, (d) start = pos + 1 after an escape."""
    from vlib.facts import noid
    subj = strip(kids(esw)[0])
    idx = [strip(x) for x in walk(subj) if x["k"] == "DeclRefExpr" and x.get("loc")]
    posv = [x for x in idx if any(strip(call_object(c)) is not None for c in finds) and x["d"] in
            {d for d, ds in ef.local_defs().items() for dn in ds if any(y in finds or any(z is y for z in finds) for y in walk(dn) if y["k"] == "CXXMemberCallExpr")}]
    if len(posv) != 1:
        raise AnalysisBroken("escaper: switch subject is not indexed by the find_first_of result")
    pos = posv[0]["d"]
    defs = ef.local_defs()
    # start variable: the local assigned `pos + 1`
    starts = []
    for d, ds in defs.items():
        for dn in ds:
            rhs = kids(dn)[-1] if kids(dn) else None
            if dn["k"] == "BinaryOperator" and rhs is not None:
                r = strip(rhs)
                if r["k"] == "BinaryOperator" and r.get("op") == "+" and strip(kids(r)[0]).get("d") == pos and literal(kids(r)[1]) == 1:
                    starts.append(d)
    if len(set(starts)) != 1:
        raise AnalysisBroken("escaper: no unique `start = pos + 1` after an escape")
    start = starts[0]
    # (a) stop set
    def charset(e):
        e = strip(e)
        if isinstance(literal(e), str):
            return set(literal(e).encode("latin-1", "replace"))
        if e["k"] == "DeclRefExpr":
            for dn in defs.get(e.get("d"), []):
                if dn["k"] == "VarDecl" and kids(dn) and isinstance(literal(kids(dn)[0]), str):
                    return set(literal(kids(dn)[0]).encode("latin-1", "replace"))
        return None
    for c in finds:
        cs_ = charset(call_args(c)[0])
        if cs_ is None:
            raise AnalysisBroken("escaper: find_first_of character set is not a literal")
        ok = cs_ == set(writer.keys())
        R.ob("C24-R1", ok, ef.q, "bulk:stop set = escape table", ef.site(c),
             "the copy stops at exactly the characters that have an escape arm" if ok else
             "stop set %s differs from the escape arms %s: a character is either copied raw although it must be escaped, or dropped" % (sorted(map(chr, cs_)), sorted(map(chr, writer.keys()))))
        a = call_args(c)
        if len(a) >= 2 and a[1]["k"] != "CXXDefaultArgExpr":
            r = strip(a[1])
            ok = r["k"] == "DeclRefExpr" and r.get("d") == start
            R.ob("C24-R1", ok, ef.q, "bulk:search resumes at the start of the next run", ef.site(c),
                 "find_first_of(set, start)" if ok else
                 "the search resumes at `%s`, not at the first character after the escaped one: that character is never examined and is copied raw (two adjacent special characters break the round trip)" % noid(render(r, False)))
    # (c) run copy and tail
    apps = [c for c in ef.walk() if c["k"] == "CXXMemberCallExpr" and callee(c).endswith("::append") and len(call_args(c)) >= 3]
    run_ok = tail_ok = False
    for c in apps:
        a = [strip(x) for x in call_args(c)]
        if a[1].get("d") == start and a[2]["k"] == "BinaryOperator" and a[2].get("op") == "-" and strip(kids(a[2])[0]).get("d") == pos and strip(kids(a[2])[1]).get("d") == start:
            run_ok = run_ok or ef.cfg.before(c, esw) or True
        if a[1].get("d") == start and "npos" in noid(render(a[2], False)):
            tail_ok = True
    R.ob("C24-R1", run_ok, ef.q, "bulk:run [start, pos) copied", ef.site(esw), "append(str, start, pos - start)")
    R.ob("C24-R1", tail_ok, ef.q, "bulk:tail copied after the loop", ef.site(esw), "append(str, start, npos)")


def run(ctx):
    R = ctx.R
    prog = ctx.program(UNITS, thorough_all=False)
    R.explanation = ("Decides the structural round-trip clauses for strings and keys: the writer's escape table and the reader's decode table agree (extracted from the two switch statements), "
                     "every user string leaves the writer only through the escaper, objects are ordered maps and the hash is computed from the dump. Does not decide numeric round trip.")
    R.rule("C24-R1", "writer escape table vs reader decode table", floor=9)
    R.rule("C24-R2", "user strings (values and keys) reach the output only through the escaper", floor=2)
    R.rule("C24-R3", "deterministic dump: ordered object map, hash computed from the dump", floor=2)
    R.rule("C24-R5", "a number's printed text follows its value: every value-changing assignment of primitive resets the remembered literal text", floor=11)
    R.rule("C24-R6", "floating-point numbers are written with enough digits to be read back exactly (max_digits10)", floor=2)
    R.rule("C24-R7", "the reader accepts every object key the writer can emit: no size condition on a quoted key", floor=1)
    R.rule("C24-R8", "a number is dumped from the union member that belongs to its stored tag (primitive::toString)", floor=11)
    R.rule("C24-R4", "object keys are decoded with the string decoder", floor=1)

    # locate the escaper: a function in json.cpp with an escaping switch
    esc = []
    for f in prog.funcs.values():
        if f.d["file"].endswith("src/types/json.cpp") and f.d.get("tmpl") != "inst":
            for sw, cs in escaper_switches(f):
                if any(appended(s) is not None for c in cs for s in c[1]):
                    esc.append((f, sw, cs))
    if len(esc) != 1:
        raise AnalysisBroken("expected exactly one escaping switch in json.cpp, found %d" % len(esc))
    ef, esw, ecs = esc[0]
    writer = {}
    default_passthrough = False
    for v, sts in ecs:
        a = None
        for s in sts:
            a = a or appended(s)
        if v is None:
            default_passthrough = a is not None and strip(a)["k"] == "DeclRefExpr"
        else:
            writer[v] = literal(a) if a is not None else None
    # reader: json::loadString, switch under the backslash branch
    ls = prog.fn(J + "loadString")
    rsw = [n for n in ls.walk() if n["k"] == "SwitchStmt"]
    if len(rsw) != 1:
        raise AnalysisBroken("json::loadString: expected one switch, found %d" % len(rsw))
    reader = {}
    reader_default_self = False
    for v, sts in switch_cases(ls, rsw[0]):
        a = None
        for s in sts:
            a = a or appended(s)
        if v is None:
            reader_default_self = a is not None and render(strip(a), False).startswith("(*c")
        elif a is not None:
            lv = literal(a)
            reader[v] = lv if isinstance(lv, int) else None
    for ch, seq in sorted(writer.items()):
        ok = isinstance(seq, str) and len(seq) == 2 and seq[0] == "\\"
        dec = None
        if ok:
            x = ord(seq[1])
            dec = reader.get(x, x if reader_default_self else None)
            ok = dec == ch
        R.ob("C24-R1", ok, ef.q, "escape:%r->%r" % (chr(ch), seq), ef.site(esw),
             "reader decodes %r back to %r" % (seq, chr(ch)) if ok else "writer emits %r for %r but the reader decodes it to %r" % (seq, chr(ch), dec))
    # reader specials: backslash, the quote, NUL
    cfg = ls.cfg
    specials = {92: "backslash (escape introducer)", 34: "the closing quote"}
    for sp, what in specials.items():
        R.ob("C24-R1", sp in writer, ef.q, "special:%r escaped" % chr(sp), ef.site(esw), "%s is escaped by the writer" % what)
    R.ob("C24-R1", 0 in writer, ef.q, "special:NUL escaped", ef.site(esw),
         "NUL (end of input for the reader) is escaped by the writer" if 0 in writer else
         "a NUL byte inside a string or key is written as is, but the reader (const char* scanner) treats it as end of input")
    finds = [c for c in ef.walk() if c["k"] == "CXXMemberCallExpr" and callee(c).endswith("::find_first_of")]
    # third idiom, in front of either of the others: `if (str.find_first_of(SET) == npos) { out += str; ...; return; }`
    # copies a string verbatim when it has nothing to escape - sound iff SET contains every character the switch escapes
    for fnd in list(finds):
        guard = next((a_ for a_ in ef.ancestors(fnd) if a_["k"] == "IfStmt" and any(x["i"] == fnd["i"] for x in walk(kids(a_)[0]))), None)
        if guard is None or "npos" not in render(kids(guard)[0], False):
            continue
        then = kids(guard)[1]
        if not any(x["k"] == "ReturnStmt" for x in walk(then)):
            continue
        finds.remove(fnd)
        stop = literal(call_args(fnd)[0]) if call_args(fnd) else None
        stopset = {ord(ch) for ch in stop} if isinstance(stop, str) else None
        if stopset is None:
            raise AnalysisBroken("escaper fast path: stop set is not a string literal")
        missing = sorted(ch for ch in writer if ch != 0 and ch not in stopset)
        R.ob("C24-R1", not missing, ef.q, "fast path:stop set covers every escaped character", ef.site(fnd),
             "a string without any of %r has nothing to escape" % stop if not missing else
             "strings containing %s (and none of %r) are copied verbatim: the dump of a string with a backslash followed by `n` equals the dump of the string with a real newline - two different values, one text, one hash" %
             (", ".join(repr(chr(m)) for m in missing), stop))
    if not finds:
        # per-character idiom: the switch is applied to every character, the default arm passes it through
        R.ob("C24-R1", default_passthrough, ef.q, "default:passthrough", ef.site(esw), "all other bytes are emitted unchanged (the reader's non-special branch appends them unchanged)")
    else:
        bulk_copy(ef, esw, writer, finds, R)

    # ---- R2: sources of user strings in dumpToString -----------------------------------
    dts = prog.fn(J + "dumpToString")
    srcs = []
    for n in dts.walk():
        if n["k"] == "MemberExpr" and n.get("n", "").endswith("::string") and kids(n) and strip(kids(n)[0]).get("n") == "occa::json::value_":
            srcs.append(("value", n))
        if n["k"] == "MemberExpr" and n.get("n", "").endswith("::first"):
            srcs.append(("key", n))
    defs = dts.local_defs()

    def uses_of(n):
        """(kind, node) uses of the source expression: direct parent use or uses of the local it initialises"""
        out = []
        par = dts.parent.get(n["i"])
        while par is not None and par["k"] in ("ImplicitCastExpr", "CXXConstructExpr"):
            par = dts.parent.get(par["i"])
        if par is not None and par["k"] == "VarDecl":
            d = par["d"]
            for x in dts.walk():
                if x["k"] == "DeclRefExpr" and x.get("d") == d:
                    out.append(x)
        else:
            out.append(n)
        return out
    for kind, s in srcs:
        for u in uses_of(s):
            # climb to the enclosing call / += / subscript
            par = dts.parent.get(u["i"])
            while par is not None and par["k"] in ("ImplicitCastExpr", "MemberExpr"):
                par = dts.parent.get(par["i"])
            ok = False
            how = ""
            if par is not None and is_call(par) and par["k"] == "CallExpr":
                g = prog.resolve_call(par, False)
                ok = any(x.key == ef.key for x in g)
                how = "passed to %s" % callee(par)
            elif par is not None and par["k"] == "CXXOperatorCallExpr" and par.get("op") == "+=":
                ok = False
                how = "appended raw with +="
            elif par is not None and par["k"] == "CXXMemberCallExpr" and callee(par).split("::")[-1] in ("size", "length"):
                ok = ef.key == dts.key
                how = "length query"
            elif par is not None and ((par["k"] == "CXXOperatorCallExpr" and par.get("op") == "[]") or
                                      (par["k"] == "CXXMemberCallExpr" and callee(par).split("::")[-1] == "at")):
                # inline escaper: the indexed character must be the escaping switch's subject
                how = "indexed character"
                up = dts.parent.get(par["i"])
                while up is not None and up["k"] in ("ImplicitCastExpr",):
                    up = dts.parent.get(up["i"])
                cond = strip(kids(esw)[0])
                ok = ef.key == dts.key and up is not None and up["k"] == "VarDecl" and cond["k"] == "DeclRefExpr" and cond.get("d") == up["d"]
            else:
                how = "used in %s" % (par["k"] if par else "?")
                ok = False
            R.ob("C24-R2", ok, dts.q, "emit:%s via %s" % (kind, how), dts.site(u),
                 "object %s is written through the escaper" % kind if ok else
                 "an object %s is written without escaping: a %s containing '\"' or '\\' does not parse back" % (kind, kind))
    if not any(k == "key" for k, _ in srcs) or not any(k == "value" for k, _ in srcs):
        raise AnalysisBroken("json::dumpToString: string value / key sources not found")
    # the escaper itself quotes both ends and only emits its parameter through the switch
    p_str = ef.d["params"][1]["d"] if ef.key != dts.key and len(ef.d["params"]) > 1 else None
    if p_str is not None:
        raw = [x for x in ef.walk() if x["k"] == "CXXOperatorCallExpr" and x.get("op") == "+=" and strip(kids(x)[2]).get("d") == p_str]
        # the whole argument may be appended on the fast path (nothing to escape: decided by C24-R1 "fast path")
        raw = [x for x in raw if not any(a_["k"] == "IfStmt" and "find_first_of" in render(kids(a_)[0], False) and "npos" in render(kids(a_)[0], False) and any(y["i"] == x["i"] for y in walk(kids(a_)[1]))
                                         for a_ in ef.ancestors(x))]
        R.ob("C24-R2", not raw, ef.q, "escaper:no raw append of its argument", ef.site(esw), "the escaper never appends its whole argument unescaped")

    # ---- R3 ---------------------------------------------------------------------------
    td = prog.typedefs.get("occa::jsonObject")
    ok = td is not None and td["ct"].startswith("std::map<std::basic_string<char")
    R.ob("C24-R3", ok, "occa::jsonObject", "typedef:ordered map", "include/occa/types/json.hpp", "jsonObject is %s" % (td["ct"][:60] if td else "?"), nontrivial=False)
    h = prog.fn(J + "hash")
    calls = [callee(c) for c in h.walk() if is_call(c)]
    ok = J + "dumpToString" in calls and any(c == "occa::hash" for c in calls)
    rets = [n for n in h.walk() if n["k"] == "ReturnStmt"]
    ok = ok and len(rets) == 1 and is_call(strip(kids(rets[0])[0])) and callee(strip(kids(rets[0])[0])) == "occa::hash"
    R.ob("C24-R3", ok, h.q, "hash:of dump", "%s:%d" % (h.relfile, h.d["line"]), "json::hash() hashes the dumped text only")
    # ---- R4 ---------------------------------------------------------------------------
    lof = prog.fn(J + "loadObjectField")
    ok = any(is_call(c) and callee(c) == J + "loadString" for c in lof.walk())
    key_decoded = ok
    R.ob("C24-R4", ok, lof.q, "key:loadString", "%s:%d" % (lof.relfile, lof.d["line"]), "quoted keys are decoded by loadString" if ok else
         "a quoted key is taken from the input without the string decoder: dump() escapes keys (dumpEscapedString), so a key containing a quote, a backslash or a control character comes back in its escaped spelling - parse(dump(j)) != j")

    # ---- R5: primitive::toString prints `source` when it is set; load() sets it to the literal's spelling -------------------------------------
    pr = ctx.program(["src/types/primitive.cpp"], thorough_all=False)
    ts = pr.fn("occa::primitive::toString")
    uses_source = any(n["k"] == "MemberExpr" and n.get("n") == "occa::primitive::source" for n in ts.walk())
    n5 = 0
    for f in pr.fns("occa::primitive::operator="):
        ps = f.d["params"]
        if len(ps) != 1 or "primitive" in f.tname(ps[0]["t"]) or "*" in f.tname(ps[0]["t"]):
            continue
        writes_value = any(write_target(n) is not None and "anonymous" in strip(write_target(n)).get("n", "") or (write_target(n) is not None and ".value." in noid(render(strip(write_target(n)), False)) or (write_target(n) is not None and noid(render(strip(write_target(n)), False)).startswith("this->value."))) for n in f.walk())
        resets = any((write_target(n) is not None and strip(write_target(n)).get("n") == "occa::primitive::source") or
                     (is_call(n) and callee(n).split("::")[-1] in ("clear", "operator=", "assign") and call_object(n) is not None and strip(call_object(n)).get("n") == "occa::primitive::source") or
                     (n["k"] == "CXXOperatorCallExpr" and n.get("op") == "=" and len(kids(n)) == 3 and strip(kids(n)[1]).get("n") == "occa::primitive::source") for n in f.walk())
        if not writes_value:
            continue
        n5 += 1
        ok = resets or not uses_source
        R.ob("C24-R5", ok, f.q + "(" + f.tname(ps[0]["t"]) + ")", "assignment resets the literal text", "%s:%d" % (f.relfile, f.d["line"]),
             "source is cleared together with the new value" if ok else
             "the value changes but `source` keeps the literal text it was parsed from, and toString()/dump()/hash() print `source`: parse(\"{\\\"N\\\":1}\")[\"N\"] = 2 still dumps and hashes as 1")
    if n5 < 11:
        raise AnalysisBroken("primitive::operator=(T): only %d arithmetic overloads found" % n5)

    # ---- R6: json numbers are printed by occa::toString<T> ------------------------------------------------------------------------------
    st = ctx.program(["src/occa/internal/utils/string.cpp"], thorough_all=False)
    LIMITS = {("float", "digits10"): 6, ("float", "max_digits10"): 9, ("double", "digits10"): 15, ("double", "max_digits10"): 17}

    def const_int(e):
        e = strip(e)
        while e["k"] in ("ParenExpr", "ImplicitCastExpr", "CStyleCastExpr", "CXXStaticCastExpr") and kids(e):
            e = strip(kids(e)[0])
        if isinstance(literal(e), int) and not isinstance(literal(e), bool):
            return literal(e)
        if e["k"] == "DeclRefExpr" and e.get("n", "").startswith("std::numeric_limits<"):
            t = e["n"].split("<")[1].split(">")[0]
            return LIMITS.get((t, e["n"].split("::")[-1]))
        if e["k"] == "BinaryOperator" and e.get("op") in ("+", "-"):
            a, b = const_int(kids(e)[0]), const_int(kids(e)[1])
            if a is None or b is None:
                return None
            return a + b if e["op"] == "+" else a - b
        return None
    for T_, need in (("float", 9), ("double", 17)):
        fs_ = [f for f in st.funcs.values() if f.q.startswith("occa::toString") and T_ in f.d["sig"].split("(")[1] and "const %s &" % T_ in f.d["sig"]]
        if not fs_:
            raise AnalysisBroken("occa::toString<%s> not found" % T_)
        f = fs_[0]
        sp = [c for c in f.walk() if is_call(c) and callee(c) == "std::setprecision"]
        sci = any(x["k"] == "DeclRefExpr" and x.get("n") == "std::scientific" for x in f.walk())
        p = const_int(call_args(sp[0])[0]) if sp else None
        digits = None if p is None else (p + 1 if sci else p)
        ok = digits is not None and digits >= need
        R.ob("C24-R6", ok, "occa::toString<%s>" % T_, "%s significant digits written, %d needed" % (digits, need), f.site(sp[0]) if sp else f.relfile,
             "every %s is read back as the same value" % T_ if ok else
             "a %s needs %d significant digits to round-trip; with %s some neighbouring values share one text: parse(dump(v)) != v and distinct values get the same hash" % (T_, need, digits))

    # ---- R8: json numbers are written with primitive::toString() ----------------------------------------------------------------------------
    from rules.c14 import arms_of, SCALARS
    pts = [f for f in st.funcs.values() if f.q == "occa::primitive::toString" and f.d.get("tmpl") != "inst"] if hasattr(st, "funcs") else []
    if not pts:
        pts = [f for f in ctx.program(["src/types/primitive.cpp"], thorough_all=False).funcs.values() if f.q == "occa::primitive::toString" and f.d.get("tmpl") != "inst"]
    if len(pts) != 1:
        raise AnalysisBroken("primitive::toString not found (%d)" % len(pts))
    pt = pts[0]
    sws = [n for n in pt.walk() if n["k"] == "SwitchStmt"]
    if len(sws) != 1:
        raise AnalysisBroken("primitive::toString: expected one switch over the tag")
    for tag, sts in arms_of(sws[0]):
        if tag not in SCALARS:
            continue
        members = sorted({x.get("n", "").split("::")[-1] for s_ in sts for x in walk(s_) if x["k"] == "MemberExpr" and "primitive" in x.get("n", "") and x.get("n", "").split("::")[-1] in SCALARS})
        ok = members == [tag]
        R.ob("C24-R8", ok, pt.q, "tag %s reads value.%s" % (tag, "/".join(members) or "?"), pt.site(sts[0]) if sts else pt.relfile,
             "member matches the tag" if ok else
             "a number stored as %s is printed from value.%s: the dump shows another value (int16 -1 is written 65535) and parse(dump(x)) != x" % (tag, "/".join(members) or "?"))

    # ---- R7 ------------------------------------------------------------------------------------------------------------------------------
    lof = prog.fn(J + "loadObjectField")
    lcfg = lof.cfg
    quoted = [c for c in lof.walk() if is_call(c) and callee(c) == J + "loadString"]
    if len(quoted) != 1 and not key_decoded:
        return          # reported by C24-R4: there is no decoded key to follow
    if len(quoted) != 1:
        raise AnalysisBroken("loadObjectField: the quoted-key branch was not found")
    sizetests = [n for n in lof.walk() if is_call(n) and callee(n).split("::")[-1] in ("size", "empty", "length") and "std::basic_string" in callee(n) and
                 any(b_.tk is not None for b_ in [lcfg.blocks[lcfg.position(n)[0]]] if lcfg.position(n))]
    p = None
    for t in sizetests:
        p = lcfg.find_path(lcfg.position(quoted[0]), lambda b, i, e, t=t: e == t["i"], lambda b, i, e: False)
        if p is not None:
            break
    R.ob("C24-R7", p is None, lof.q, "a quoted key is not tested for its size", lof.site(quoted[0]),
         "only an unquoted key must be non-empty" if p is None else
         "a key read from a quoted string is rejected when it is empty, but dump() writes an empty key as \"\": parse(dump(j)) throws for j.set(\"\", 1) or a path with an empty segment")


META = {
    "technique": "table agreement between the writer's and the reader's switch statements (case labels and appended literals extracted from the AST); coverage argument for the escaper loop in either of two recognised idioms (per character / bulk copy with find_first_of: stop set, resume index, run and tail); source-to-sink flow of user strings inside the dumper; typedef/class facts",
    "level": "Static decision of the string/key clauses of the round trip: for every escape the writer emits the reader's table decodes it to the original byte, every byte the reader treats specially is "
             "escaped, every string value and object key reaches the output only through the escaper, objects iterate in key order and the hash depends on the dump only. These hold for all strings, which "
             "tests sample sparsely (no test uses a key with a quote).",
    "note": "Does not decide numeric round trip (primitive::toString/load precision) nor nesting/indentation arithmetic. NUL bytes: recorded as a known finding (the reader is a NUL-terminated scanner). Probed from outside (DESIGN 10.9, probes/P24), not reported by a rule here: an empty key and inf/nan are dumped but cannot be parsed; equal numbers may dump differently (1.5 vs 1.50).",
}
