"""C29 - C API values keep their value and type through conversions (structural clauses).

 R1  each newOccaType<T> specialisation stores T under T's tag, T's size and T's union member
 R2  every switch that converts between scalar tags covers all 11 scalar kinds (bool_, int8_ ... double_)
 R3  needsFree is set exactly for the kinds occaFree deletes, and the json delete is guarded by the flag
 R4  typed accessors check the tag before reinterpreting the pointer
"""
from vlib.facts import call_object, kids, strip, walk, is_call, call_args, callee, render, literal
from vlib.cfg import write_target
from vlib.work import AnalysisBroken
from vlib.flow import sequenced_before

UNITS = ["src/occa/internal/c/types.cpp"]
SCALARS = ["bool_", "int8_", "uint8_", "int16_", "uint16_", "int32_", "uint32_", "int64_", "uint64_", "float_", "double_"]
CTYPE = {"bool": "bool_", "int8_t": "int8_", "uint8_t": "uint8_", "int16_t": "int16_", "uint16_t": "uint16_", "int32_t": "int32_",
         "uint32_t": "uint32_", "int64_t": "int64_", "uint64_t": "uint64_", "float": "float_", "double": "double_"}
CANON = {"signed char": "int8_", "unsigned char": "uint8_", "short": "int16_", "unsigned short": "uint16_", "int": "int32_", "unsigned int": "uint32_",
         "long": "int64_", "unsigned long": "uint64_", "long long": "int64_", "unsigned long long": "uint64_", "_Bool": "bool_"}
CTYPE.update(CANON)
SIZE = {"bool_": 1, "int8_": 1, "uint8_": 1, "int16_": 2, "uint16_": 2, "int32_": 4, "uint32_": 4, "int64_": 8, "uint64_": 8, "float_": 4, "double_": 8}
# union member used to store each tag (a bool is stored in the int8_ member: one byte, same ABI)
MEMBER = dict((t, t) for t in SCALARS)
MEMBER["bool_"] = "int8_"


def case_tags(sw):
    tags = []
    has_default = False
    for n in walk(kids(sw)[1]):
        if n["k"] == "CaseStmt" and n.get("en"):
            tags.append(n["en"])
        if n["k"] == "DefaultStmt":
            has_default = True
    return tags, has_default


def run(ctx):
    R = ctx.R
    prog = ctx.program(UNITS, thorough_all=False)
    R.explanation = ("Decides, from the switch statements and field writes of src/occa/internal/c/types.cpp, that every scalar kind is stored under its own tag/size/member, that every scalar conversion switch "
                     "is exhaustive over the 11 scalar kinds, that ownership flags and occaFree agree, and that pointer-carrying accessors check the tag first.")
    R.rule("C29-R1", "newOccaType<T>: tag, sizeof and union member correspond to T", floor=11)
    R.rule("C29-R2", "scalar conversion switch covers all 11 scalar tags", floor=6)
    R.rule("C29-R3", "needsFree set exactly for the kinds occaFree deletes; json delete guarded by the flag", floor=4)
    R.rule("C29-R5", "setters convert the C value before they touch the target container (C++17 evaluation order)", floor=3)
    R.rule("C29-R6", "a string handed out by the C API points into the object asked (or into memory the caller owns), never into a buffer shared between calls or a dead local", floor=6)
    R.rule("C29-R4", "typed accessor checks the tag before casting the pointer", floor=8)

    fns = [f for f in prog.funcs.values() if f.d["file"].endswith("src/occa/internal/c/types.cpp") and f.d.get("tmpl") != "pattern"]
    # ---- R1 ---------------------------------------------------------------------------
    seen = set()
    needs = {}
    for f in fns:
        if f.q != "occa::c::newOccaType":
            continue
        writes = {}
        for n in f.walk():
            t = write_target(n)
            if t is None:
                continue
            s = render(strip(t), False)
            if s.startswith("oType."):
                writes[s] = kids(n)[1]
        tagn = strip(writes["oType.type"]).get("n", "").split("::")[-1] if "oType.type" in writes else None
        if tagn and "oType.needsFree" in writes:
            nf = strip(writes["oType.needsFree"])
            needs.setdefault(tagn, set()).add(literal(nf) if literal(nf) is not None else "param")
        if len(f.d["params"]) != 1:
            continue
        pt = f.tname(f.d["params"][0]["t"]).replace("const ", "").replace("&", "").strip()
        if pt not in CTYPE:
            continue
        want = CTYPE[pt]
        seen.add(want)
        tag = strip(writes.get("oType.type", {"k": "?"})).get("n", "").split("::")[-1]
        size = None
        if "oType.bytes" in writes:
            for x in walk(writes["oType.bytes"]):
                if x["k"] == "UnaryExprOrTypeTraitExpr":
                    size = x.get("v")
        members = [k.split(".")[-1] for k in writes if k.startswith("oType.value.")]
        ok = tag == want and size == SIZE[want] and members == [MEMBER[want]]
        R.ob("C29-R1", ok, "occa::c::newOccaType<%s>" % pt, "store:%s" % want, "%s:%d" % (f.relfile, f.d["line"]),
             "tag %s, %s bytes, member %s" % (tag, size, members) + ("" if ok else " -- expected tag %s, %d bytes, member %s" % (want, SIZE[want], MEMBER[want])))
    for t in SCALARS:
        if t not in seen:
            R.ob("C29-R1", False, "occa::c::newOccaType", "store:%s" % t, "src/occa/internal/c/types.cpp", "no newOccaType specialisation stores kind %s" % t)

    # ---- R2 ---------------------------------------------------------------------------
    n_sw = 0
    for f in fns:
        for sw in (n for n in f.walk() if n["k"] == "SwitchStmt"):
            tags, has_default = case_tags(sw)
            sc = [t for t in tags if t.split("::")[-1] in SCALARS and ("typeType::" in t or "primitiveType::" in t)]
            if len(sc) < 5:
                continue
            n_sw += 1
            have = {t.split("::")[-1] for t in sc}
            missing = [t for t in SCALARS if t not in have]
            fname = "%s %s" % (f.q, f.d["sig"])
            R.ob("C29-R2", not missing, fname, "switch:%s" % render(kids(sw)[0], False), f.site(sw),
                 "covers all 11 scalar kinds" if not missing else
                 "scalar kind(s) %s fall through to %s: a value of that kind is rejected or turned into occaUndefined" % (missing, "the error default" if has_default else "the end of the switch"))
            # per-arm agreement: what the arm touches must be the kind of its label
            arms = []
            cur = None
            for st in kids(kids(sw)[1]):
                n = st
                while n["k"] in ("CaseStmt", "DefaultStmt"):
                    cur = [n.get("en", "").split("::")[-1] if n["k"] == "CaseStmt" else None, []]
                    arms.append(cur)
                    n = kids(n)[0]
                if cur is not None:
                    cur[1].append(n)
            DT = {"bool_": "bool_", "int8": "int8_", "uint8": "uint8_", "int16": "int16_", "uint16": "uint16_", "int32": "int32_", "uint32": "uint32_",
                  "int64": "int64_", "uint64": "uint64_", "float_": "float_", "double_": "double_"}
            for tag, sts in arms:
                if tag not in SCALARS or not sts:
                    continue
                ev = []
                for st in sts:
                    for x in walk(st):
                        if x["k"] == "MemberExpr" and x.get("n", "").split("::")[-1] in SCALARS and "anonymous" in x.get("fcls", "") + x.get("n", ""):
                            ev.append(("member", x["n"].split("::")[-1], MEMBER[tag]))
                        if is_call(x) and callee(x) == "occa::c::newOccaType":
                            pt = x.get("csig", "").split("(")[-1].rstrip(")").replace("const ", "").replace("&", "").strip()
                            if pt in CTYPE:
                                ev.append(("newOccaType<T>", CTYPE[pt], tag))
                        if is_call(x) and callee(x) == "occa::primitive::to":
                            rt = x.get("csig", "").split("(")[0].strip()
                            if rt in CTYPE:
                                ev.append(("to<T>", CTYPE[rt], tag))
                        if x["k"] == "DeclRefExpr" and x.get("n", "").startswith("occa::dtype::") and x["n"].split("::")[-1] in DT:
                            ev.append(("dtype", DT[x["n"].split("::")[-1]], tag))
                for what, got, want in ev:
                    R.ob("C29-R2", got == want, fname, "arm:%s uses %s %s" % (tag, what, got), f.site(sts[0]),
                         "arm handles its own kind" if got == want else "the arm for %s converts through %s of kind %s (expected %s): the value changes type" % (tag, what, got, want))
    if n_sw < 6:
        raise AnalysisBroken("only %d scalar switches found in c/types.cpp (floor 6)" % n_sw)

    # ---- R3 ---------------------------------------------------------------------------
    fr = [f for f in prog.funcs.values() if f.q == "occaFree"]
    if len(fr) != 1:
        raise AnalysisBroken("occaFree vanished")
    fr = fr[0]
    sw = [n for n in fr.walk() if n["k"] == "SwitchStmt"][0]
    deleted = {}
    cur = None
    for n in walk(kids(sw)[1]):
        if n["k"] == "CaseStmt":
            cur = n.get("en", "").split("::")[-1]
        if n["k"] == "CXXDeleteExpr" and cur:
            deleted[cur] = n
    owning = {t for t, v in needs.items() if v - {False}}
    for t in sorted(owning | set(deleted)):
        ok = t in owning and t in deleted
        R.ob("C29-R3", ok, "occaFree", "owns:%s" % t, fr.site(deleted[t]) if t in deleted else "src/occa/internal/c/types.cpp",
             "kind may own its payload and occaFree deletes it" if ok else
             ("occaFree deletes a %s although no constructor marks it as owned" % t if t in deleted else "constructor sets needsFree for %s but occaFree never releases it" % t))
    for t, n in deleted.items():
        if "param" in needs.get(t, ()) or False in needs.get(t, ()):
            fs = fr.cfg.facts_at(n)
            ok = any(pol and k.endswith(".needsFree") for (k, pol) in fs)
            R.ob("C29-R3", ok, "occaFree", "guard:%s delete under needsFree" % t, fr.site(n), "delete of a possibly borrowed %s is guarded by its needsFree flag" % t)
    for t in SCALARS:
        R.ob("C29-R3", needs.get(t, set()) <= {False}, "occa::c::newOccaType", "scalar:%s not owned" % t, "src/occa/internal/c/types.cpp", "scalar kinds never carry needsFree", nontrivial=False)

    # ---- R4 ---------------------------------------------------------------------------
    ACCESS = ["device", "kernel", "kernelBuilder", "memory", "memoryPool", "stream", "streamTag", "dtype", "scope", "json"]
    for a in ACCESS:
        fs = [f for f in prog.fns("occa::c::" + a) if len(f.d["params"]) == 1 and "occaType" in f.tname(f.d["params"][0]["t"])]
        if len(fs) != 1:
            raise AnalysisBroken("C accessor occa::c::%s(occaType) vanished" % a)
        f = fs[0]
        cfg = f.cfg
        IN = cfg.facts_in()
        casts = [n for n in f.walk() if n["k"] in ("CStyleCastExpr", "CXXReinterpretCastExpr", "CXXStaticCastExpr") and "value.value.ptr" in render(n, False).replace("#%d" % f.d["params"][0]["d"], "")]
        for n in casts:
            facts = cfg.facts_at(n, IN)
            ok = any(pol and ".type == " in k and k.rstrip(")").endswith("typeType::" + a) for (k, pol) in facts)
            R.ob("C29-R4", ok, f.q, "cast:ptr as %s" % a, f.site(n), "tag checked before the pointer is reinterpreted" if ok else "the payload pointer is reinterpreted without checking the occaType tag")
        if not casts:
            raise AnalysisBroken("C accessor %s: pointer cast not found" % f.q)

    # ---- R5: inferJson() may throw (unsupported occaType) and reads the argument, which may alias the target; a setter that creates the
    #          target entry first leaves a phantom entry behind a rejected set and stores a copy of the already modified container ----------
    jp = ctx.program(["src/c/json.cpp"], thorough_all=False)
    n5 = 0
    for f in jp.funcs.values():
        if f.d.get("tmpl") == "inst" or not f.d["file"].endswith("src/c/json.cpp"):
            continue
        convs = [c for c in f.walk() if is_call(c) and callee(c) == "occa::c::inferJson"]
        if not convs:
            continue
        # mutators of the json target: inserting operator[], +=, container insert/push_back on something derived from the target handle
        muts = []
        for c in f.walk():
            cq = callee(c) if is_call(c) else ""
            if c["k"] == "CXXOperatorCallExpr" and cq.startswith("occa::json::operator[]") and "const" not in c.get("csig", "").split(")")[-1]:
                muts.append((c, "operator[] (creates a missing entry)"))
            elif c["k"] == "CXXOperatorCallExpr" and cq.startswith("occa::json::operator+="):
                muts.append((c, "operator+="))
            elif c["k"] == "CXXMemberCallExpr" and cq.split("::")[-1] in ("insert", "push_back", "emplace_back", "emplace") and "std::vector<occa::json" in cq:
                muts.append((c, cq.split("::")[-1]))
        for cv in convs:
            for (m, what) in muts:
                sb = sequenced_before(f, cv, m)
                n5 += 1
                R.ob("C29-R5", sb is True, f.q, "convert before %s" % what, f.site(m),
                     "the value is converted before the target is modified" if sb is True else
                     "the target is modified %s the C value is converted: a rejected value (inferJson throws) leaves a phantom entry, and a value that aliases the target is copied after the modification"
                     % ("before" if sb is False else "in an order C++ does not fix relative to when"))
    if n5 < 3:
        raise AnalysisBroken("C API json setters: only %d conversion/mutation pairs found" % n5)

    # ---- R6 ---------------------------------------------------------------------------------------------------------------------------
    cp = ctx.program(["src/c/json.cpp", "src/c/kernel.cpp", "src/c/device.cpp", "src/c/dtype.cpp"], thorough_all=False)
    n6 = 0
    for f in sorted(cp.funcs.values(), key=lambda f: f.q):
        if f.d.get("tmpl") == "inst" or "/src/c/" not in f.d["file"] or not f.q.startswith("occa") or "::" in f.q or not f.d.get("sig", "").startswith("const char *"):
            continue
        defs = f.local_defs()
        for r in [x for x in f.walk() if x["k"] == "ReturnStmt" and kids(x)]:
            e = strip(kids(r)[0])
            why = None
            if is_call(e) and (callee(e) or "").split("::")[-1] in ("c_str", "data") and call_object(e) is not None:
                root = strip(call_object(e))
                while root["k"] == "MemberExpr" and kids(root):
                    root = strip(kids(root)[0])
                if root["k"] == "DeclRefExpr" and root.get("loc"):
                    vd = [d for d in defs.get(root["d"], []) if d["k"] == "VarDecl"]
                    t = f.type(vd[0]).strip() if vd else ""
                    if vd and vd[0].get("static"):
                        why = "a static buffer (`%s`) that every later call on this thread overwrites: a string read back earlier changes under the caller, or dangles when the buffer reallocates" % vd[0]["n"]
                    elif vd and not t.endswith("&") and not t.endswith("*"):
                        why = "the local `%s`, destroyed at the return: the caller receives a dangling pointer" % vd[0]["n"]
            n6 += 1
            R.ob("C29-R6", why is None, f.q, "returned string storage", f.site(r),
                 "points into the queried object / caller-owned memory" if why is None else "the returned pointer refers to %s" % why, nontrivial=False)
    if n6 < 6:
        raise AnalysisBroken("C API string getters: only %d returns analysed" % n6)
    # occaJsonObjectSet stores through json::operator[], occaJsonObjectGet / occaJsonObjectHas answer through json::has: what was stored
    # under a key is read back only if all path walkers split the key the same way (shared with C25)
    from rules import c25
    from vlib.refile import refile
    refile(ctx, c25, {"C25-R1": "C29-R7"}, "C25")


META = {
    "technique": "C++17 sequenced-before relation over the AST (conversion before mutation in the json setters); exhaustiveness of switch statements over the scalar tag set (case labels resolved to their declarations), table agreement tag/sizeof/union-member per specialisation, pairing of ownership flags with occaFree, guard dominance on pointer casts",
    "level": "Static decision that all 11 scalar kinds are stored under matching tag, size and union member, that each of the scalar conversion switches (newOccaType(primitive), newOccaType(primitive,type), "
             "kernelArg, primitive, primitive(type), inferJson, getDtype) covers all 11 kinds, that the kinds whose constructors set needsFree are exactly the kinds occaFree deletes (json under its flag), and that "
             "every handle accessor checks the tag before casting, the json setters convert before they mutate, and no string getter hands out a static buffer or a dead local. Holds for every value of every kind; the C tests never pass an occaBool as a kernel argument.",
    "note": "Does not decide numeric value preservation through primitive conversions (value-level), nor JSON set/get in src/c/json.cpp beyond the conversions they call.",
}
