"""C21 - OpenMP kernels are deterministic for every thread count and schedule (generator placement facts only).

 R1  atomics: openmpParser::afterParsing reaches its normal exit only through setupAtomics(); both callbacks insert an `omp atomic` / `omp critical`
     pragma before the annotated statement on every path; the driver visits every @atomic expression and block statement
 R2  the only pragma that opens a parallel region is attached to outermost @outer loops (never to an @inner loop)
 R3  the @exclusive index is declared inside the innermost @outer loop body (private to each thread), never in the kernel's or root's block
"""
from vlib.facts import kids, strip, walk, is_call, call_args, call_object, callee, render, literal, noid
from vlib.cfg import write_target
from vlib.work import AnalysisBroken

UNITS = ["src/occa/internal/lang/modes/openmp.cpp", "src/occa/internal/lang/modes/serial.cpp", "src/occa/internal/lang/builtins/attributes/atomic.cpp",
         "src/occa/internal/lang/builtins/attributes/exclusive.cpp", "src/occa/internal/lang/builtins/attributes/shared.cpp", "src/occa/internal/lang/builtins/attributes/tile.cpp",
         "src/occa/internal/lang/builtins/attributes/dim.cpp", "src/occa/internal/lang/statement/ifStatement.cpp", "src/occa/internal/lang/statement/elifStatement.cpp",
         "src/occa/internal/lang/statement/forStatement.cpp", "src/occa/internal/lang/statement/whileStatement.cpp", "src/occa/internal/lang/statement/switchStatement.cpp"]
SHARING = ("occa::lang::static_", "occa::lang::extern_", "occa::lang::register_")
OMP = "occa::lang::okl::openmpParser::"
AT = "occa::lang::attributes::atomic::"
SP = "occa::lang::okl::serialParser::"


def run(ctx):
    R = ctx.R
    prog = ctx.program(UNITS, thorough_all=False)
    R.explanation = ("Schedules of generated programs cannot be enumerated by analysing the generator. Decided: three placement facts of the generator, each necessary for one guarantee the statement names and each with a concrete racing "
                     "kernel when broken: @atomic statements always receive an omp atomic/critical pragma, the parallel region is opened only on outermost @outer loops, and the @exclusive index is declared inside the parallel loop body.")
    R.rule("C21-R1", "@atomic statements always get an omp atomic / omp critical pragma", floor=10)
    R.rule("C21-R2", "parallel region opened only on outermost @outer loops", floor=5)
    R.rule("C21-R4", "the Serial / OpenMP translation never gives a variable a storage class that is shared between threads (static / extern): what is declared inside the parallel loop stays per thread", floor=1)
    R.rule("C21-R5", "the statement-tree walk that places the pragmas sees every child: getInnerStatements() reports every statement a node stores", floor=6)
    R.rule("C21-R3", "@exclusive index declared inside the innermost @outer loop", floor=4)

    ap = prog.fn(OMP + "afterParsing")
    cfg = ap.cfg
    IN = cfg.facts_in()
    sa = [c for c in ap.walk() if c["k"] == "CXXMemberCallExpr" and callee(c) == OMP + "setupAtomics"]
    so = [c for c in ap.walk() if c["k"] == "CXXMemberCallExpr" and callee(c) == OMP + "setupOmpPragmas"]
    if len(sa) != 1 or len(so) != 1:
        raise AnalysisBroken("openmpParser::afterParsing: setupOmpPragmas / setupAtomics calls not found")

    def exits_without(call):
        """a path entry -> exit that avoids `call` and never takes a `success == false` edge"""
        seen = set()
        work = [(cfg.entry, [cfg.entry])]
        while work:
            b, pth = work.pop()
            blk = cfg.blocks[b]
            if any(e == call["i"] for e in blk.elems):
                continue
            if b == cfg.exit:
                return pth
            for s in blk.succs:
                if s is None or s in seen:
                    continue
                if any((not pol) and noid(render(n, False)) == "this->success" for (n, pol) in cfg._edge_facts.get((b, s), ())):
                    continue
                seen.add(s)
                work.append((s, pth + [s]))
        return None
    p = exits_without(sa[0])
    R.ob("C21-R1", p is None, ap.q, "every successful translation passes setupAtomics()", ap.site(sa[0]),
         "the only exits that skip it are the `!success` returns" if p is None else "a successful OpenMP translation can finish without handling @atomic: the update is a plain read-modify-write inside `omp parallel for`", path=p)
    p = exits_without(so[0])
    R.ob("C21-R2", p is None, ap.q, "every successful translation passes setupOmpPragmas()", ap.site(so[0]), "parallel pragmas are always set up")
    sat = prog.fn(OMP + "setupAtomics")
    calls = [c for c in sat.walk() if is_call(c) and callee(c) == AT + "applyCodeTransformation"]
    ok = len(calls) == 1
    if ok:
        a = [noid(render(x, False)) for x in call_args(calls[0])]
        ok = a[0].endswith("root") and a[1].endswith("transformBlockStatement") and a[2].endswith("transformBasicExpressionStatement")
    R.ob("C21-R1", ok, sat.q, "atomic driver called with (root, block callback, basic-expression callback)", sat.site(calls[0]) if calls else sat.relfile, "callbacks in the right slots")
    res = [n for n in sat.walk() if n["k"] == "CompoundAssignOperator" and n.get("op") == "&=" and "success" in noid(render(kids(n)[0], False))]
    R.ob("C21-R1", len(res) == 1, sat.q, "driver failure clears success", sat.relfile, "success &= applyCodeTransformation(...)")
    for cb, text in (("transformBlockStatement", "omp critical"), ("transformBasicExpressionStatement", "omp atomic")):
        f = prog.fn(OMP + cb)
        c = f.cfg
        pr = [n for n in f.walk() if n["k"] == "CXXNewExpr" and "pragmaStatement" in f.tname(n.get("nt"))]
        lit = [literal(x) for n in pr for x in walk(n) if x["k"] == "StringLiteral"]
        ok = len(pr) == 1 and lit == [text]
        R.ob("C21-R1", ok, f.q, "creates pragma %r" % text, f.site(pr[0]) if pr else f.relfile, "pragma text %s" % lit)
        add = [x for x in f.walk() if x["k"] == "CXXMemberCallExpr" and callee(x).endswith("blockStatement::addBefore")]
        okp = len(add) == 1 and strip(call_args(add[0])[0]).get("d") == f.d["params"][0]["d"] and "parent" in noid(render(call_object(add[0]), False))
        p = c.find_path((c.entry, -1), "exit", lambda b, i, e: bool(add) and e == add[0]["i"])
        R.ob("C21-R1", okp and p is None, f.q, "pragma inserted before the annotated statement on every path", f.site(add[0]) if add else f.relfile,
             "parent.addBefore(statement, pragma) dominates every exit" if okp and p is None else "a path returns without inserting the pragma (or inserts it elsewhere)")
        par = [n for n in f.walk() if n["k"] == "VarDecl" and n["n"] == "parent"]
        okq = len(par) == 1 and noid(render(par[0], False)).replace(" ", "").endswith("%s.up)" % f.d["params"][0]["n"])
        R.ob("C21-R1", okq, f.q, "parent is the statement's own enclosing block", f.site(par[0]) if par else f.relfile, "parent = *(statement.up)")
    act = prog.fn(AT + "applyCodeTransformation")
    flt = [c for c in act.walk() if is_call(c) and callee(c).endswith("flatFilterByStatementType")]
    ok = len(flt) == 1 and "atomic" in [literal(x) for x in walk(flt[0]) if x["k"] == "StringLiteral"] and "expression" in noid(render(flt[0], False)) and "block" in noid(render(flt[0], False))
    R.ob("C21-R1", ok, act.q, "visits every @atomic expression and block statement", act.site(flt[0]) if flt else act.relfile, "flatFilterByStatementType(expression | block, \"atomic\")")
    lam = [prog.funcs[n["lam"]] for n in act.walk() if n["k"] == "LambdaExpr" and n["lam"] in prog.funcs]
    both = set()
    for l in lam:
        for c in l.walk():
            if is_call(c) and callee(c) in (AT + "applyExpressionCodeTransformation", AT + "applyBlockCodeTransformation"):
                both.add(callee(c).split("::")[-1])
    R.ob("C21-R1", len(both) == 2, act.q, "both statement kinds are transformed", "%s:%d" % (act.relfile, act.d["line"]), "handlers: %s" % sorted(both))
    for q in (AT + "applyExpressionCodeTransformation", AT + "applyBlockCodeTransformation"):
        f = prog.fn(q)
        rets = [r for r in f.walk() if r["k"] == "ReturnStmt"]
        cbs = {p["d"] for p in f.d["params"][1:]}
        ok = bool(rets) and all(any(x["k"] == "DeclRefExpr" and x.get("d") in cbs for x in walk(r)) for r in rets)
        R.ob("C21-R1", ok, q, "every exit returns the result of a callback", "%s:%d" % (f.relfile, f.d["line"]), "no statement is left without a pragma: each return invokes transformBlockSmnt or transformBasicExprSmnt")

    # ---- R2 --------------------------------------------------------------------------
    texts = {}
    for f in prog.funcs.values():
        if f.d["file"].endswith("lang/modes/openmp.cpp") and f.d.get("tmpl") != "inst":
            for n in f.walk():
                if n["k"] in ("CXXConstructExpr", "CXXTemporaryObjectExpr") and callee(n).endswith("pragmaToken::pragmaToken"):
                    for x in walk(n):
                        if x["k"] == "StringLiteral":
                            texts.setdefault(literal(x), []).append(f.q)
    par_texts = {t: fs for t, fs in texts.items() if "parallel" in t}
    ok = set(par_texts) == {"omp parallel for"} and all(fs == [OMP + "setupOmpPragmas"] for fs in par_texts.values())
    R.ob("C21-R2", ok, OMP + "*", "who-creates a parallel-region pragma", "", "only setupOmpPragmas creates `omp parallel for` (pragmas in openmp.cpp: %s)" % sorted(texts))
    sp = prog.fn(OMP + "setupOmpPragmas")
    add = [x for x in sp.walk() if x["k"] == "CXXMemberCallExpr" and callee(x).endswith("blockStatement::addBefore")]
    ok = len(add) == 1 and noid(render(call_args(add[0])[0], False)) == "outerSmnt"
    R.ob("C21-R2", ok, sp.q, "pragma attached before an element of outerSmnts", sp.site(add[0]) if add else sp.relfile, "addBefore(outerSmnt, pragma)")
    os_ = [n for n in sp.walk() if n["k"] == "VarDecl" and n["n"] == "outerSmnt"]
    ok = len(os_) == 1 and "outerSmnts[i]" in noid(render(os_[0], False))
    R.ob("C21-R2", ok, sp.q, "outerSmnt ranges over the filtered list", sp.site(os_[0]) if os_ else sp.relfile, "outerSmnt = *(outerSmnts[i])")
    lam = [prog.funcs[n["lam"]] for n in sp.walk() if n["k"] == "LambdaExpr" and n["lam"] in prog.funcs]
    okf = False
    for l in lam:
        c = l.cfg
        IN2 = c.facts_in()
        rt = [r for r in l.walk() if r["k"] == "ReturnStmt" and literal(kids(r)[0]) is True]
        if len(rt) == 1:
            fs = {(noid(k), pol) for (k, pol) in c.facts_at(rt[0], IN2)}
            is_outer = any(pol and "isOuterForLoop(smnt)" in k for (k, pol) in fs)
            rf = [r for r in l.walk() if r["k"] == "ReturnStmt" and literal(kids(r)[0]) is False]
            anc = any(any(pol and "isOuterForLoop(pathSmnt)" in k for (k, pol) in {(noid(k), pol) for (k, pol) in c.facts_at(r, IN2)}) for r in rf)
            okf = is_outer and anc
    R.ob("C21-R2", okf, sp.q, "filter: an @outer for-loop with no @outer ancestor", "%s:%d" % (sp.relfile, sp.d["line"]), "accepted only if isOuterForLoop(smnt); rejected if any path statement isOuterForLoop")
    io = prog.fn(OMP + "isOuterForLoop")
    txt = noid(render(io.body, False))
    ok = "statementType::for_" in txt and 'hasAttribute("outer")' in txt.replace("std::basic_string", "").replace("{", "(").replace("}", ")") or ("for_" in txt and "outer" in txt and "&&" in txt)
    R.ob("C21-R2", ok, io.q, "isOuterForLoop = for statement && @outer", "%s:%d" % (io.relfile, io.d["line"]), "never true for an @inner loop")

    # ---- R3 --------------------------------------------------------------------------
    se = prog.fn(SP + "setupExclusiveDeclaration")
    loops = [n for n in se.walk() if n["k"] == "WhileStmt"]
    ok = len(loops) == 1 and any(x["k"] == "StringLiteral" and literal(x) == "outer" for x in walk(loops[0])) and any(x["k"] == "BreakStmt" for x in walk(loops[0])) and ".up" in noid(render(loops[0], False)).replace("->", ".")
    R.ob("C21-R3", ok, se.q, "walks up to the innermost enclosing @outer loop", se.site(loops[0]) if loops else se.relfile, "first ancestor with hasAttribute(\"outer\")")
    news = [n for n in se.walk() if n["k"] == "CXXNewExpr" and "declarationStatement" in se.tname(n.get("nt"))]
    ok = len(news) == 1 and noid(render(news[0], False)).count("innerMostOuterLoop") >= 1
    R.ob("C21-R3", ok, se.q, "index declaration is created inside that loop", se.site(news[0]) if news else se.relfile, "new declarationStatement(innerMostOuterLoop, ...)")
    addf = [x for x in se.walk() if x["k"] == "CXXMemberCallExpr" and callee(x).endswith("::addFirst")]
    ok = len(addf) == 1 and noid(render(call_object(addf[0]), False)) == "innerMostOuterLoop" and "indexDeclSmnt" in noid(render(call_args(addf[0])[0], False))
    R.ob("C21-R3", ok, se.q, "and added at the top of the @outer loop body", se.site(addf[0]) if addf else se.relfile, "innerMostOuterLoop->addFirst(indexDeclSmnt)")
    creators = set()
    for f in prog.funcs.values():
        if f.d.get("tmpl") == "inst":
            continue
        if any(n["k"] == "CXXNewExpr" and "variable_t" in f.tname(n.get("nt")) for n in f.walk()) and any(x["k"] in ("DeclRefExpr", "MemberExpr") and x.get("n", "").endswith("exclusiveIndexName") for x in f.walk()):
            creators.add(f.q)
    R.ob("C21-R3", creators == {se.q}, SP + "exclusiveIndexName", "who-declares the exclusive index", "", "only setupExclusiveDeclaration creates the index variable: %s" % sorted(creators))
    sx = prog.fn(SP + "setupExclusives")
    lam = [prog.funcs[n["lam"]] for n in sx.walk() if n["k"] == "LambdaExpr" and n["lam"] in prog.funcs]
    ok = any(any(c["k"] == "CXXMemberCallExpr" and callee(c) == se.q for c in l.walk()) and any(x["k"] == "StringLiteral" and literal(x) == "exclusive" for x in l.walk()) for l in lam)
    R.ob("C21-R3", ok, sx.q, "declared for every @exclusive declaration", "%s:%d" % (sx.relfile, sx.d["line"]), "nestedForEachDeclaration -> setupExclusiveDeclaration under hasAttribute(\"exclusive\")")

    # ---- R5: @atomic statements (and @outer loops) are found by walking getInnerStatements() -------------------------------------------------
    n5 = 0
    for g in sorted(prog.funcs.values(), key=lambda f: f.q):
        if not g.q.endswith("::getInnerStatements") or g.d.get("tmpl") == "inst" or not g.q.startswith("occa::lang::"):
            continue
        cls = g.d.get("cls", "")
        rec = prog.record(cls) if cls else None
        if not rec:
            continue
        pushes = [c for c in g.walk() if c["k"] == "CXXMemberCallExpr" and callee(c).split("::")[-1] in ("push", "push_back")]
        for fld in rec["fields"]:
            t = fld.get("ct") or fld.get("t", "")
            is_vec = "vector" in t.lower() or "Vector" in fld.get("t", "")
            if not ("tatement" in t or "tatement" in fld.get("t", "")):
                continue
            if not (t.strip().endswith("*") or is_vec):
                continue
            used = [c for c in pushes if any(x["k"] == "MemberExpr" and x.get("n") == fld["q"] for a in call_args(c) for x in walk(a))]
            ok, why = bool(used), "pushed"
            if is_vec:
                loops = [l for l in g.walk() if l["k"] in ("CXXForRangeStmt", "ForStmt") and any(x["k"] == "MemberExpr" and x.get("n") == fld["q"] for x in walk(l))]
                ok = False
                for l in loops:
                    body_push = any(c["k"] == "CXXMemberCallExpr" and callee(c).split("::")[-1] in ("push", "push_back") for c in walk(l))
                    if l["k"] == "CXXForRangeStmt":
                        ok = ok or body_push
                        why = "range-for over the whole vector"
                    else:
                        init = kids(l)[0]
                        starts = [literal(kids(v)[0]) for v in walk(init) if v["k"] == "VarDecl" and kids(v)] if init is not None else []
                        full = starts == [0]
                        ok = ok or (body_push and full)
                        why = "counted loop from %s" % (starts[0] if starts else "?")
            n5 += 1
            R.ob("C21-R5", ok, g.q, "children:%s reported" % fld["n"], "%s:%d" % (g.relfile, g.d["line"]),
                 why if ok else
                 "the stored child statement(s) `%s` are not (all) reported by getInnerStatements() (%s): the walk that looks for @atomic statements and @outer loops never visits them - an @atomic update there gets no omp atomic / critical pragma "
                 "inside the parallel loop" % (fld["n"], why))
    if n5 < 6:
        raise AnalysisBroken("getInnerStatements family: only %d stored child members found" % n5)

    # ---- R4: who-adds a qualifier, and which ------------------------------------------------------------------------------------------
    n_add = 0
    for f in prog.funcs.values():
        if f.d.get("tmpl") == "inst" or not f.relfile.startswith("src/occa/internal/lang/"):
            continue
        for c in f.walk():
            if not is_call(c):
                continue
            cq = callee(c) or ""
            short = cq.split("::")[-1]
            if not (("qualifiers_t::" in cq or "vartype_t::" in cq or "variable_t::" in cq) and short in ("add", "addFirst", "operator+=", "operator+")):
                continue
            quals = sorted({x.get("n", "") for a in kids(c) for x in walk(a) if x["k"] == "DeclRefExpr" and "qualifier_t" in f.type(x) and x.get("n", "").startswith("occa::lang::")})
            if not quals:
                continue
            n_add += 1
            bad = [q for q in quals if q in SHARING]
            R.ob("C21-R4", not bad, f.q, "adds qualifier %s" % ", ".join(q.split("::")[-1] for q in quals), f.site(c),
                 "not a storage class" if not bad else
                 "the translation declares a variable `%s`: inside the `omp parallel for` loop one object is then shared by all threads (an @exclusive / @shared / tile variable is no longer private) - a data race, results depend on the thread count" % bad[0].split("::")[-1])
    if n_add < 1:
        raise AnalysisBroken("no qualifier-adding call found in the Serial/OpenMP translation units")


META = {
    "technique": "must-pass-through on the OpenMP parser's afterParsing and on both atomic callbacks; who-creates for the parallel pragma text; placement facts (constructor/addFirst/addBefore arguments) of the pragma and of the exclusive index declaration",
    "level": "PARTIAL: decides four placement facts of the OpenMP generator on all of its paths - @atomic expression and block statements always receive `omp atomic` / `omp critical` immediately before them, `omp parallel for` is attached "
             "only to outermost @outer loops, the @exclusive index is declared at the top of the innermost @outer loop body (hence per thread), and no translation step adds a static / extern storage class to a variable. Each is necessary for one guarantee named in the statement.",
    "note": "Does NOT decide race freedom or output equality of generated programs for all thread counts and schedules (that is a property of executions of generated code), mixing of atomic and critical on one variable, or user loop bodies.",
}
