"""C07 - editing an included header always invalidates stale cached kernels (structural chain).

 R1  processInclude: every path that pushes a header's tokens into the translation first records that header as a dependency
 R2  the record travels intact: setSourceMetadata hashes every dependency, getDependencyJson emits every entry, the build file stores it under
     the key that applyDependencyHash and fromBuildFile read
 R3  a published binary always has its dependency record: writeKernelBuildFile precedes the staged compile on every OKL path
 R4  applyDependencyHash re-hashes every recorded dependency, treats a missing or changed one as a change, derives the new key from
     (name, content hash) pairs (no cancellation), and returns the derived key when anything changed
"""
from vlib.facts import kids, strip, walk, is_call, call_args, call_object, callee, render, literal
from vlib.cfg import write_target
from vlib.work import AnalysisBroken

UNITS = ["src/core/device.cpp", "src/occa/internal/lang/preprocessor.cpp", "src/occa/internal/lang/parser.cpp",
         "src/occa/internal/lang/kernelMetadata.cpp", "src/occa/internal/core/device.cpp", "src/occa/internal/modes/serial/device.cpp",
         "src/occa/internal/modes/openmp/device.cpp"]
KEY = "kernel/dependencies"


def run(ctx):
    R = ctx.R
    prog = ctx.program(UNITS)
    R.explanation = ("Decides the structural chain behind header invalidation: every included file whose tokens enter the translation is recorded, the record reaches the build file under one key that both readers use, "
                     "the record is written before the binary is published, and the re-hash visits every recorded file and cannot cancel. Does not decide histories (that following the chain always ends at a fresh binary).")
    R.rule("C07-R1", "include: dependency recorded before the header's source is pushed", floor=2)
    R.rule("C07-R2", "dependency record flows intact into the build file and back", floor=7)
    R.rule("C07-R3", "dependency record written before the binary is published", floor=2)
    R.rule("C07-R4", "re-hash visits every dependency, detects missing/changed ones and derives a non-cancelling key; identity when nothing changed", floor=9)

    # ---- R1 --------------------------------------------------------------------------
    pi = prog.fn("occa::lang::preprocessor_t::processInclude")
    cfg = pi.cfg
    pushes = [c for c in pi.walk() if c["k"] == "CXXMemberCallExpr" and callee(c).endswith("::pushSource")]
    if not pushes:
        raise AnalysisBroken("processInclude: pushSource call vanished")
    for c in pushes:
        hv = strip(call_args(c)[0])
        recs = []
        for n in pi.walk():
            if n["k"] == "CXXOperatorCallExpr" and n.get("op") == "[]" and "dependencies" in render(kids(n)[1], False) and strip(kids(n)[2]).get("d") == hv.get("d"):
                par = pi.parent.get(n["i"])
                if par is not None and write_target(par) is not None:
                    recs.append(par)
            if n["k"] == "CXXMemberCallExpr" and callee(n).split("::")[-1] in ("insert", "emplace") and "dependencies" in render(call_object(n), False) and any(x.get("d") == hv.get("d") for x in walk(n)):
                recs.append(n)
        p = cfg.find_path((cfg.entry, -1), lambda b, i, e: e == c["i"], lambda b, i, e: any(e == r["i"] for r in recs))
        R.ob("C07-R1", p is None and bool(recs), pi.q, "record-before-push:%s" % render(c, False)[:60], pi.site(c),
             "every path to pushSource(header) records the same `header` in `dependencies`" if p is None and recs else
             "a header's tokens can enter the translation without the file being recorded as a dependency: later edits to it are never noticed", path=p)
        # the header is not reassigned between the record and the push
        defs = pi.local_defs().get(hv.get("d"), [])
        R.ob("C07-R1", len(defs) == 1, pi.q, "header:single definition", pi.site(c), "the recorded name and the pushed name are the same value (%d definition)" % len(defs))
    # ---- R2 --------------------------------------------------------------------------
    gd = prog.fn("occa::lang::preprocessor_t::getDependencyFilenames")
    ok = any(n["k"] == "WhileStmt" and "dependencies.end()" in render(kids(n)[0], False) for n in gd.walk()) and any("dependencies.begin()" in render(n, False) for n in gd.walk() if n["k"] == "VarDecl")
    R.ob("C07-R2", ok, gd.q, "all dependencies listed", "%s:%d" % (gd.relfile, gd.d["line"]), "iterates `dependencies` from begin() to end()")
    sm = prog.fn("occa::lang::parser_t::setSourceMetadata")
    loops = [n for n in sm.walk() if n["k"] == "ForStmt"]
    okl = False
    for lp in loops:
        body = kids(lp)[3]
        for n in walk(body):
            if n["k"] == "CXXOperatorCallExpr" and n.get("op") == "=" and "dependencyHashes[" in render(kids(n)[1], False):
                rhs = strip(kids(n)[2])
                key = render(kids(strip(kids(n)[1]))[2], False)
                if is_call(rhs) and callee(rhs) == "occa::hashFile" and render(call_args(rhs)[0], False) == key and "dependencyCount" in render(kids(lp)[1], False):
                    okl = True
    cnt = [n for n in sm.walk() if n["k"] == "VarDecl" and n["n"] == "dependencyCount" and "dependencies.size()" in render(n, False)]
    src = [n for n in sm.walk() if n["k"] == "VarDecl" and n["n"] == "dependencies" and "getDependencyFilenames" in render(n, False)]
    R.ob("C07-R2", okl and bool(cnt) and bool(src), sm.q, "every dependency hashed under its own name", "%s:%d" % (sm.relfile, sm.d["line"]), "for i in [0, dependencies.size()): dependencyHashes[dep] = hashFile(dep)")
    gj = prog.fn("occa::lang::sourceMetadata_t::getDependencyJson")
    ok = any(n["k"] == "WhileStmt" and "dependencyHashes.end()" in render(kids(n)[0], False) for n in gj.walk()) and \
        any(c["k"] == "CXXMemberCallExpr" and callee(c).startswith("occa::json::set") and "first" in render(call_args(c)[0], False) and "getFullString" in render(call_args(c)[1], False) for c in gj.walk())
    R.ob("C07-R2", ok, gj.q, "every entry emitted as name -> full hash string", "%s:%d" % (gj.relfile, gj.d["line"]), "iterates all of dependencyHashes and stores the full (lossless) string")
    wk = prog.fn("occa::modeDevice_t::writeKernelBuildFile")
    ok = False
    for n in wk.walk():
        if n["k"] == "CXXOperatorCallExpr" and n.get("op") == "=" and len(kids(n)) == 3:
            lhs = strip(kids(n)[1])
            if lhs["k"] == "CXXOperatorCallExpr" and lhs.get("op") == "[]" and literal(kids(lhs)[2]) == KEY and "getDependencyJson" in render(kids(n)[2], False):
                ok = True
    R.ob("C07-R2", ok, wk.q, "written under %r" % KEY, "%s:%d" % (wk.relfile, wk.d["line"]), "build file stores the dependency record")
    ok = any(is_call(c) and callee(c) == "occa::io::writeBuildFile" for c in wk.walk())
    R.ob("C07-R2", ok, wk.q, "published via io::writeBuildFile", "%s:%d" % (wk.relfile, wk.d["line"]), "goes through the staged writer (C08)")
    ad = prog.fn("occa::device::applyDependencyHash")
    fb = prog.fn("occa::lang::sourceMetadata_t::fromBuildFile")
    for f in (ad, fb):
        lits = [literal(kids(n)[2]) for n in f.walk() if n["k"] == "CXXOperatorCallExpr" and n.get("op") == "[]" and isinstance(literal(kids(n)[2]), str)]
        R.ob("C07-R2", KEY in lits, f.q, "reads %r" % KEY, "%s:%d" % (f.relfile, f.d["line"]), "reader uses the writer's key (keys read: %s)" % sorted(set(lits)))
    bf = [render(n, False) for n in ad.walk() if n["k"] == "VarDecl" and n["n"] == "buildFile"]
    R.ob("C07-R2", bool(bf) and "occa::kc::buildFile" in bf[0] and "hashDir" in bf[0], ad.q, "reads hashDir(kernelHash) + kc::buildFile", "%s:%d" % (ad.relfile, ad.d["line"]), "looks for the build file where the build writes it")

    # ---- R3 --------------------------------------------------------------------------
    for q in ("occa::serial::device::buildKernel",):
        fs = [f for f in prog.fns(q) if len(f.d["params"]) == 5]
        if len(fs) != 1:
            raise AnalysisBroken(q + " vanished")
        f = fs[0]
        c = f.cfg
        wkc = [n for n in f.walk() if is_call(n) and callee(n) == "occa::modeDevice_t::writeKernelBuildFile"]
        pfc = [n for n in f.walk() if is_call(n) and callee(n).endswith("::parseFile")]
        stages = []
        for s in f.calls({"occa::io::stageFile", "occa::io::stageFiles"}):
            for x in walk(call_args(s)[2]):
                if x["k"] == "LambdaExpr" and x["lam"] in prog.funcs and any(True for _ in prog.funcs[x["lam"]].calls({"occa::sys::call", "system", "popen"})):
                    stages.append(s)
        if not (wkc and pfc and stages):
            raise AnalysisBroken("%s: parse / build-file / compile steps not found" % q)
        p = c.find_path(c.position(pfc[0]), lambda b, i, e: e == stages[0]["i"], lambda b, i, e: any(e == w["i"] for w in wkc))
        R.ob("C07-R3", p is None, f.q, "parse -> writeKernelBuildFile -> compile", f.site(pfc[0]),
             "a parsed OKL kernel's dependency record is written before its binary is published" if p is None else
             "a binary can be published without its dependency record: it can never be invalidated", path=p)
        a = call_args(wkc[0])
        R.ob("C07-R3", "metadata" in render(a[3], False) and "kernelHash" in render(a[1], False), f.q, "record:metadata of this parse, keyed by this hash", f.site(wkc[0]), "writeKernelBuildFile(%s)" % ", ".join(render(x, False)[:30] for x in a))
    pf = prog.fn("occa::serial::device::parseFile")
    sm_calls = [c for c in pf.walk() if is_call(c) and callee(c) == "occa::lang::parser_t::setSourceMetadata"]
    rets_true = [r for r in pf.walk() if r["k"] == "ReturnStmt" and literal(kids(r)[0]) is True]
    ok = len(sm_calls) == 1 and all(pf.cfg.before(sm_calls[0], r) for r in rets_true) and bool(rets_true)
    R.ob("C07-R3", ok, pf.q, "metadata filled on success", pf.site(sm_calls[0]) if sm_calls else pf.relfile, "every successful parse fills the source metadata (incl. dependency hashes)")

    # ---- R4 --------------------------------------------------------------------------
    cfg = ad.cfg
    IN = cfg.facts_in()
    loops = [n for n in ad.walk() if n["k"] == "WhileStmt"]
    ok = len(loops) == 1 and "dependencyHashes.end()" in render(kids(loops[0])[0], False) and any(n["k"] == "VarDecl" and "dependencyHashes.begin()" in render(n, False) for n in ad.walk())
    R.ob("C07-R4", ok, ad.q, "visits every recorded dependency", ad.site(loops[0]) if loops else ad.relfile, "loop from begin() to end() of the recorded dependencies")
    flag = [n for n in ad.walk() if n["k"] == "VarDecl" and f"{n['n']}".lower().startswith("found")]
    fd = flag[0]["d"] if flag else None
    sets = [n for n in ad.walk() if write_target(n) is not None and strip(write_target(n)).get("d") == fd and literal(kids(n)[1]) is True]
    conds = set()
    for n in sets:
        for (k, pol) in cfg.facts_at(n, IN):
            if "dependencyHash" in k and "newDependencyHash" in k and not pol:
                conds.add("changed")
            if "exists" in k and not pol:
                conds.add("missing")
    R.ob("C07-R4", conds == {"changed", "missing"}, ad.q, "change detection: hash differs or file missing", ad.site(sets[0]) if sets else ad.relfile, "flag set when %s" % sorted(conds))
    # fold: each component mixes the name with the content hash
    folds = [n for n in ad.walk() if n["k"] == "CXXOperatorCallExpr" and n.get("op") == "^=" and "newKernelHash" in render(kids(n)[1], False)]
    for n in folds:
        rhs = kids(n)[2]
        names = {x.get("n") for x in walk(rhs) if x["k"] == "DeclRefExpr"}
        hashed = any(is_call(x) and callee(x) == "occa::hash" for x in walk(rhs))
        ok = hashed and "dependency" in names and "newDependencyHash" in names
        R.ob("C07-R4", ok, ad.q, "fold:%s" % render(rhs, False)[:70], ad.site(n),
             "each component is a hash over (file name, content hash): equal-content files cannot cancel" if ok else
             "bare content hashes are xor-folded: two dependencies with identical contents cancel out, so editing both identically yields the same key (and this function then recurses forever)")
    R.ob("C07-R4", len(folds) == 1, ad.q, "fold:once per existing dependency", ad.relfile, "%d fold statement(s)" % len(folds))
    rec = [c for c in ad.walk() if is_call(c) and callee(c) == "occa::device::applyDependencyHash"]
    okr = False
    for c in rec:
        fs = cfg.facts_at(c, IN)
        okr = any(pol and k.split("#")[0].lower().startswith("found") for (k, pol) in fs) and "newKernelHash" in render(call_args(c)[0], False)
        par = ad.parent.get(c["i"])
        while par is not None and par["k"] != "ReturnStmt":
            par = ad.parent.get(par["i"])
        okr = okr and par is not None
    R.ob("C07-R4", okr, ad.q, "changed -> return applyDependencyHash(derived key)", ad.site(rec[0]) if rec else ad.relfile, "on a change the derived key is followed (and its own record checked)")
    # nothing changed -> the key is the one that was passed in (a stable fixed point: identical builds resolve to the same entry, C06)
    pk = ad.d["params"][0]["d"]
    n_id = 0
    for r in ad.walk():
        if r["k"] != "ReturnStmt" or not kids(r):
            continue
        e = strip(kids(r)[0])
        while e["k"] in ("CXXConstructExpr", "ImplicitCastExpr", "MaterializeTemporaryExpr", "CXXBindTemporaryExpr") and kids(e):
            e = strip(kids(e)[0])
        if is_call(e) and callee(e) == ad.q:
            continue       # the recursive return, checked above
        n_id += 1
        ok = e["k"] == "DeclRefExpr" and e.get("d") == pk
        R.ob("C07-R4", ok, ad.q, "unchanged -> returns the key it was given", ad.site(r),
             "identity on every path without a detected change" if ok else
             "a path without a detected change returns `%s` instead of the key it was given: the first build of a configuration (no record yet) and every later identical build use different keys, "
             "so identical builds do not resolve to one cache entry" % render(e, False)[:40])
    if n_id < 2:
        raise AnalysisBroken("applyDependencyHash: non-recursive returns not found")
    ski = prog.fn("occa::device::setupKernelInfo")
    asg = [n for n in ski.walk() if n["k"] == "CXXOperatorCallExpr" and n.get("op") == "=" and render(kids(n)[1], False) == "kernelHash"]
    ok = bool(asg) and is_call(strip(kids(asg[-1])[2])) and callee(strip(kids(asg[-1])[2])) == "occa::device::applyDependencyHash"
    R.ob("C07-R4", ok, ski.q, "final key passes applyDependencyHash", ski.site(asg[-1]) if asg else ski.relfile, "the key used for the cache directory is the dependency-checked one")


META = {
    "technique": "must-pass-through on processInclude's CFG; table/flow agreement of the dependency record across writer and readers (key literals, loop coverage); ordering via path search in the Serial build; shape of the re-hash fold (domain separation)",
    "level": "Static decision of the chain include -> dependency record -> build file -> re-hash: no header's tokens enter a translation unrecorded (all paths of processInclude), every recorded file is hashed and emitted, writer and "
             "both readers agree on the key, the record is written before the binary is published, and the re-hash visits every recorded file, flags changed or missing ones and derives the new key from (name, content) pairs. "
             "Holds for every edit history's individual step; tests never edit a header between builds.",
    "note": "Does not decide that following the chain terminates at a binary built from the current contents (history-level); kernels built with okl/enabled=false have no dependency record (outside the statement's OKL scope).",
}
