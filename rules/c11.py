"""C11 - dtype and kernel-metadata JSON serialisation round-trips (structural clauses).

 R1  key tables: keys the reader reads are keys the paired writer writes; every written key is read (or listed as informative);
     the `type` tags the dispatcher accepts equal the tags the writers emit
 R2  field completeness: every tag branch of dtype_t::fromJson leaves bytes_ assigned
 R3  struct/union writers emit fields in declaration order (fieldNames), never in map order
"""
from vlib.facts import noid, kids, strip, walk, is_call, call_args, call_object, callee, render, literal
from vlib.cfg import write_target
from vlib.work import AnalysisBroken

UNITS = ["src/dtype/dtype.cpp", "src/occa/internal/lang/kernelMetadata.cpp", "src/occa/internal/core/device.cpp"]


def json_keys(f):
    """literal keys used with json operator[] / has / get / set in f: {key: [(mode, node)]}, mode in {'w','r'}"""
    out = {}
    for n in f.walk():
        lit = None
        mode = None
        if n["k"] == "CXXOperatorCallExpr" and n.get("op") == "[]" and callee(n).startswith("occa::json::operator[]"):
            lit = literal(kids(n)[2])
            # written when it is the target of an assignment / asArray()/asObject() / += ; read otherwise
            par = f.parent.get(n["i"])
            while par is not None and par["k"] in ("ImplicitCastExpr", "MemberExpr"):
                par = f.parent.get(par["i"])
            mode = "r"
            if par is not None:
                if par["k"] == "CXXOperatorCallExpr" and par.get("op") in ("=", "+=") and strip(kids(par)[1]) is n:
                    mode = "w"
                elif par["k"] == "CXXMemberCallExpr" and callee(par).split("::")[-1] in ("asArray", "asObject", "set"):
                    mode = "w"
                elif par["k"] == "CallExpr" and callee(par).endswith("setBuildProps"):
                    mode = "w"
        elif n["k"] == "CXXMemberCallExpr" and callee(n) in ("occa::json::has",) and call_args(n):
            lit = literal(call_args(n)[0])
            mode = "r"
        elif n["k"] == "CXXMemberCallExpr" and callee(n).startswith("occa::json::get") and call_args(n):
            lit = literal(call_args(n)[0])
            mode = "r"
        if isinstance(lit, str) and mode:
            out.setdefault(lit, []).append((mode, n))
    return out


def run(ctx):
    R = ctx.R
    prog = ctx.program(UNITS, thorough_all=False)
    R.explanation = ("Decides writer/reader agreement of the JSON key and tag tables for dtype_t, its enum/struct/tuple/union parts, argMetadata_t, kernelMetadata_t and the build file's metadata keys, "
                     "completeness of the fields dtype_t::fromJson assigns per tag, and declaration-order emission of struct/union fields.")
    R.rule("C11-R1", "writer/reader JSON key and tag tables agree", floor=30)
    R.rule("C11-R6", "matches(other): what is looked up under the other operand's field name is looked up in the other operand's table", floor=2)
    R.rule("C11-R2", "every tag branch of dtype_t::fromJson assigns the byte size", floor=6)
    R.rule("C11-R3", "struct/union fields are written in declaration order", floor=2)
    R.rule("C11-R5", "a dtype_t method that resolves its reference (self()) reads every data field through the resolved object", floor=15)
    R.rule("C11-R4", "argument metadata: each JSON key is written from and restored into the same field", floor=4)

    D = "occa::"
    pairs = [
        ("dtype_t", [D + "dtype_t::toJson"], [D + "dtype_t::fromJson"], set()),
        ("dtypeEnum_t", [D + "dtypeEnum_t::toJson"], [D + "dtypeEnum_t::fromJson"], {"type", "name"}),
        ("dtypeStruct_t", [D + "dtypeStruct_t::toJson"], [D + "dtypeStruct_t::fromJson"], {"type", "name"}),
        ("dtypeTuple_t", [D + "dtypeTuple_t::toJson"], [D + "dtypeTuple_t::fromJson"], {"type", "name"}),
        ("dtypeUnion_t", [D + "dtypeUnion_t::toJson"], [D + "dtypeUnion_t::fromJson"], {"type", "name"}),
        ("argMetadata_t", [D + "lang::argMetadata_t::toJson"], [D + "lang::argMetadata_t::fromJson"], set()),
        ("kernelMetadata_t", [D + "lang::kernelMetadata_t::toJson"], [D + "lang::kernelMetadata_t::fromJson"], set()),
    ]
    tags_written = {}
    for name, ws, rs, informative in pairs:
        wk, rk = {}, {}
        wf = []
        for q in ws:
            for f in prog.fns(q):
                if "json &" in f.d["sig"] or f.d["sig"].startswith("occa::json ()") or "const std::string &) const" in f.d["sig"]:
                    wf.append(f)
        rf = [f for q in rs for f in prog.fns(q) if "const occa::json &" in f.d["sig"]]
        if not wf or not rf:
            raise AnalysisBroken("C11: codec pair %s vanished (%d writers, %d readers)" % (name, len(wf), len(rf)))
        for f in wf:
            for k, v in json_keys(f).items():
                if any(m == "w" for m, _ in v):
                    wk.setdefault(k, []).append((f, v[0][1]))
                # tag literal
                if k == "type":
                    for m, n in v:
                        par = f.parent.get(n["i"])
                        while par is not None and not (par["k"] == "CXXOperatorCallExpr" and par.get("op") == "="):
                            par = f.parent.get(par["i"])
                        if par is not None:
                            t = literal(kids(par)[2])
                            if isinstance(t, str):
                                tags_written[t] = (f, n)
        for f in rf:
            for k, v in json_keys(f).items():
                if any(m == "r" for m, _ in v):
                    rk.setdefault(k, []).append((f, v[0][1]))
        for k, occ in sorted(rk.items()):
            f, n = occ[0]
            ok = k in wk or (name != "dtype_t" and k in ("type", "name") and False)
            R.ob("C11-R1", ok, f.q, "%s:reads[%s]" % (name, k), f.site(n),
                 "key is written by %s" % "/".join(x.q.split("::")[-2] + "::toJson" for x, _ in wk.get(k, [])) if ok else
                 "the reader expects key %r, which the paired writer never writes" % k)
        for k, occ in sorted(wk.items()):
            f, n = occ[0]
            ok = k in rk or k in informative
            R.ob("C11-R1", ok, f.q, "%s:writes[%s]" % (name, k), f.site(n),
                 "key is read back" + (" (by the dispatcher dtype_t::fromJson)" if k in informative and k not in rk else "") if ok else
                 "the writer stores %r but no reader restores it: the value is lost in the round trip" % k)
    # tag dispatch
    fj = [f for f in prog.fns(D + "dtype_t::fromJson") if "const occa::json &" in f.d["sig"]][0]
    tags_read = {}
    for n in fj.walk():
        if n["k"] == "CXXOperatorCallExpr" and n.get("op") == "==":
            for x in kids(n)[1:]:
                t = literal(x)
                if isinstance(t, str):
                    tags_read[t] = n
    for t in sorted(set(tags_written) | set(tags_read)):
        ok = t in tags_written and t in tags_read
        site = fj.site(tags_read[t]) if t in tags_read else tags_written[t][0].site(tags_written[t][1])
        R.ob("C11-R1", ok, fj.q, "tag:%s" % t, site, "tag is written and dispatched on" if ok else
             ("a writer emits type=%r but dtype_t::fromJson does not accept it" % t if t in tags_written else "dtype_t::fromJson accepts type=%r that no writer emits" % t))
    R.ob("C11-R1", {"builtin", "custom", "enum", "struct", "tuple", "union"} <= set(tags_read), fj.q, "tags:six kinds", "%s:%d" % (fj.relfile, fj.d["line"]), "dispatcher covers %s" % sorted(tags_read))
    # the dispatcher rejects unknown tags
    R.ob("C11-R1", any(is_call(c) and callee(c) == "occa::error" for c in fj.walk()), fj.q, "tags:unknown rejected", "%s:%d" % (fj.relfile, fj.d["line"]), "an unknown tag raises")

    # build-file keys
    wkb = prog.fn("occa::modeDevice_t::writeKernelBuildFile")
    fb = prog.fn("occa::lang::sourceMetadata_t::fromBuildFile")
    wk = {k for k, v in json_keys(wkb).items() if any(m == "w" for m, _ in v)}
    for k, v in sorted(json_keys(fb).items()):
        ok = k in wk
        R.ob("C11-R1", ok, fb.q, "buildfile:reads[%s]" % k, fb.site(v[0][1]), "written by writeKernelBuildFile" if ok else "build file key %r is read but never written" % k)

    # ---- R2 -----------------------------------------------------------------------
    branches = {}
    for n in fj.walk():
        if n["k"] == "IfStmt":
            c = strip(kids(n)[0])
            if c["k"] == "CXXOperatorCallExpr" and c.get("op") == "==":
                t = [literal(x) for x in kids(c)[1:] if isinstance(literal(x), str)]
                if t:
                    branches[t[0]] = kids(n)[1]
    for t, body in sorted(branches.items()):
        ok = False
        for x in walk(body):
            tg = write_target(x)
            if tg is not None:
                s = render(strip(tg), False)
                if s.endswith(".bytes_") or s == "dtype":
                    ok = True
        R.ob("C11-R2", ok, fj.q, "branch:%s assigns bytes_" % t, fj.site(body),
             "byte size restored" if ok else "a %s read back from JSON keeps bytes() == 0 (the branch sets only the kind pointer)" % t)
    if len(branches) < 6:
        raise AnalysisBroken("dtype_t::fromJson: only %d tag branches found" % len(branches))
    # a composite built with addField and one read back from JSON must account their members the same way
    def accumulation(nodes):
        out = set()
        for x in nodes:
            tg = write_target(x)
            if tg is None or not render(strip(tg), False).endswith("bytes_"):
                continue
            if x["k"] == "CompoundAssignOperator" and x.get("op") == "+=":
                out.add("sum of the members")
            elif any(is_call(c) and (callee(c) or "").endswith("std::max") for c in walk(kids(x)[1])):
                out.add("maximum of the members")
            else:
                out.add("assignment")
        return out
    af = prog.fn("occa::dtype_t::addField")
    un_if = [n for n in af.walk() if n["k"] == "IfStmt" and "union_" in render(kids(n)[0], False) and len(kids(n)) >= 3 and "bytes_" in render(kids(n)[1], False)]
    if len(un_if) != 1:
        raise AnalysisBroken("dtype_t::addField: union / struct branches not found")
    built = {"union": accumulation(walk(kids(un_if[0])[1])), "struct": accumulation(walk(kids(un_if[0])[2]))}
    for kind in ("struct", "union"):
        if kind not in branches:
            raise AnalysisBroken("dtype_t::fromJson: no %s branch" % kind)
        read = accumulation(walk(branches[kind]))
        ok = bool(read) and read == built[kind]
        R.ob("C11-R2", ok, fj.q, "branch:%s accounts its members like addField" % kind, fj.site(branches[kind]),
             "both: %s" % ", ".join(sorted(read)) if ok else
             "fromJson computes the size of a %s as the %s, addField as the %s: a %s extended with addField changes its bytes() when it goes through toJson / fromJson" %
             (kind, "/".join(sorted(read)) or "?", "/".join(sorted(built[kind])) or "?", kind))

    # every composite writes its own kind tag on every path: a reader can only restore the kind it is told
    for cls in ("dtypeStruct_t", "dtypeUnion_t", "dtypeTuple_t"):
        f = [x for x in prog.fns(D + cls + "::toJson")][0]
        tagw = [n for (m_, n) in json_keys(f).get("type", []) if m_ == "w"]
        if not tagw:
            R.ob("C11-R1", False, f.q, "tag:written on every path", "%s:%d" % (f.relfile, f.d["line"]), "the kind tag is never written")
            continue
        stmt = tagw[0]
        for a_ in f.ancestors(tagw[0]):
            if a_["k"] == "CXXOperatorCallExpr" and a_.get("op") == "=":
                stmt = a_
                break
        pth = f.cfg.find_path((f.cfg.entry, 0), "exit", lambda b, i, e: e == stmt["i"] or e == tagw[0]["i"], start_after=False)
        R.ob("C11-R1", pth is None, f.q, "tag:written on every path", f.site(stmt),
             "no exit without j[\"type\"]" if pth is None else
             "a path leaves %s::toJson without writing its kind tag (the value is written as something else): fromJson restores another kind - tuple(T, 1) comes back as T" % cls, path=pth)

    # ---- R6: structural equality of composites (what a user compares a round-tripped dtype with) -------------------------------------------
    for cls in ("dtypeStruct_t", "dtypeUnion_t"):
        ms = [x for x in prog.fns(D + cls + "::matches")]
        if len(ms) != 1:
            raise AnalysisBroken("%s::matches vanished" % cls)
        f = ms[0]
        oth = f.d["params"][0]["d"]
        defs = f.local_defs()
        def rooted_in_other(e, depth=0):
            """does the expression read from the `other` parameter (through local definitions)?"""
            for x in walk(e):
                if x["k"] == "DeclRefExpr" and x.get("d") == oth:
                    return True
                if x["k"] == "DeclRefExpr" and x.get("loc") and depth < 3:
                    for dn in defs.get(x["d"], []):
                        if dn["k"] == "VarDecl" and kids(dn) and rooted_in_other(kids(dn)[0], depth + 1):
                            return True
            return False
        finds = [c for c in f.walk() if c["k"] == "CXXMemberCallExpr" and callee(c).split("::")[-1] in ("find", "at", "operator[]") and call_object(c) is not None and "fieldTypes" in render(call_object(c), False)]
        n_o = 0
        for c in finds:
            key_other = rooted_in_other(call_args(c)[0]) if call_args(c) else False
            tab_other = rooted_in_other(call_object(c))
            if key_other:
                n_o += 1
            ok = key_other == tab_other
            R.ob("C11-R6", ok, f.q, "lookup:%s" % noid(render(c, False))[:70], f.site(c),
                 "name and table belong to the same operand" if ok else
                 "a field name of one operand is looked up in the field table of the other: both field types come from the same struct, so dtypes with equal field names and different field types match")
        if n_o < 1:
            R.ob("C11-R6", False, f.q, "lookup:the other operand's field types are compared", "%s:%d" % (f.relfile, f.d["line"]), "no lookup is made with a field name of `other`")

    # ---- R3 -----------------------------------------------------------------------
    for cls in ("dtypeStruct_t", "dtypeUnion_t"):
        f = [x for x in prog.fns(D + cls + "::toJson")][0]
        uses_names = any(n["k"] == "MemberExpr" and n.get("n", "").endswith("::fieldNames") for n in f.walk())
        iter_map = any((n["k"] == "CXXMemberCallExpr" and callee(n).split("::")[-1] in ("begin", "cbegin", "rbegin") and "fieldTypes" in render(call_object(n), False)) or
                       (n["k"] == "CXXForRangeStmt" and "fieldTypes" in render(kids(n)[0], False)) for n in f.walk())
        ok = uses_names and not iter_map
        R.ob("C11-R3", ok, f.q, "order:fieldNames", "%s:%d" % (f.relfile, f.d["line"]),
             "fields emitted by walking fieldNames (declaration order); the map is only looked up" if ok else "fields are emitted in map (sorted) order: field order is not preserved")

    # ---- R4 -----------------------------------------------------------------------
    A = "occa::lang::argMetadata_t"
    w = prog.fn(A + "::toJson")
    r = prog.fn(A + "::fromJson")
    key2field_w = {}
    for n in w.walk():
        if n["k"] == "CXXOperatorCallExpr" and n.get("op") == "=" and len(kids(n)) == 3:
            lhs = strip(kids(n)[1])
            if lhs["k"] == "CXXOperatorCallExpr" and lhs.get("op") == "[]":
                k = literal(kids(lhs)[2])
                flds = [x["n"].split("::")[-1] for x in walk(kids(n)[2]) if x["k"] == "MemberExpr" and x.get("fcls") == A]
                if isinstance(k, str) and flds:
                    key2field_w[k] = flds[0]
    ctor = [f for f in prog.fns(A + "::argMetadata_t") if len(f.d["params"]) == 4]
    if len(ctor) != 1:
        raise AnalysisBroken("argMetadata_t 4-argument constructor vanished")
    ctor = ctor[0]
    pidx = {p["d"]: i for i, p in enumerate(ctor.d["params"])}
    field_of_param = {}
    for i in ctor.d.get("inits", ()):
        for x in walk(i["e"]):
            if x["k"] == "DeclRefExpr" and x.get("d") in pidx and i.get("fname"):
                field_of_param[pidx[x["d"]]] = i["fname"]
    key2field_r = {}
    for n in r.walk():
        if n["k"] in ("CXXConstructExpr", "CXXTemporaryObjectExpr") and callee(n) == A + "::argMetadata_t" and len(kids(n)) == 4:
            for i, a in enumerate(kids(n)):
                for x in walk(a):
                    if x["k"] == "CXXOperatorCallExpr" and x.get("op") == "[]" and isinstance(literal(kids(x)[2]), str):
                        key2field_r[literal(kids(x)[2])] = field_of_param.get(i)
    for k in sorted(set(key2field_w) | set(key2field_r)):
        ok = key2field_w.get(k) is not None and key2field_w.get(k) == key2field_r.get(k)
        R.ob("C11-R4", ok, A, "key:%s <-> field" % k, "%s:%d" % (r.relfile, r.d["line"]),
             "written from and restored into %s" % key2field_w.get(k) if ok else "key %r is written from field %s but restored into field %s" % (k, key2field_w.get(k), key2field_r.get(k)))

    # ---- R5: a dtype_t may be a reference to a registered dtype (ref != NULL); its own fields are then empty (bytes_ == 0, no name) ---------
    FIELDS = {"occa::dtype_t::" + x for x in ("name_", "bytes_", "registered", "enum_", "struct_", "tuple_", "union_")}
    n5 = 0
    for f in prog.funcs.values():
        if f.d.get("tmpl") == "inst" or not f.q.startswith("occa::dtype_t::") or f.d.get("kind") in ("ctor", "dtor"):
            continue
        uses_self = [c for c in f.walk() if is_call(c) and callee(c) == "occa::dtype_t::self" and (call_object(c) is None or strip(call_object(c))["k"] == "CXXThisExpr")]
        if not uses_self:
            continue
        n5 += 1
        raw = [n for n in f.walk() if n["k"] == "MemberExpr" and n.get("n") in FIELDS and kids(n) and strip(kids(n)[0])["k"] == "CXXThisExpr"]
        # reads guarded by `ref` being null are reads of the object itself
        cfg = f.cfg
        IN = cfg.facts_in()
        bad = [n for n in raw if not any((not pol) and noid(k).replace(" ", "") in ("this->ref", "(this->ref!=NULL)") or (pol and noid(k).replace(" ", "") in ("(!this->ref)", "(this->ref==NULL)", "(this->ref==nullptr)", "(this->ref==0)")) for (k, pol) in cfg.facts_at(n, IN))]
        R.ob("C11-R5", not bad, f.q + " " + f.d["sig"][:40], "fields read through self()", f.site(bad[0]) if bad else "%s:%d" % (f.relfile, f.d["line"]),
             "all data fields are taken from the resolved dtype" if not bad else
             "`%s` is read from the reference object itself although the method resolves self(): a dtype held by reference (copy, struct field, tuple element, kernel argument) has bytes_ == 0 / no name of its own, "
             "so it serialises with the wrong size" % bad[0]["n"].split("::")[-1])
    if n5 < 15:
        raise AnalysisBroken("dtype_t: only %d methods resolve self()" % n5)


META = {
    "technique": "table agreement: JSON key literals and type-tag literals extracted from resolved json::operator[]/has/get calls of each writer/reader pair; branch-completeness of field assignments; iteration-source facts",
    "level": "Static decision that for each of the seven codec pairs the reader's key set is included in the writer's and every written key is restored, that the six type tags written are exactly those dispatched on "
             "(unknown tags raise), that every tag branch of dtype_t::fromJson restores the byte size and accounts struct / union members the way addField does, that build-file metadata keys agree, and that struct/union fields are emitted in declaration order. "
             "Quantifies over all dtypes because it checks the codec tables, not sampled values.",
    "note": "Does not decide equality of reconstructed values (e.g. that sizes computed from components equal the original for every nesting), nor cast compatibility after the round trip.",
}
