"""C16 - the OKL front end reports malformed input instead of crashing (necessary structural clauses).

 R1  throw discipline: every throw in the front end throws occa::exception; no abort/exit/terminate/assert
 R2  macro recursion guard: a macro is expanded only while it is not being expanded; the record is made before its tokens re-enter the
     input and erased only at the expansion's end token
 S*  shared clauses with a concrete crashing input when broken:
     cursor never passes the terminating NUL (C12-R1), no std::string(nullptr) (C12-R2), #elif/#if conditions that C skips are not
     evaluated (C13-R1), && || ?: skip their dead operand (C14-R1), integer division by zero raises (C14-R5), no backend transform runs on an
     unvalidated kernel (C22-R1)
"""
import os

from vlib.facts import is_null_const, kids, strip, walk, is_call, call_args, call_object, callee, render, literal, noid
from vlib.cfg import write_target
from vlib.refile import refile
from vlib.work import AnalysisBroken
from rules import c12, c13, c14, c22

UNITS = ["src/occa/internal/lang/preprocessor.cpp", "src/occa/internal/lang/parser.cpp", "src/occa/internal/lang/tokenizer.cpp", "src/occa/internal/lang/macro.cpp",
         "src/occa/internal/lang/expr/expressionParser.cpp", "src/occa/internal/lang/modes/okl.cpp", "src/occa/internal/lang/modes/withLauncher.cpp",
         "src/occa/internal/lang/modes/serial.cpp", "src/occa/internal/lang/builtins/attributes/tile.cpp", "src/occa/internal/lang/tokenContext.cpp",
         "src/utils/logging.cpp", "src/types/primitive.cpp", "src/types/json.cpp"]
PP = "occa::lang::preprocessor_t::"
FORBIDDEN = {"abort", "exit", "_exit", "quick_exit", "std::terminate", "std::abort", "std::exit", "__assert_fail", "raise"}


NULL_LOCAL_EXCEPTIONS = {
    ("occa::lang::parser_t::loadNamespaceStatement", "currentSmnt"):
        "assigned in the first iteration of a loop over `names`, which holds at least one entry: the name loop above pushes a name before it can break",
}
DIM_ARRAYS = {"kernelInnerDims", "knownInnerDims", "maxInnerDims"}


def front_end_nulls(ctx, R):
    """R3 / R4 / R5 over every unit of the OKL front end"""
    import glob
    from vlib import work
    units = sorted(os.path.relpath(p, work.REPO) for p in glob.glob(work.REPO + "/src/occa/internal/lang/**/*.cpp", recursive=True))
    if len(units) < 100:
        raise AnalysisBroken("front end: only %d units under src/occa/internal/lang" % len(units))
    prog = ctx.program(units, thorough_all=False)
    R.analysed["front_end_units"] = len(units)
    mine = [f for f in prog.funcs.values() if f.d.get("tmpl") != "inst" and f.d["file"].startswith(work.REPO)]

    def derefs_of(f, d):
        out = []
        for n in f.walk():
            if n["k"] == "MemberExpr" and n.get("arrow") and kids(n) and strip(kids(n)[0])["k"] == "DeclRefExpr" and strip(kids(n)[0]).get("d") == d:
                out.append(n)
            elif n["k"] == "UnaryOperator" and n.get("op") == "*" and strip(kids(n)[0])["k"] == "DeclRefExpr" and strip(kids(n)[0]).get("d") == d:
                out.append(n)
        return out

    def writes_of(f, d):
        w = set()
        for dn in f.local_defs().get(d, []):
            if dn["k"] != "VarDecl":
                w.add(dn["i"])
        for n in f.walk():
            if n["k"] == "UnaryOperator" and n.get("op") == "&" and strip(kids(n)[0]).get("d") == d:
                w.add(n["i"])
            if is_call(n):
                for a in kids(n):
                    if a["k"] == "DeclRefExpr" and a.get("d") == d:      # bound to a reference parameter
                        w.add(n["i"])
        return w

    def nonnull_known(name, facts):
        for (k, pol) in facts:
            kk = noid(k).replace(" ", "")
            if (kk == name and pol) or (kk in ("(%s==NULL)" % name, "(%s==nullptr)" % name, "(%s==0)" % name, "(NULL==%s)" % name) and not pol):
                return True
        return False

    def unguarded_deref(f, v, start=None):
        """(deref node, path) reachable from the function entry (or `start`) with v possibly null, or None"""
        cfg = f.cfg
        w = writes_of(f, v["d"])
        for dr in derefs_of(f, v["d"]):
            r = cfg.find_feasible_path(start or (cfg.entry, -1), lambda b, i, e, dr=dr: e == dr["i"], lambda b, i, e: isinstance(e, int) and e in w, null_inits=True, want_facts=True)
            if r is None:
                continue
            p, facts = r
            if not nonnull_known(v["n"], set(facts) | cfg.path_edge_facts(p)):
                return dr, p
        return None

    # ---- R3 -----------------------------------------------------------------------------------------------------------------
    for f in mine:
        for v in f.walk():
            if not (v["k"] == "VarDecl" and "*" in f.tname(v.get("t")) and kids(v) and is_null_const(kids(v)[0])):
                continue
            hit = unguarded_deref(f, v)
            exc = NULL_LOCAL_EXCEPTIONS.get((f.q, v["n"]))
            if hit is not None and exc:
                R.ob("C16-R3", True, f.q, "null-init local %s (tabled)" % v["n"], f.site(hit[0]), exc, nontrivial=False)
                continue
            R.ob("C16-R3", hit is None, f.q, "null-init local %s" % v["n"], f.site(hit[0]) if hit else f.site(v),
                 "every dereference is reached only after an assignment or a non-null test" if hit is None else
                 "`%s` is initialised with NULL and can reach this dereference without being assigned (e.g. a search loop that finds nothing): malformed input crashes the translator" % v["n"], path=hit[1] if hit else None)

    # ---- R4 -----------------------------------------------------------------------------------------------------------------
    nullable = {}
    for f in mine:
        if not f.d["sig"].split("(")[0].strip().endswith("*"):
            continue
        for n in f.walk():
            if n["k"] == "ReturnStmt" and kids(n) and is_null_const(kids(n)[0]):
                par = f.parent.get(n["i"])
                sibs = list(kids(par)) if par is not None else []
                idx = [i for i, s_ in enumerate(sibs) if s_["i"] == n["i"]]
                txt = " ".join(noid(render(s_, False)) for s_ in (sibs[:idx[0]] if idx else [])[-3:])
                if "printError" in txt or "success = false" in txt or "errorOn" in txt:
                    nullable[f.q] = "reports an error and returns NULL"
    changed = True
    while changed:
        changed = False
        for f in mine:
            if f.q in nullable or not f.d["sig"].split("(")[0].strip().endswith("*"):
                continue
            for n in f.walk():
                if n["k"] == "ReturnStmt" and kids(n) and is_call(strip(kids(n)[0])) and callee(strip(kids(n)[0])) in nullable:
                    nullable[f.q] = "forwards %s" % callee(strip(kids(n)[0])).split("::")[-1]
                    changed = True
                    break
    # optional accessors: a virtual method whose base implementation is just `return NULL` ("this kind of node has none")
    overridden = {o for g in mine for o in (g.d.get("overrides") or ())}
    for f in mine:
        body = f.d.get("body")
        if f.q in nullable or body is None or not f.d["sig"].split("(")[0].strip().endswith("*") or f.q not in overridden:
            continue
        st = [x for x in kids(body) if x["k"] != "NullStmt"]
        if len(st) == 1 and st[0]["k"] == "ReturnStmt" and kids(st[0]) and is_null_const(kids(st[0])[0]) and not f.d["params"]:
            nullable[f.q] = "optional accessor: the base implementation returns NULL"
            for g in prog.overriders(f.q):
                nullable.setdefault(g.q, "overrides optional accessor %s" % f.q.split("::")[-1])
    R.analysed["error_signalling_nullable_producers"] = sorted(nullable)
    STORED_NULL_OK = {
        "occa::lang::preprocessor_t::addCompilerDefine": "stored in the macro map; getMacro() hands NULL out as 'no such macro' and every reader tests it",
        "occa::lang::preprocessor_t::addSourceDefine": "stored in the macro map; getMacro() hands NULL out as 'no such macro' and every reader tests it",
    }
    n4 = 0
    for f in mine:
        for c in f.walk():
            if not (is_call(c) and callee(c) in nullable):
                continue
            par = f.parent.get(c["i"])
            while par is not None and par["k"] in ("ImplicitCastExpr", "ParenExpr", "CStyleCastExpr", "ExprWithCleanups", "CXXStaticCastExpr", "ConditionalOperator"):
                par = f.parent.get(par["i"])
            if par is None or par["k"] == "ReturnStmt":
                continue       # forwarded: the caller's call site is checked instead
            n4 += 1
            key = "use of %s()" % callee(c).split("::")[-1]
            if f.q in STORED_NULL_OK:
                R.ob("C16-R4", True, f.q, key + " (tabled)", f.site(c), STORED_NULL_OK[f.q], nontrivial=False)
                continue
            ok, why = False, "the result is used directly"
            if (par["k"] == "UnaryOperator" and par.get("op") == "*") or (par["k"] == "MemberExpr" and par.get("arrow")):
                why = "the result of %s() is dereferenced at once" % callee(c).split("::")[-1]
            if par["k"] == "VarDecl":
                hit = unguarded_deref(f, par, start=f.cfg.position(par))
                tested = any(noid(render(x, False)).replace(" ", "") in ("(!%s)" % par["n"], "(!(!%s))" % par["n"]) or
                             (x["k"] == "BinaryOperator" and x.get("op") in ("==", "!=") and par["n"] in noid(render(x, False)) and any(is_null_const(y) for y in kids(x)))
                             for x in f.walk() if x["k"] in ("UnaryOperator", "BinaryOperator")) or any(strip(kids(x)[0]).get("d") == par["d"] for x in f.walk() if x["k"] in ("IfStmt", "WhileStmt") and kids(x) and strip(kids(x)[0])["k"] == "DeclRefExpr")
                tests = [x for x in f.walk() if (x["k"] == "UnaryOperator" and x.get("op") == "!" and strip(kids(x)[0]).get("d") == par["d"] and strip(kids(x)[0])["k"] == "DeclRefExpr") or
                         (x["k"] == "BinaryOperator" and x.get("op") in ("==", "!=") and any(strip(y).get("d") == par["d"] for y in kids(x)) and any(is_null_const(y) for y in kids(x))) or
                         (x["k"] in ("IfStmt", "WhileStmt") and kids(x) and strip(kids(x)[0])["k"] == "DeclRefExpr" and strip(kids(x)[0]).get("d") == par["d"]) or
                         (x["k"] == "ImplicitCastExpr" and x.get("ck") == "PointerToBoolean" and strip(x)["k"] == "DeclRefExpr" and strip(x).get("d") == par["d"])]
                ds_ = derefs_of(f, par["d"])
                # discipline: the result is null-tested, and a test precedes every dereference (the branch correlation behind `bool err = !p` is not tracked)
                ok = bool(tests) and all(any(f.cfg.before(t_ if t_["k"] not in ("IfStmt", "WhileStmt") else kids(t_)[0], d_) for t_ in tests) for d_ in ds_)
                if hit is None and tests:
                    ok = True
                why = "local `%s` is tested before every dereference" % par["n"] if ok else "local `%s` can be dereferenced or stored while NULL" % par["n"]
            elif par["k"] in ("BinaryOperator", "CXXOperatorCallExpr") and par.get("op") == "=":
                tgt = noid(render(strip(kids(par)[0] if par["k"] == "BinaryOperator" else kids(par)[1]), False))
                # the first later mention of the target must be a null test (`!!t`, `!t`, `t == NULL`, `if (t)`)
                cfg = f.cfg

                def top(e, f=f, cfg=cfg):
                    """the element is a whole statement / condition, not a sub-expression of another element"""
                    if not isinstance(e, int) or f.nodes.get(e) is None:
                        return False
                    return not any(a["i"] in cfg.pos for a in f.ancestors(f.nodes[e]) if a["k"] not in ("CompoundStmt", "IfStmt", "ForStmt", "WhileStmt", "DoStmt", "SwitchStmt", "CaseStmt", "DefaultStmt", "CXXForRangeStmt"))
                first_bad = cfg.find_path(cfg.position(par),
                                          lambda b, i, e, f=f, tgt=tgt: top(e) and _mentions_untested(f, f.nodes[e], tgt),
                                          lambda b, i, e, f=f, tgt=tgt: top(e) and _is_null_test(f, f.nodes[e], tgt))
                ok = first_bad is None
                why = "`%s` is null-tested before its first use" % tgt if ok else "`%s` is used before it is tested: a failed parse leaves NULL there" % tgt
            R.ob("C16-R4", ok, f.q, key, f.site(c),
                 why if ok else why + " - the callee has already reported the error, but this loader's own error flag does not know: `@tile(+, @outer, @inner)` / `__attribute__((2 *)) int y;` crash with SIGSEGV")
    if n4 < 6:
        raise AnalysisBroken("only %d uses of error-signalling nullable producers found" % n4)

    # ---- R6: statement context pairing ----------------------------------------------------------------------------------------------
    PUSH, POP = "occa::lang::statementContext_t::pushUp", "occa::lang::statementContext_t::popUp"
    for f in mine:
        evs = {c["i"]: (1 if callee(c) == PUSH else -1) for c in f.walk() if is_call(c) and callee(c) in (PUSH, POP)}
        if not evs or f.q in (PUSH, POP):
            continue
        cfg = f.cfg
        seen = set()
        work = [(cfg.entry, 0, (cfg.entry,))]
        bad = None
        exits = set()
        while work and bad is None:
            b, d, path = work.pop()
            if (b, d) in seen:
                continue
            seen.add((b, d))
            blk = cfg.blocks[b]
            for e in blk.elems:
                if isinstance(e, int) and e in evs:
                    d += evs[e]
            if d < -1 or d > 4:
                continue
            if b == cfg.exit or (not [s_ for s_ in blk.succs if s_ is not None] and not blk.noret):
                exits.add(d)
                continue
            # a path that hands a statement back (any return other than `return NULL`): parsing goes on, the context must be as it was found.
            # Error returns stop the parse (loadAllStatements ends at !success), an unbalanced context there is never consulted again.
            rets = [f.nodes.get(e) for e in blk.elems if isinstance(e, int) and f.nodes.get(e) is not None and f.nodes[e]["k"] == "ReturnStmt"]
            if rets and d != 0 and bad is None:
                r_ = rets[-1]
                if not (kids(r_) and is_null_const(kids(r_)[0])) and f.d["sig"].split("(")[0].strip() not in ("void",) or (not kids(r_) and len(evs) and d != 0 and False):
                    bad = (d, list(path))
            for s_ in blk.succs:
                if s_ is None or (s_ == cfg.exit and blk.noret):
                    continue
                work.append((s_, d, path + (s_,)))
        npush = sum(1 for v in evs.values() if v == 1)
        ok = bad is None
        R.ob("C16-R6", ok, f.q, "context depth 0 wherever a statement is handed back (%d push, %d pop)" % (npush, len(evs) - npush), "%s:%d" % (f.relfile, f.d["line"]),
             "every path pops what it pushed" if ok else
             "a path returns with the statement context %s: every enclosing popUp() then restores the wrong parent, which later dangles or makes the up-chain cyclic "
             "(`if (b) { do { a--; } while (--a); } a--;` crashed the parser)" % ("still pushed (depth %+d)" % bad[0] if bad[0] > 0 else "popped once too often"), path=bad[1] if bad else None)

    # ---- R7: for (j ...) delete v[i]; ---------------------------------------------------------------------------------------------------
    for f in mine:
        for lp in f.walk():
            if lp["k"] != "ForStmt" or lp.get("mac"):
                continue
            changed = set()
            for w in walk(lp):
                t = write_target(w)
                if t is not None and strip(t)["k"] == "DeclRefExpr":
                    changed.add(strip(t).get("d"))
            body = kids(lp)[-1]
            for dl in walk(body):
                if dl["k"] != "CXXDeleteExpr":
                    continue
                inner = [a for a in f.ancestors(dl) if a["k"] in ("ForStmt", "WhileStmt", "DoStmt", "CXXForRangeStmt")]
                if not inner or inner[0]["i"] != lp["i"]:
                    continue
                # executed more than once only if control can come back to it without leaving the loop
                cfg = f.cfg
                pd = cfg.position(dl)
                if pd is None or cfg.find_path(pd, lambda b, i, e, dl=dl: e == dl["i"], lambda b, i, e: False) is None:
                    continue
                used = {x.get("d") for x in walk(dl) if x["k"] == "DeclRefExpr"}
                declared_inside = {v["d"] for v in walk(body) if v["k"] == "VarDecl"}
                if used & declared_inside:
                    used |= changed           # a per-iteration local (reference / pointer taken inside the body)
                # a local declared inside the body and initialised from a changing variable counts too
                for v in walk(body):
                    if v["k"] == "VarDecl" and v["d"] in used and any(x["k"] == "DeclRefExpr" and x.get("d") in changed for x in walk(v)):
                        used |= changed
                ok = bool(used & changed)
                R.ob("C16-R7", ok, f.q, "delete %s" % noid(render(kids(dl)[0], False))[:40], f.site(dl),
                     "a different object on every iteration" if ok else
                     "the loop deletes the same object on every iteration (the operand does not depend on anything the loop changes): double free / use-after-free "
                     "(`#define X # y` crashed in macro_t::stringifyMacroTokens)")

    # ---- R8: who deletes macros ------------------------------------------------------------------------------------------------------------
    n8 = 0
    for f in mine:
        if not f.q.startswith("occa::lang::preprocessor_t::"):
            continue
        for dl in f.walk():
            if dl["k"] != "CXXDeleteExpr" or "macro_t" not in f.type(strip(kids(dl)[0])):
                continue
            n8 += 1
            op = strip(kids(dl)[0])
            txt = noid(render(op, False))
            ok, why = False, "the operand is not an entry of a macro map"
            if is_call(op) and callee(op).endswith("::getMacro"):
                # delete getMacro(k) is the entry it->second when `it = M.find(k)` found k in the map getMacro consults first
                key = noid(render(call_args(op)[0], False))
                cfg = f.cfg
                fs_ = {(noid(k), pol) for (k, pol) in cfg.facts_at(dl)}
                its = [v for v in f.walk() if v["k"] in ("VarDecl", "BinaryOperator", "CXXOperatorCallExpr") and "sourceMacros.find(%s)" % key in noid(render(v, False))]
                found = any((not pol) and "sourceMacros.end()" in k and "==" in k for (k, pol) in fs_) or any(pol and "sourceMacros.end()" in k and "!=" in k for (k, pol) in fs_)
                erases = [c for c in f.walk() if is_call(c) and callee(c).endswith("::erase") and "sourceMacros" in noid(render(call_object(c), False))]
                if its and found and erases and cfg.find_path(cfg.position(dl), "exit", lambda b, i, e: any(e == c["i"] for c in erases)) is None:
                    ok, why = True, "the macro found in sourceMacros (which getMacro consults first) is deleted and its entry erased"
            if op["k"] == "MemberExpr" and op.get("n", "").endswith("::second"):
                itv = [x for x in walk(op) if x["k"] == "DeclRefExpr" and x.get("loc")]
                if itv:
                    d_it = itv[0]["d"]
                    cfg = f.cfg
                    erases = [c for c in f.walk() if is_call(c) and callee(c).split("::")[-1] in ("erase", "clear") and
                              (any(x["k"] == "DeclRefExpr" and x.get("d") == d_it for x in walk(c)) or callee(c).endswith("::clear"))]
                    p = cfg.find_path(cfg.position(dl), "exit", lambda b, i, e: any(e == c["i"] for c in erases))
                    ok = p is None
                    why = "the entry is erased (or its map cleared) on every path after the delete" if ok else "a path leaves the deleted macro's entry in its map: the next lookup returns a dangling pointer"
            R.ob("C16-R8", ok, f.q, "delete %s" % txt[:40], f.site(dl),
                 why if ok else why + " (`#undef __OKL__` deleted a predefined macro found by getMacro() but erased the name only from sourceMacros; its next use crashed)")
    if n8 < 4:
        raise AnalysisBroken("preprocessor: only %d deletes of macro objects found" % n8)

    # ---- R9 -------------------------------------------------------------------------------------------------------------------------
    n9 = 0
    for f in mine:
        for c in f.walk():
            if is_call(c) and callee(c).split("::")[-1] in ("stoi", "stol", "stoll", "stoul", "stoull", "stof", "stod", "stold") and callee(c).startswith("std::"):
                n9 += 1
                guarded = any(a["k"] == "CXXTryStmt" for a in f.ancestors(c))
                R.ob("C16-R9", guarded, f.q, "%s(...) inside try" % callee(c).split("::")[-1], f.site(c),
                     "std::invalid_argument / std::out_of_range are caught" if guarded else
                     "a std:: exception leaves the translator (not an occa::exception): a huge @tile size made std::stoi throw std::out_of_range -> abort")
    if n9 < 2:
        raise AnalysisBroken("front end: only %d std::sto* calls found" % n9)

    # ---- R10 ------------------------------------------------------------------------------------------------------------------------
    TC = "occa::lang::tokenContext_t::"
    SAFE = {q for q in prog.by_q if q.startswith("occa::lang::token_t::safe")}
    # helpers that test the token under the cursor safely (e.g. variableLoader_t::hasArray)
    wrappers = set()
    for f in mine:
        body = f.d.get("body")
        if body is not None and len([x for x in walk(body) if is_call(x)]) <= 6 and any(is_call(x) and callee(x) in SAFE for x in walk(body)):
            wrappers.add(f.q)
    GUARD = SAFE | wrappers | {TC + "size", TC + "getClosingPair", TC + "getClosingPairToken", TC + "getNextOperator"}
    n10 = 0
    for f in mine:
        adv = [c for c in f.walk() if is_call(c) and callee(c) in (TC + "operator++", TC + "operator+=")]
        if not adv:
            continue
        cfg = f.cfg
        derefs = []
        for n in f.walk():
            if n["k"] == "MemberExpr" and n.get("arrow") and kids(n):
                b = strip(kids(n)[0])
                if is_call(b) and callee(b) == TC + "operator[]":
                    derefs.append((n, b))
        guards = [c for c in f.walk() if is_call(c) and callee(c) in GUARD]
        nulltests = [n for n in f.walk() if n["k"] == "ImplicitCastExpr" and n.get("ck") == "PointerToBoolean" and is_call(strip(n)) and callee(strip(n)) == TC + "operator[]"]
        gi = {g["i"] for g in guards} | {g["i"] for g in nulltests}
        ai = {a["i"] for a in adv}
        for a in adv:
            # a size test made before the advance (no other advance in between) bounds what is left after it
            pre = [g for g in guards if callee(g) == TC + "size" and cfg.before(g, a) and
                   cfg.find_path(cfg.position(g), lambda bb, i, e, a=a: e == a["i"], lambda bb, i, e, a=a: isinstance(e, int) and e in ai and e != a["i"]) is not None and
                   not any(cfg.before(g, a2) and cfg.before(a2, a) for a2 in adv if a2 is not a)]
            for (n, b) in derefs:
                n10 += 1
                p = cfg.find_path(cfg.position(a), lambda bb, i, e, b=b: e == b["i"], lambda bb, i, e, a=a: isinstance(e, int) and (e in gi or (e in ai and e != a["i"])))
                ok = p is None or bool(pre)
                R.ob("C16-R10", ok, f.q, "advance@%s then %s" % (f.site(a).split(":")[-1], noid(render(n, False))[:40]), f.site(n),
                     "a size / safe-type / NULL test lies between the advance and the dereference" if ok else
                     "the cursor advances and the token under it is dereferenced unconditionally: when the advance reaches the end of the tokens, tokenContext[0] is NULL "
                     "(a trailing `@`, `enum e { a, };` crashed this way)", path=None if ok else p)
    if n10 < 20:
        raise AnalysisBroken("front end: only %d advance/dereference pairs found" % n10)

    # ---- R11: ownership transfer -------------------------------------------------------------------------------------------------------
    n11 = 0
    for f in mine:
        sinks = [c for c in f.walk() if is_call(c) and callee(c).split("::")[-1] in ("pushOutput", "pushInput") and call_args(c)]
        if not sinks:
            continue
        cfg = f.cfg
        dels = [d_ for d_ in f.walk() if d_["k"] == "CXXDeleteExpr"]
        for c in sinks:
            a0 = strip(call_args(c)[0])
            while a0["k"] == "UnaryOperator" and a0.get("op") == "&":
                a0 = strip(kids(a0)[0])
            if a0["k"] != "DeclRefExpr":
                continue
            n11 += 1
            d_ = a0["d"]
            rel = [x for x in dels if any(y["k"] == "DeclRefExpr" and y.get("d") == d_ for y in walk(x))]
            writes = {w["i"] for w in f.local_defs().get(d_, []) if w["k"] != "VarDecl"}
            p = None
            for x in rel:
                p = cfg.find_path(cfg.position(c), lambda b, i, e, x=x: e == x["i"], lambda b, i, e: isinstance(e, int) and e in writes)
                if p is not None:
                    break
            R.ob("C16-R11", p is None, f.q, "%s(%s) not followed by delete" % (callee(c).split("::")[-1], a0.get("n")), f.site(c),
                 "the cache owns the token from here on" if p is None else
                 "the token is pushed into the cache and deleted on a later path: the cache keeps a dangling pointer (`#ifdef` without an identifier pushed the newline token and deleted it)", path=p)
    if n11 < 15:
        raise AnalysisBroken("front end: only %d cache hand-overs of a named token found" % n11)

    # ---- R12: macro_t::checkArgs is the only guard in front of macroArgument::expandArg's args[arg_] ------------------------------------------
    ca = prog.fn("occa::lang::macro_t::checkArgs")
    ccfg = ca.cfg
    CIN = ccfg.facts_in()
    defs = ca.local_defs()

    def resolve(e, depth=0):
        e = strip(e)
        while e["k"] in ("ParenExpr", "CStyleCastExpr", "ImplicitCastExpr") and kids(e):
            e = strip(kids(e)[0])
        if e["k"] == "DeclRefExpr" and e.get("loc") and depth < 4:
            ds = defs.get(e["d"], [])
            if len(ds) == 1 and ds[0]["k"] == "VarDecl" and kids(ds[0]):
                return resolve(kids(ds[0])[0], depth + 1)
        return e
    rets = [r for r in ca.walk() if r["k"] == "ReturnStmt" and kids(r) and literal(kids(r)[0]) is True]
    okc = bool(rets)
    for r in rets:
        good = False
        for (k, pol) in ccfg.facts_at(r, CIN):
            n_ = ccfg.fact_node((k, pol)) if (k, pol) in ccfg._factnode else None
            if n_ is None or n_["k"] != "BinaryOperator" or n_.get("op") not in ("<", ">=", ">", "<="):
                continue
            l_, r_ = resolve(kids(n_)[0]), resolve(kids(n_)[1])
            # normalise to  supplied < required  being false
            if n_["op"] in (">", "<="):
                l_, r_ = r_, l_
            supplied = is_call(l_) and callee(l_).endswith("::size")
            required = is_call(r_) and callee(r_) == "occa::lang::macro_t::argCount" and not call_args(r_)
            want_false = n_["op"] in ("<", ">")
            if supplied and required and (pol is not want_false):
                good = True
        okc = okc and good
    R.ob("C16-R12", okc, ca.q, "accepted only if args.size() >= argCount()", ca.site(rets[0]) if rets else ca.relfile,
         "every accepting return knows that no named parameter is missing" if okc else
         "a call with fewer arguments than named parameters can be accepted (the lower bound is not the bare argCount()): macroArgument::expandArg then reads args[arg_] past the end - "
         "`#define F(a, ...) a` / `F()` dereferences NULL in every translator")

    # ---- R5 -----------------------------------------------------------------------------------------------------------------
    okl = prog.fn("occa::lang::okl::pathHasValidOklLoopOrdering")
    limits = set()
    for n in okl.walk():
        if n["k"] == "BinaryOperator" and n.get("op") in (">", ">=") and isinstance(literal(kids(n)[1]), int):
            lim = literal(kids(n)[1]) + (0 if n["op"] == ">" else -1)
            limits.add((noid(render(kids(n)[0], False)), lim))
    depth_limit = min([l for (_, l) in limits], default=None)
    R.ob("C16-R5", len(limits) >= 2 and depth_limit is not None, okl.q, "validator bounds the @outer and @inner nesting depth", "%s:%d" % (okl.relfile, okl.d["line"]),
         "nesting depth limited to %s for %s" % (depth_limit, sorted(v for v, _ in limits)) if len(limits) >= 2 else "no depth limit on OKL loop nests")
    for f in mine:
        for n in f.walk():
            if n["k"] == "VarDecl" and n.get("n") in DIM_ARRAYS:
                t = f.tname(n.get("t"))
                size = int(t.split("[")[1].split("]")[0]) if "[" in t else None
                ok = size is not None and depth_limit is not None and size >= depth_limit
                R.ob("C16-R5", ok, f.q, "array %s[%s] >= validated nesting depth %s" % (n["n"], size, depth_limit), f.site(n),
                     "indexed by an OKL loop index < %s" % depth_limit if ok else "the array has fewer entries than loops may nest: a deeper nest writes past it")


def _is_null_test(f, n, tgt):
    for x in walk(n):
        t = noid(render(x, False)).replace(" ", "")
        g = tgt.replace(" ", "")
        if x["k"] == "UnaryOperator" and x.get("op") == "!" and t in ("(!%s)" % g, "(!(!%s))" % g):
            return True
        if x["k"] == "BinaryOperator" and x.get("op") in ("==", "!=") and g in t and any(is_null_const(y) for y in kids(x)):
            return True
    return False


def _mentions_untested(f, n, tgt):
    if _is_null_test(f, n, tgt):
        return False
    g = tgt.replace(" ", "")
    if n["k"] in ("BinaryOperator", "CXXOperatorCallExpr") and n.get("op") == "=":
        return False
    return any(noid(render(x, False)).replace(" ", "") == g for x in walk(n) if x["k"] in ("MemberExpr", "DeclRefExpr"))


def run(ctx):
    R = ctx.R
    prog = ctx.program(UNITS)
    R.explanation = ("All-inputs crash freedom of the ~15 kLoC front end is not provable by a static rule in reach. Decided instead: a set of necessary structural clauses, each with a concrete crashing or foreign-exception input when broken: "
                     "exception discipline, the macro recursion guard, and (shared) the tokenizer cursor typestate, null std::string returns, evaluation of skipped preprocessor conditions and operands, integer division by zero, and the "
                     "validation gate in front of every backend transform.")
    R.assumptions += ["memory exhaustion and unbounded recursion depth on pathologically nested input are out of scope of the structural clauses"]
    R.rule("C16-R1", "front end throws only occa::exception and never aborts the process", floor=3)
    R.rule("C16-R2", "macro expansion is guarded against re-entry", floor=5)
    R.rule("C16-R3", "a pointer local initialised with NULL is dereferenced only where an assignment or a non-null test reaches (whole front end)", floor=20)
    R.rule("C16-R4", "a NULL result that signals a reported error is tested (folded into the error state) before it is used", floor=8)
    R.rule("C16-R7", "a delete inside a counted loop selects its operand with a variable the loop changes", floor=10)
    R.rule("C16-R8", "a macro object is deleted only through the entry of the map that owns it, which is erased with it", floor=5)
    R.rule("C16-R9", "std::sto* conversions of user-controlled text run inside a try block (they throw std:: exceptions)", floor=2)
    R.rule("C16-R10", "after the token cursor advances, the token under it is dereferenced only behind a size / safe-type test (the advance may reach the end)", floor=20)
    R.rule("C16-R11", "a token handed to the input / output cache is not deleted afterwards by the function that handed it over", floor=15)
    R.rule("C16-R12", "a macro call is accepted only if it supplies every named parameter (expandArg indexes the argument vector unchecked)", floor=1)
    R.rule("C16-R6", "a parser function that pushes a statement context pops it on every path to a normal exit", floor=8)
    R.rule("C16-R5", "the three-entry dimension arrays are indexed by an OKL loop index that the validator bounds by 3", floor=4)

    # ---- R1 --------------------------------------------------------------------------
    n_throw = 0
    for f in prog.funcs.values():
        if f.d.get("tmpl") == "inst":
            continue
        in_scope = "/src/occa/internal/lang/" in f.d["file"] or "/src/types/" in f.d["file"] or f.d["file"].endswith("src/utils/logging.cpp")
        if not in_scope:
            continue
        for n in f.walk():
            if n["k"] == "CXXThrowExpr":
                n_throw += 1
                tt = f.tname(n.get("tt"))
                ok = tt in ("occa::exception", "exception") or not kids(n)
                R.ob("C16-R1", ok, f.q, "throw:%s" % (tt or "rethrow"), f.site(n), "occa::exception" if ok else "a foreign exception type escapes the front end")
            if is_call(n) and callee(n) in FORBIDDEN:
                R.ob("C16-R1", False, f.q, "call:%s" % callee(n), f.site(n), "the front end terminates the process instead of reporting an error")
    msg = prog.fn("occa::_message")
    cfg = msg.cfg
    th = [n for n in msg.walk() if n["k"] == "CXXThrowExpr"]
    ok = len(th) == 1 and any(pol and noid(k) == "exitInFailure" for (k, pol) in cfg.facts_at(th[0]))
    R.ob("C16-R1", ok, msg.q, "META-1: _message throws iff exitInFailure", msg.site(th[0]) if th else msg.relfile, "occa::error (exitInFailure=true) never returns; OCCA_ERROR guards rely on it")
    er = prog.fn("occa::error")
    c = [x for x in er.walk() if is_call(x) and callee(x) == "occa::_message"]
    ok = len(c) == 1 and literal(call_args(c[0])[1]) is True
    R.ob("C16-R1", ok, er.q, "META-1: occa::error calls _message(..., true, ...)", er.site(c[0]) if c else er.relfile, "the engine treats occa::error as noreturn")
    R.analysed["throw_expressions"] = n_throw

    # ---- R2 --------------------------------------------------------------------------
    pi = prog.fn(PP + "processIdentifier")
    cfg = pi.cfg
    IN = cfg.facts_in()
    ex = [c_ for c_ in pi.walk() if c_["k"] == "CXXMemberCallExpr" and callee(c_) == PP + "expandMacro"]
    if not ex:
        raise AnalysisBroken("processIdentifier: expandMacro calls vanished")
    for c_ in ex:
        fs = {(noid(k).replace(" ", ""), pol) for (k, pol) in cfg.facts_at(c_, IN)}
        notexp = any(pol and "this->expandedMacros.find(macro)==this->expandedMacros.end()" in k for (k, pol) in fs) or \
            any((not pol) and "this->expandedMacros.find(macro)!=this->expandedMacros.end()" in k for (k, pol) in fs) or \
            any((not pol) and "||" in k and "expandedMacros.find(macro)" in k for (k, pol) in fs)
        R.ob("C16-R2", notexp, pi.q, "expandMacro only for a macro not currently being expanded", pi.site(c_),
             "guarded by the membership test on expandedMacros" if notexp else "a macro can be expanded while it is already being expanded: `#define A A` never terminates")
        a = call_args(c_)
        R.ob("C16-R2", "macro" in noid(render(a[1], False)), pi.q, "the macro tested is the macro expanded", pi.site(c_), "same `macro` variable")
    callers = {f.q for f in prog.funcs.values() for c_ in f.walk() if c_["k"] == "CXXMemberCallExpr" and callee(c_) == PP + "expandMacro"}
    R.ob("C16-R2", callers == {pi.q}, PP + "expandMacro", "who-calls", "", "only processIdentifier expands macros: %s" % sorted(callers))
    em = prog.fn(PP + "expandMacro")
    ecfg = em.cfg
    rec = [n for n in em.walk() if write_target(n) is not None and "expandedMacros[(&macro)]" in noid(render(write_target(n), False)).replace(" ", "")]
    pushes = [c_ for c_ in em.walk() if c_["k"] == "CXXMemberCallExpr" and callee(c_).endswith("::pushInput")]
    ok = len(rec) == 1 and bool(pushes) and all(ecfg.before(rec[0], p_) for p_ in pushes)
    R.ob("C16-R2", ok, em.q, "macro recorded before its tokens re-enter the input", em.site(rec[0]) if rec else em.relfile, "every pushInput is dominated by expandedMacros[&macro] = true")
    endrec = [c_ for c_ in em.walk() if c_["k"] == "CXXMemberCallExpr" and callee(c_).endswith("::push_back") and "tokenMacros" in noid(render(call_object(c_), False))]
    ok = bool(endrec) and any("expandedMacroEnd[" in noid(render(n, False)) and "tokenCount - 1" in noid(render(n, False)) for n in em.walk() if n["k"] == "VarDecl")
    R.ob("C16-R2", ok, em.q, "release registered at the expansion's last token", em.site(endrec[0]) if endrec else em.relfile, "the macro is filed under the last token of its expansion")
    erasers = {f.q for f in prog.funcs.values() for c_ in f.walk() if c_["k"] == "CXXMemberCallExpr" and callee(c_).endswith("::erase") and call_object(c_) is not None and noid(render(call_object(c_), False)) == "this->expandedMacros"}
    R.ob("C16-R2", erasers == {PP + "clearExpandedMacros"}, PP + "expandedMacros", "who-erases", "", "the record is dropped only by clearExpandedMacros: %s" % sorted(erasers))

    # macros active when an expansion starts stay disabled until it ends (arguments are read through the processing path, which releases records)
    calls_exp = [c_ for c_ in em.walk() if is_call(c_) and callee(c_) == "occa::lang::macro_t::expand"]
    snap = None
    for n in em.walk():
        if n["k"] == "CXXMemberCallExpr" and callee(n).endswith("::push_back") and calls_exp:
            par = [a for a in em.ancestors(n) if a["k"] in ("ForStmt", "CXXForRangeStmt", "WhileStmt")]
            # a loop over expandedMacros that is entered before macro.expand() and copies its keys
            if par and "expandedMacros" in noid(render(par[0], False)) and ecfg.before(par[0], calls_exp[0]):
                snap = strip(call_object(n))
    rearm = None
    if snap is not None and snap["k"] == "DeclRefExpr":
        for n in em.walk():
            t_ = write_target(n)
            if t_ is not None and "this->expandedMacros[" in noid(render(t_, False)) and literal(kids(n)[-1]) is True and calls_exp and ecfg.before(calls_exp[0], n):
                loops = [a for a in em.ancestors(n) if a["k"] in ("ForStmt", "CXXForRangeStmt", "WhileStmt")]
                if loops and any(x["k"] == "DeclRefExpr" and x.get("d") == snap["d"] for x in walk(loops[0])):
                    fs_ = {(noid(k).replace(" ", ""), pol) for (k, pol) in ecfg.facts_at(n, ecfg.facts_in())}
                    if any("expandedMacros.find(" in k and "==this->expandedMacros.end()" in k and pol for (k, pol) in fs_) or any("expandedMacros.find(" in k and "!=" in k and not pol for (k, pol) in fs_):
                        rearm = n
    R.ob("C16-R2", snap is not None and rearm is not None, em.q, "macros active before the expansion are re-armed after the arguments were read", em.site(rearm) if rearm is not None else em.relfile,
         "expandedMacros is snapshotted before macro.expand() and every released entry is re-inserted (and filed under the new expansion's last token)" if rearm is not None else
         "reading the arguments of a function-like macro releases the enclosing macros (their last token is consumed as an argument) and nothing re-arms them: "
         "`#define F(x) G(x)` / `#define G(x) F(x)` / `F(1)` expands forever")

    # the look-ahead for `(` after a function-like macro name must not run the next token through the pipeline: a token that is processed
    # (expanded, end-of-expansion records released) and then pushed back is processed twice
    reent = [c_ for c_ in pi.walk() if c_["k"] == "CXXOperatorCallExpr" and c_.get("op") == ">>" and strip(kids(c_)[1])["k"] in ("UnaryOperator", "CXXThisExpr", "ParenExpr") and
             any(x["k"] == "CXXThisExpr" for x in walk(kids(c_)[1]))]
    reent += [c_ for c_ in pi.walk() if is_call(c_) and callee(c_) in (PP + "fetchNext", PP + "processToken")]
    pushes_back = [c_ for c_ in pi.walk() if is_call(c_) and callee(c_).endswith("::pushInput")]
    R.ob("C16-R2", not (reent and pushes_back), pi.q, "look-ahead inspects the next source token only", pi.site(reent[0]) if reent else "%s:%d" % (pi.relfile, pi.d["line"]),
         "the token that may be pushed back comes from getSourceToken(), unprocessed" if not (reent and pushes_back) else
         "the next token is pulled through the whole preprocessor and pushed back when it is not `(`: it is expanded twice and releases the macros being expanded - "
         "`#define F(x) x` / `#define A F A` / `A` prints `F F F ...` forever")

    # every arming of a macro is released again: the macro is filed under an end token on every path after it was armed
    arms = [n for n in em.walk() if write_target(n) is not None and "this->expandedMacros[" in noid(render(write_target(n), False)) and literal(kids(n)[-1]) is True]
    files = [c_ for c_ in em.walk() if is_call(c_) and callee(c_).endswith("::push_back") and call_object(c_) is not None and
             any(v_["k"] == "VarDecl" and "expandedMacroEnd[" in noid(render(v_, False)) and v_["d"] == strip(call_object(c_)).get("d") for v_ in em.walk())]
    for a_ in arms:
        key_ = noid(render(strip(write_target(a_)), False)).split("expandedMacros[", 1)[1].rsplit("]", 1)[0].strip("()& ")
        mine_ = [c_ for c_ in files if key_ in noid(render(call_args(c_)[0], False))]
        p_ = ecfg.find_path(ecfg.position(a_), "exit", lambda b, i, e: any(e == c_["i"] for c_ in mine_)) if mine_ else [0]
        R.ob("C16-R2", p_ is None, em.q, "armed macro %s is filed under an end token on every path" % key_, em.site(a_),
             "the re-entry record is always released at the end of the expansion" if p_ is None else
             "a path leaves expandMacro with `%s` disabled but not filed under any end token: the macro is never re-enabled and comes out as a plain identifier for the rest of the unit "
             "(`#define NOP(x)` / `#define F(x) x NOP(x)` / `F(1) F(2)` leaves the second F unexpanded)" % key_, path=None if p_ is None or p_ == [0] else p_)

    front_end_nulls(ctx, R)

    # ---- shared clauses ------------------------------------------------------------------
    refile(ctx, c12, {"C12-R1": "C16-S1", "C12-R2": "C16-S2", "C12-R5": "C16-S7", "C12-R6": "C16-S8"}, "C12")
    refile(ctx, c13, {"C13-R1": "C16-S3"}, "C13")
    refile(ctx, c14, {"C14-R1": "C16-S4", "C14-R5": "C16-S5"}, "C14")
    refile(ctx, c22, {"C22-R1": "C16-S6"}, "C22")


META = {
    "technique": "who-may-throw / forbidden-call query over the front end; guard dominance and must-precede for the macro re-entry protocol (incl. snapshot / re-arm around argument reads); null typestate of every NULL-initialised pointer local over the 145 front-end units (feasible-path search with null-initialiser facts); computed set of error-signalling nullable producers (closed under forwarding) and optional accessors with a tested-before-use check at every use; array extent vs validated nesting depth; re-filed typestate (tokenizer cursor), guard and control-dependence rules of C12, C13, C14, C22",
    "level": "PARTIAL by construction: crash freedom for every input is not decidable by a static rule within reach. Decided on all paths: the front end throws only occa::exception and never terminates the process; macro expansion cannot re-enter "
             "a macro being expanded, also not through the arguments of a function-like macro started inside its expansion; no NULL-initialised pointer local of the front end reaches a dereference unassigned; every NULL result that signals a reported error (13 uses of 30+ producers) is tested before use; the three-entry dimension arrays cover the validated nesting depth; the tokenizer never advances past the terminating NUL; no std::string is built from NULL; preprocessor conditions and operands that C skips are not evaluated; integer division by zero raises; no backend "
             "transform runs on an unvalidated kernel. Each clause has a concrete crashing or foreign-exception input when broken (thirteen such defects were found and repaired on the pinned tree).",
    "note": "NOT decided: null dereferences through members, parameters and container elements (only locals and producer results are tracked), out-of-range container accesses, foreign exceptions thrown by the standard library (std::stoi ...), or unbounded recursion in the ~15 kLoC parser/transform code in general. A pass here does not prove C16; a failure disproves it.",
}
