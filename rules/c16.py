"""C16 - the OKL front end reports malformed input instead of crashing (necessary structural clauses).

 R1  throw discipline: every throw in the front end throws occa::exception; no abort/exit/terminate/assert
 R2  macro recursion guard: a macro is expanded only while it is not being expanded; the record is made before its tokens re-enter the
     input and erased only at the expansion's end token
 S*  shared clauses with a concrete crashing input when broken:
     cursor never passes the terminating NUL (C12-R1), no std::string(nullptr) (C12-R2), #elif/#if conditions that C skips are not
     evaluated (C13-R1), && || ?: skip their dead operand (C14-R1), integer division by zero raises (C14-R5), no backend transform runs on an
     unvalidated kernel (C22-R1)
"""
from vlib.facts import kids, strip, walk, is_call, call_args, call_object, callee, render, literal, noid
from vlib.cfg import write_target
from vlib.refile import refile
from vlib.work import AnalysisBroken
from rules import c12, c13, c14, c22

UNITS = ["src/occa/internal/lang/preprocessor.cpp", "src/occa/internal/lang/parser.cpp", "src/occa/internal/lang/tokenizer.cpp", "src/occa/internal/lang/macro.cpp",
         "src/occa/internal/lang/expr/expressionParser.cpp", "src/occa/internal/lang/modes/okl.cpp", "src/occa/internal/lang/modes/withLauncher.cpp",
         "src/occa/internal/lang/modes/serial.cpp", "src/occa/internal/lang/builtins/attributes/tile.cpp", "src/occa/internal/lang/tokenContext.cpp",
         "src/utils/logging.cpp", "src/types/primitive.cpp", "src/types/json.cpp"]
PP = "occa::lang::preprocessor_t::"
FORBIDDEN = {"abort", "exit", "_exit", "quick_exit", "std::terminate", "std::abort", "std::exit", "__assert_fail", "raise"}


def run(ctx):
    R = ctx.R
    prog = ctx.program(UNITS)
    R.explanation = ("All-inputs crash freedom of the ~15 kLoC front end is not provable by a static rule in reach. Decided instead: a set of necessary structural clauses, each with a concrete crashing or foreign-exception input when broken: "
                     "exception discipline, the macro recursion guard, and (shared) the tokenizer cursor typestate, null std::string returns, evaluation of skipped preprocessor conditions and operands, integer division by zero, and the "
                     "validation gate in front of every backend transform.")
    R.assumptions += ["memory exhaustion and unbounded recursion depth on pathologically nested input are out of scope of the structural clauses"]
    R.rule("C16-R1", "front end throws only occa::exception and never aborts the process", floor=3)
    R.rule("C16-R2", "macro expansion is guarded against re-entry", floor=5)

    # ---- R1 --------------------------------------------------------------------------
    n_throw = 0
    for f in prog.funcs.values():
        if f.d.get("tmpl") == "inst":
            continue
        in_scope = "/src/occa/internal/lang/" in f.d["file"] or "/src/types/" in f.d["file"] or f.d["file"].endswith("src/utils/logging.cpp")
        if not in_scope:
            continue
        for n in f.walk():
            if n["k"] == "CXXThrowExpr":
                n_throw += 1
                tt = f.tname(n.get("tt"))
                ok = tt in ("occa::exception", "exception") or not kids(n)
                R.ob("C16-R1", ok, f.q, "throw:%s" % (tt or "rethrow"), f.site(n), "occa::exception" if ok else "a foreign exception type escapes the front end")
            if is_call(n) and callee(n) in FORBIDDEN:
                R.ob("C16-R1", False, f.q, "call:%s" % callee(n), f.site(n), "the front end terminates the process instead of reporting an error")
    msg = prog.fn("occa::_message")
    cfg = msg.cfg
    th = [n for n in msg.walk() if n["k"] == "CXXThrowExpr"]
    ok = len(th) == 1 and any(pol and noid(k) == "exitInFailure" for (k, pol) in cfg.facts_at(th[0]))
    R.ob("C16-R1", ok, msg.q, "META-1: _message throws iff exitInFailure", msg.site(th[0]) if th else msg.relfile, "occa::error (exitInFailure=true) never returns; OCCA_ERROR guards rely on it")
    er = prog.fn("occa::error")
    c = [x for x in er.walk() if is_call(x) and callee(x) == "occa::_message"]
    ok = len(c) == 1 and literal(call_args(c[0])[1]) is True
    R.ob("C16-R1", ok, er.q, "META-1: occa::error calls _message(..., true, ...)", er.site(c[0]) if c else er.relfile, "the engine treats occa::error as noreturn")
    R.analysed["throw_expressions"] = n_throw

    # ---- R2 --------------------------------------------------------------------------
    pi = prog.fn(PP + "processIdentifier")
    cfg = pi.cfg
    IN = cfg.facts_in()
    ex = [c_ for c_ in pi.walk() if c_["k"] == "CXXMemberCallExpr" and callee(c_) == PP + "expandMacro"]
    if not ex:
        raise AnalysisBroken("processIdentifier: expandMacro calls vanished")
    for c_ in ex:
        fs = {(noid(k).replace(" ", ""), pol) for (k, pol) in cfg.facts_at(c_, IN)}
        notexp = any(pol and "this->expandedMacros.find(macro)==this->expandedMacros.end()" in k for (k, pol) in fs) or \
            any((not pol) and "this->expandedMacros.find(macro)!=this->expandedMacros.end()" in k for (k, pol) in fs) or \
            any((not pol) and "||" in k and "expandedMacros.find(macro)" in k for (k, pol) in fs)
        R.ob("C16-R2", notexp, pi.q, "expandMacro only for a macro not currently being expanded", pi.site(c_),
             "guarded by the membership test on expandedMacros" if notexp else "a macro can be expanded while it is already being expanded: `#define A A` never terminates")
        a = call_args(c_)
        R.ob("C16-R2", "macro" in noid(render(a[1], False)), pi.q, "the macro tested is the macro expanded", pi.site(c_), "same `macro` variable")
    callers = {f.q for f in prog.funcs.values() for c_ in f.walk() if c_["k"] == "CXXMemberCallExpr" and callee(c_) == PP + "expandMacro"}
    R.ob("C16-R2", callers == {pi.q}, PP + "expandMacro", "who-calls", "", "only processIdentifier expands macros: %s" % sorted(callers))
    em = prog.fn(PP + "expandMacro")
    ecfg = em.cfg
    rec = [n for n in em.walk() if write_target(n) is not None and "expandedMacros[" in noid(render(write_target(n), False))]
    pushes = [c_ for c_ in em.walk() if c_["k"] == "CXXMemberCallExpr" and callee(c_).endswith("::pushInput")]
    ok = len(rec) == 1 and bool(pushes) and all(ecfg.before(rec[0], p_) for p_ in pushes)
    R.ob("C16-R2", ok, em.q, "macro recorded before its tokens re-enter the input", em.site(rec[0]) if rec else em.relfile, "every pushInput is dominated by expandedMacros[&macro] = true")
    endrec = [c_ for c_ in em.walk() if c_["k"] == "CXXMemberCallExpr" and callee(c_).endswith("::push_back") and "tokenMacros" in noid(render(call_object(c_), False))]
    ok = bool(endrec) and any("expandedMacroEnd[" in noid(render(n, False)) and "tokenCount - 1" in noid(render(n, False)) for n in em.walk() if n["k"] == "VarDecl")
    R.ob("C16-R2", ok, em.q, "release registered at the expansion's last token", em.site(endrec[0]) if endrec else em.relfile, "the macro is filed under the last token of its expansion")
    erasers = {f.q for f in prog.funcs.values() for c_ in f.walk() if c_["k"] == "CXXMemberCallExpr" and callee(c_).endswith("::erase") and call_object(c_) is not None and noid(render(call_object(c_), False)) == "this->expandedMacros"}
    R.ob("C16-R2", erasers == {PP + "clearExpandedMacros"}, PP + "expandedMacros", "who-erases", "", "the record is dropped only by clearExpandedMacros: %s" % sorted(erasers))

    # ---- shared clauses ------------------------------------------------------------------
    refile(ctx, c12, {"C12-R1": "C16-S1", "C12-R2": "C16-S2"}, "C12")
    refile(ctx, c13, {"C13-R1": "C16-S3"}, "C13")
    refile(ctx, c14, {"C14-R1": "C16-S4", "C14-R5": "C16-S5"}, "C14")
    refile(ctx, c22, {"C22-R1": "C16-S6"}, "C22")


META = {
    "technique": "who-may-throw / forbidden-call query over the front end; guard dominance and must-precede for the macro re-entry protocol; re-filed typestate (tokenizer cursor), guard and control-dependence rules of C12, C13, C14, C22",
    "level": "PARTIAL by construction: crash freedom for every input is not decidable by a static rule within reach. Decided on all paths: the front end throws only occa::exception and never terminates the process; macro expansion cannot re-enter "
             "a macro being expanded; the tokenizer never advances past the terminating NUL; no std::string is built from NULL; preprocessor conditions and operands that C skips are not evaluated; integer division by zero raises; no backend "
             "transform runs on an unvalidated kernel. Each clause has a concrete crashing or foreign-exception input when broken (seven such defects were found and repaired on the pinned tree).",
    "note": "NOT decided: absence of null dereferences, out-of-range container accesses or unbounded recursion in the ~15 kLoC parser/transform code in general. A pass here does not prove C16; a failure disproves it.",
}
