"""C25 - JSON path access and merging follow nested-dictionary semantics (structural clauses).

 R1  all path walkers split the path with the same tokeniser call
 R2  read-side walkers are pure: const, no const_cast, children looked up with find() never with map::operator[]
 R3  the writing operator[] creates missing intermediates as objects and errors on a non-object intermediate
 R4  merge recurses only when both sides are objects, otherwise the right-hand value is assigned
"""
from vlib.facts import noid, kids, strip, walk, is_call, call_args, call_object, callee, render, literal
from vlib.cfg import write_target
from vlib.work import AnalysisBroken

UNITS = ["src/types/json.cpp"]
J = "occa::json::"


def run(ctx):
    R = ctx.R
    prog = ctx.program(UNITS, thorough_all=False)
    R.explanation = ("Decides sibling agreement of the five path walkers on path tokenisation, purity of the read-side walkers, creation of intermediates by the writer and the shape of the recursive merge.")
    R.rule("C25-R1", "path walkers tokenise with the same call (separator and escape character)", floor=5)
    R.rule("C25-R2", "read-side walkers are const and look children up with find()", floor=8)
    R.rule("C25-R3", "writing operator[] creates intermediates as objects, errors on non-object intermediates", floor=3)
    R.rule("C25-R4", "merge: recurse iff both are objects, else right-hand side wins", floor=3)
    R.rule("C25-R6", "json copy assignment reads its argument completely before it changes the destination (the argument may be a child of the destination)", floor=2)
    R.rule("C25-R7", "a literal map key is never handed to the path API (which splits on '/')", floor=2)
    R.rule("C25-R5", "walkers descend only into objects: every children-map access through the walking pointer is guarded by type == object_ on that pointer", floor=10)

    walkers = {
        "has": prog.fn(J + "has"),
        "operator[] (write)": [f for f in prog.fns(J + "operator[]") if "const char *" in f.d["sig"] and not f.d.get("const")][0],
        "operator[] (read)": [f for f in prog.fns(J + "operator[]") if "const char *" in f.d["sig"] and f.d.get("const")][0],
        "getPathValue": prog.fn(J + "getPathValue"),
        "remove": prog.fn(J + "remove", sig="const char *"),
    }
    sigs = {}
    for name, f in walkers.items():
        cs = [c for c in f.walk() if is_call(c) and callee(c) == "occa::lex::skipTo"]
        if len(cs) != 1:
            raise AnalysisBroken("%s: expected one lex::skipTo call, found %d" % (f.q, len(cs)))
        a = call_args(cs[0])
        sigs[name] = (tuple(literal(x) for x in a[1:]), f, cs[0])
    # majority form
    from collections import Counter
    maj = Counter(s[0] for s in sigs.values()).most_common(1)[0][0]
    for name, (sg, f, c) in sigs.items():
        ok = sg == maj and len(sg) == 2 and sg[0] == ord("/")
        R.ob("C25-R1", ok, "%s %s" % (f.q, f.d["sig"]), "tokenise:skipTo%s" % (tuple(chr(x) if isinstance(x, int) else x for x in sg),), f.site(c),
             "same separator and escape as the other walkers" if ok else
             "splits the path differently from the other accessors %s: a key containing an escaped separator is found by them but not here" % (tuple(chr(x) for x in maj),))

    # ---- R2 --------------------------------------------------------------------------
    readers = ["has", "operator[] (read)", "getPathValue"]
    for name in readers:
        f = walkers[name]
        fname = "%s %s" % (f.q, f.d["sig"])
        R.ob("C25-R2", bool(f.d.get("const")), fname, "const", "%s:%d" % (f.relfile, f.d["line"]), "declared const", nontrivial=False)
        cc = [n for n in f.walk() if n["k"] == "CXXConstCastExpr"]
        R.ob("C25-R2", not cc, fname, "no const_cast", "%s:%d" % (f.relfile, f.d["line"]), "no const_cast")
        idx = [n for n in f.walk() if n["k"] == "CXXOperatorCallExpr" and n.get("op") == "[]" and callee(n).startswith("std::map")]
        finds = [n for n in f.walk() if n["k"] == "CXXMemberCallExpr" and callee(n).startswith("std::map") and callee(n).endswith("::find")]
        ok = not idx and len(finds) == 1
        R.ob("C25-R2", ok, fname, "lookup:find", "%s:%d" % (f.relfile, f.d["line"]),
             "children looked up with find() (no insertion)" if ok else "a read walks the object with std::map::operator[], which inserts missing keys")
        # missing path -> returns without writing
        ws = [n for n in f.walk() if write_target(n) is not None and strip(write_target(n))["k"] == "MemberExpr"]
        R.ob("C25-R2", not ws, fname, "no member writes", "%s:%d" % (f.relfile, f.d["line"]), "no write to any member on the read path")
    # remove() is a writer, but only of the entry it names: walking to it must not create anything
    rmv = walkers["remove"]
    rname = "%s %s" % (rmv.q, rmv.d["sig"])
    idx = [n for n in rmv.walk() if n["k"] == "CXXOperatorCallExpr" and n.get("op") == "[]" and callee(n).startswith("std::map")]
    R.ob("C25-R2", not idx, rname, "lookup:find (remove creates nothing)", rmv.site(idx[0]) if idx else "%s:%d" % (rmv.relfile, rmv.d["line"]),
         "children looked up with find() / erased, never indexed" if not idx else
         "remove() walks the object with std::map::operator[], which inserts a missing key: j.remove(\"x/y\") on an object without \"x\" leaves a phantom \"x\" behind (has(\"x\") becomes true, size() grows, += copies it)")
    # get<T> goes through getPathValue (header template): checked on the pattern if present
    gets = [f for f in prog.fns(J + "get", tmpl="pattern")]
    for f in gets:
        if "const char *" in f.d["sig"]:
            ok = any(is_call(c) and (callee(c) == J + "getPathValue" or "getPathValue" in render(c, False)) for c in f.walk())
            R.ob("C25-R2", ok, "%s %s" % (f.q, f.d["sig"]), "get:via getPathValue", "%s:%d" % (f.relfile, f.d["line"]), "get<T>() reads through the pure walker")

    # ---- R3 --------------------------------------------------------------------------
    w = walkers["operator[] (write)"]
    fname = "%s %s" % (w.q, w.d["sig"])
    cfg = w.cfg
    IN = cfg.facts_in()
    idx = [n for n in w.walk() if n["k"] == "CXXOperatorCallExpr" and n.get("op") == "[]" and callee(n).startswith("std::map")]
    R.ob("C25-R3", len(idx) == 1, fname, "descend:map[]", "%s:%d" % (w.relfile, w.d["line"]), "descends with map::operator[] (creates the child)")
    if idx:
        fs = cfg.facts_at(idx[0], IN)
        ok = any(pol and "->type == " in k and "object_" in k for (k, pol) in fs)
        R.ob("C25-R3", ok, fname, "guard:intermediate is object", w.site(idx[0]),
             "a non-object intermediate raises before descending" if ok else "descends into a non-object value (would read the wrong union member)")
    # created child of kind none_ becomes an object
    mk = [n for n in w.walk() if write_target(n) is not None and render(strip(write_target(n)), False).endswith("->type") and "object_" in render(kids(n)[1], False)]
    okmk = False
    for n in mk:
        fs = cfg.facts_at(n, IN)
        if any(pol and "->type == " in k and "none_" in k for (k, pol) in fs):
            okmk = True
    R.ob("C25-R3", okmk, fname, "create:none_ -> object_", "%s:%d" % (w.relfile, w.d["line"]), "a freshly created intermediate (none_) is turned into an object")

    # ---- R4 --------------------------------------------------------------------------
    m = prog.fn(J + "mergeWithObject")
    cfg = m.cfg
    IN = cfg.facts_in()
    rec = [n for n in m.walk() if n["k"] == "CXXOperatorCallExpr" and n.get("op") == "+=" and callee(n) == J + "operator+="]
    asg = [n for n in m.walk() if n["k"] == "CXXOperatorCallExpr" and n.get("op") == "=" and callee(n) == J + "operator="]
    R.ob("C25-R4", len(rec) == 1, m.q, "merge:one recursive +=", "%s:%d" % (m.relfile, m.d["line"]), "%d recursive merges" % len(rec))
    # every key of the right-hand side ends up in the destination: each pass through the loop body performs the recursive merge or an assignment
    loops_ = [n for n in m.walk() if n["k"] in ("WhileStmt", "ForStmt", "CXXForRangeStmt") and not n.get("mac")]
    if len(loops_) != 1:
        raise AnalysisBroken("mergeWithObject: expected one loop over the right-hand side")
    body_ = kids(loops_[0])[-1]
    first_ = cfg.position(body_)
    cond_ = kids(loops_[0])[0] if loops_[0]["k"] == "WhileStmt" else None
    evs_ = {n["i"] for n in rec + asg}
    back = cfg.position(cond_) if cond_ is not None else None
    pskip = None
    if first_ is not None and back is not None:
        tgt_block = back[0]
        pskip = cfg.find_path((first_[0], first_[1] - 1), lambda b, i, e: b == tgt_block, lambda b, i, e: isinstance(e, int) and e in evs_)
        if pskip is None:
            pskip = cfg.find_path((first_[0], first_[1] - 1), "exit", lambda b, i, e: (isinstance(e, int) and e in evs_) or b == tgt_block)
    R.ob("C25-R4", pskip is None and first_ is not None, m.q, "merge:no key of the right-hand side is skipped", m.site(loops_[0]),
         "every iteration merges recursively or assigns" if pskip is None else
         "an iteration can finish without the recursive merge and without an assignment: the right-hand side does not win for that key (e.g. an empty object over a number leaves the number)", path=pskip)
    for n in rec:
        fs = cfg.facts_at(n, IN)
        objs = [k for (k, pol) in fs if pol and "isObject()" in k]
        hask = [k for (k, pol) in fs if pol and "object.find(" in noid(k) and "object.end()" in noid(k)]
        ok = len(objs) >= 2 and bool(hask)
        R.ob("C25-R4", ok, m.q, "merge:recurse iff both objects", m.site(n), "recursion guarded by %s" % (objs + hask))
    for n in asg:
        rhs = strip(kids(n)[2])
        ok = rhs["k"] == "DeclRefExpr"
        d = rhs.get("d")
        defs = m.local_defs().get(d, [])
        ok = ok and any(dn["k"] == "VarDecl" and kids(dn) and "second" in render(kids(dn)[0], False) for dn in defs)
        R.ob("C25-R4", ok, m.q, "merge:assign right value", m.site(n), "non-recursive case stores the right-hand side's value")
    R.ob("C25-R4", len(asg) == 2, m.q, "merge:assign arms", "%s:%d" % (m.relfile, m.d["line"]), "%d assignment arms (object-over-non-object, and plain)" % len(asg))
    pe = [f for f in prog.fns(J + "operator+=") if len(f.d["params"]) == 1 and "occa::json" in f.tname(f.d["params"][0]["t"])]
    if len(pe) != 1:
        raise AnalysisBroken("json::operator+=(const json&) not found")
    pe = pe[0]
    pcfg = pe.cfg
    PIN2 = pcfg.facts_in()
    sw_ = [n for n in pe.walk() if n["k"] == "SwitchStmt"]
    und = None
    if sw_:
        fs_ = {(noid(k).replace(" ", ""), pol) for (k, pol) in pcfg.facts_at(kids(sw_[0])[0], PIN2)}
        und = ("(this->type==occa::json::none_)", False) in fs_
    asg_ = [c for c in pe.walk() if c["k"] == "CXXOperatorCallExpr" and c.get("op") == "=" and callee(c) == J + "operator=" and
            any(pol and noid(k).replace(" ", "") == "(this->type==occa::json::none_)" for (k, pol) in pcfg.facts_at(c, PIN2))]
    R.ob("C25-R4", bool(und) and bool(asg_), pe.q, "+= on an undefined value assigns and does not run the typed merge", pe.site(asg_[0]) if asg_ else "%s:%d" % (pe.relfile, pe.d["line"]),
         "under type == none_ the right-hand side is assigned and the switch is not reached" if und and asg_ else
         "an undefined left side only takes over the type and then runs the typed merge: `json a; a += [1,2]` gives [[1,2]], `a += true` gives the number 1")

    # ---- R5: a primitive assignment changes `type` but keeps the old children map (jsonValue_t is a plain struct), so the map may only be
    #          consulted where the node is known to be an object -------------------------------------------------------------------------
    for f in prog.funcs.values():
        if f.d.get("tmpl") == "inst" or not f.q.startswith("occa::json::") or not f.d["file"].endswith("src/types/json.cpp"):
            continue
        cfg = IN = None
        for n in f.walk():
            if not (n["k"] == "MemberExpr" and n.get("n", "").endswith("(anonymous struct)::object")):
                continue
            v = strip(kids(n)[0]) if kids(n) else None
            base = strip(kids(v)[0]) if v is not None and v["k"] == "MemberExpr" and kids(v) else None
            if base is None or base["k"] != "DeclRefExpr" or not base.get("loc") or base.get("d") in [p["d"] for p in f.d["params"]]:
                continue      # this->value_ / parameter: typed by the caller's contract (covered by R3/R4 and the dump switch)
            if cfg is None:
                cfg = f.cfg
                IN = cfg.facts_in()
            want = "(%s->type==occa::json::object_)" % base["n"]
            ok = any(pol and noid(k).replace(" ", "") == want for (k, pol) in cfg.facts_at(n, IN))
            R.ob("C25-R5", ok, f.q, "children of *%s read only when %s is an object" % (base["n"], base["n"]), f.site(n),
                 "guarded by the type test on the same pointer" if ok else
                 "the children map of a node is consulted without knowing it is an object: after `j[\"a/b/c\"] = 1; j[\"a/b\"] = 7;` the leaf a/b still owns its old children, so the path a/b/c is reported although a/b is a number")

    # ---- R6: j["b"] = j["b/a"] - the source may live inside the destination ------------------------------------------------------------
    for f in prog.fns("occa::json::operator="):
        ps = f.d["params"]
        if len(ps) != 1 or "occa::json" not in f.tname(ps[0]["t"]) or "&" not in f.tname(ps[0]["t"]):
            continue
        pd = ps[0]["d"]
        cfg = f.cfg
        muts = []
        for n in f.walk():
            t = write_target(n)
            if t is not None and noid(render(strip(t), False)).startswith("this->"):
                muts.append(n)
            if is_call(n) and callee(n) in ("std::swap", "occa::json::clear") or (is_call(n) and callee(n).startswith("std::swap")):
                if any("this->" in noid(render(a, False)) for a in kids(n)[1:]) or callee(n) == "occa::json::clear":
                    muts.append(n)
        reads = [n for n in f.walk() if n["k"] == "DeclRefExpr" and n.get("d") == pd]
        if not muts or not reads:
            raise AnalysisBroken("json::operator=(const json&): no mutation / no read of the argument found")
        bad = None
        for m in muts:
            for r in reads:
                if any(a["i"] == m["i"] for a in f.ancestors(r)):
                    # the read is an operand of the mutating statement itself: this->x = j.x copies while it overwrites
                    if write_target(m) is not None and noid(render(strip(write_target(m)), False)) in ("this->type",):
                        continue       # a scalar: nothing of the source is destroyed by overwriting it
                    bad = (m, r)
                    break
                if cfg.find_path(cfg.position(m), lambda b, i, e, r=r: e == r["i"], lambda b, i, e: False) is not None:
                    bad = (m, r)
                    break
            if bad:
                break
        R.ob("C25-R6", bad is None, f.q, "argument read before the destination changes", f.site(bad[0]) if bad else "%s:%d" % (f.relfile, f.d["line"]),
             "the source is copied into locals first (%d reads, %d mutations)" % (len(reads), len(muts)) if bad is None else
             "the destination is modified and the argument is read afterwards / while its children are overwritten: `j[\"b\"] = j[\"b/a\"]` frees the map node that holds the source while copying from it (heap-use-after-free)")

    # ---- R7: keys that come out of a map are literal keys ---------------------------------------------------------------------------------
    PATH_API = ("occa::json::has", "occa::json::operator[]", "occa::json::getPathValue", "occa::json::remove", "occa::json::get")
    for f in prog.funcs.values():
        if f.d.get("tmpl") == "inst" or not f.q.startswith("occa::json::") or not f.d["file"].endswith("src/types/json.cpp"):
            continue
        keys = {v["d"] for v in f.walk() if v["k"] == "VarDecl" and kids(v) and noid(render(kids(v)[0], False)).replace(" ", "").endswith("->first")}
        if not keys:
            continue
        for c in f.walk():
            if is_call(c) and callee(c).startswith(PATH_API) and call_args(c) and strip(call_args(c)[0]).get("d") in keys and \
                    not (c["k"] == "CXXOperatorCallExpr" and "std::map" in noid(render(kids(c)[1], False))):
                base_is_map = c["k"] == "CXXOperatorCallExpr" and "(anonymous struct)::object" in "".join(x.get("n", "") for x in walk(kids(c)[1]))
                if base_is_map:
                    continue
                R.ob("C25-R7", False, f.q, "path API %s(<map key>)" % callee(c).split("::")[-1], f.site(c),
                     "a key taken from a map iterator is passed to a path accessor, which splits it on '/': under a key such as \"k/1\" the existing object is not found and is overwritten instead of merged")
        R.ob("C25-R7", True, f.q, "map keys only reach the map API (%d key variables)" % len(keys), "%s:%d" % (f.relfile, f.d["line"]), "find / operator[] of the std::map", nontrivial=False)


META = {
    "technique": "sibling agreement over resolved call arguments of the five path walkers; purity facts (constness, const_cast, std::map::operator[] vs find) and guard dominance on the writer and the merge",
    "level": "Static decision that all path accessors tokenise a path identically, that has()/get()/const operator[] cannot create entries (const, find-only, no member writes), that the writing operator[] "
             "creates intermediates as objects behind an is-object guard, that every walker consults a node's children map only under a type == object_ test on that node (a leaf's stale children are never visible), and that += merges recursively exactly when both sides are objects with the right-hand side winning otherwise. Holds for every path and history.",
    "note": "Does not decide the nested-dictionary model equality itself (value-level over histories); sizes and array indexing are not covered. Probed from outside (DESIGN 10.9, probes/P24), not reported by a rule here: += under a key containing '/' does not merge (has(key) splits the literal key), reading a missing path through the non-const operator[] creates entries, += on an undefined json is not an assignment.",
}
