"""C26 - mode-specific properties override generic ones only for their mode (structural clauses).

 R1  in every json `+` chain that layers properties, operands appear in non-decreasing specificity (right-hand side wins):
     global settings < device's stored properties < user-supplied properties; generic < ".../modes/<mode>..."
 R2  the layering helpers drop every "modes" subtree before returning (no other mode's entry survives)
 R3  the mode used for the lookup is the device's own mode, and the path after "modes/" is the mode parameter
"""
from vlib.facts import kids, strip, walk, is_call, call_args, call_object, callee, render, literal
from vlib.flow import plus_chain
from vlib.cfg import write_target
from vlib.work import AnalysisBroken

UNITS = ["src/core/device.cpp"]
HELPERS = ("occa::getModeSpecificProps", "occa::getObjectSpecificProps", "occa::initialObjectProps")


def json_plus_chain(n):
    """flatten a left-nested json::operator+ chain"""
    n = strip(n)
    if n["k"] == "CXXOperatorCallExpr" and n.get("op") == "+" and callee(n) == "occa::json::operator+":
        c = kids(n)
        return json_plus_chain(c[1]) + [c[2]]
    return [n]


def prog_root():
    from vlib import work
    return work.REPO


def run(ctx):
    R = ctx.R
    prog = ctx.program(UNITS, thorough_all=False)
    R.explanation = ("Decides the layering order of every property merge in src/core/device.cpp (json `+` is right-biased), the removal of the `modes` subtrees from each layered result, and that the mode key used "
                     "is the device's own. Does not decide json::operator+ itself (C25).")
    R.assumptions += ["json::operator+ merges recursively with the right operand winning (C25-R4)"]
    R.rule("C26-R1", "operands of each layering `+` chain are ordered by non-decreasing specificity", floor=7)
    R.rule("C26-R2", "layered result has its `modes` subtrees removed before it is returned", floor=3)
    R.rule("C26-R4", "specificity is resolved per source: the properties handed to getModeSpecificProps / getObjectSpecificProps come from one source, sources are layered after resolution", floor=6)
    R.rule("C26-R5", "the layering helpers keep no state between calls: no function-local static is computed from a parameter", floor=3)
    R.rule("C26-R3", "mode passed to the helpers is the device's own; the key after \"modes/\" is the mode", floor=8)

    def operand_rank(f, e):
        """(provenance, mode-specific) of one operand"""
        params = {p["d"]: p for p in f.d["params"]}
        prov = None
        txt = render(e, False)
        if any(is_call(x) and callee(x) == "occa::settings" for x in walk(e)):
            prov = 0
        elif any(is_call(x) and callee(x) in ("occa::device::kernelProperties", "occa::device::memoryProperties", "occa::device::streamProperties") and not call_args(x) for x in walk(e)):
            prov = 1
        elif any(x["k"] == "DeclRefExpr" and x.get("d") in params and "json" in f.tname(params[x["d"]]["t"]) for x in walk(e)):
            prov = 2
        lits = [literal(x) for x in walk(e) if x["k"] == "StringLiteral"]
        modes = 1 if any(isinstance(l, str) and "modes/" in l for l in lits) else 0
        return prov, modes, txt

    n_chains = 0
    for f in prog.funcs.values():
        if f.d.get("tmpl") == "inst" or not f.d["file"].endswith("src/core/device.cpp"):
            continue
        for n in f.walk():
            if n["k"] == "CXXOperatorCallExpr" and n.get("op") == "+" and callee(n) == "occa::json::operator+":
                par = f.parent.get(n["i"])
                while par is not None and par["k"] in ("ImplicitCastExpr", "CXXConstructExpr", "CXXBindTemporaryExpr"):
                    par = f.parent.get(par["i"])
                if par is not None and par["k"] == "CXXOperatorCallExpr" and par.get("op") == "+" and callee(par) == "occa::json::operator+" and strip(kids(par)[1]) is n:
                    continue
                ops = json_plus_chain(n)
                ranks = [operand_rank(f, o) for o in ops]
                if any(r[0] is None for r in ranks):
                    continue   # not a property-layering chain (e.g. numeric json)
                n_chains += 1
                for (a, b) in zip(ranks, ranks[1:]):
                    ok = (a[0], a[1]) <= (b[0], b[1])
                    R.ob("C26-R1", ok, f.q + (" " + f.d["sig"] if f.q.endswith("Properties") else ""), "order:%s  <  %s" % (a[2][:60], b[2][:60]), f.site(n),
                         "less specific operand on the left, more specific on the right (right wins)" if ok else
                         "a more specific layer (%s) is on the left of a less specific one (%s): the generic/global entry overrides the mode-specific/user entry" % (a[2][:60], b[2][:60]))
        # the same layering written as statements: `json x = A; x += B;` is A + B (the right-hand side of += wins)
        for v in [x for x in f.walk() if x["k"] == "VarDecl" and kids(x) and "json" in f.type(x) and not f.type(x).strip().endswith("&")]:
            adds = [c for c in f.walk() if c["k"] == "CXXOperatorCallExpr" and c.get("op") == "+=" and (callee(c) or "").startswith("occa::json::operator+=")
                    and strip(kids(c)[1])["k"] == "DeclRefExpr" and strip(kids(c)[1]).get("d") == v["d"]]
            if not adds:
                continue
            init = strip(kids(v)[0])
            while init["k"] in ("CXXConstructExpr", "CXXBindTemporaryExpr", "MaterializeTemporaryExpr", "ImplicitCastExpr") and kids(init):
                init = strip(kids(init)[0])
            first = json_plus_chain(init)[-1] if init["k"] == "CXXOperatorCallExpr" and init.get("op") == "+" else init
            seq = [operand_rank(f, first)] + [operand_rank(f, kids(c)[2]) for c in sorted(adds, key=lambda c: (c.get("line", 0), c["i"]))]
            if any(r[0] is None for r in seq):
                continue
            n_chains += 1
            for (a, b) in zip(seq, seq[1:]):
                ok = (a[0], a[1]) <= (b[0], b[1])
                R.ob("C26-R1", ok, f.q, "order:%s  <  += %s" % (a[2][:60], b[2][:60]), f.site(adds[0]),
                     "less specific first, the more specific layer merged on top" if ok else
                     "a less specific layer (%s) is merged with += on top of a more specific one (%s): the global / generic entry overrides the user's / mode-specific entry" % (b[2][:60], a[2][:60]))
    if n_chains < 6:
        raise AnalysisBroken("only %d property layering chains found (floor 6)" % n_chains)

    # ---- R4: precedence is lexicographic (source, then specificity). Resolving generic/mode-specific entries on an already merged
    #          json lets a global mode-specific entry beat a user generic entry --------------------------------------------------------
    HELPERS = ("occa::getModeSpecificProps", "occa::getObjectSpecificProps")
    for f in prog.funcs.values():
        if f.d.get("tmpl") == "inst" or not f.d["file"].startswith(prog_root()):
            continue
        for c in f.walk():
            if is_call(c) and callee(c) in HELPERS:
                arg = call_args(c)[-1]
                merges = [x for x in walk(arg) if x["k"] == "CXXOperatorCallExpr" and x.get("op") in ("+", "+=") and callee(x).startswith("occa::json::operator+")]
                srcs = sorted({operand_rank(f, o)[0] for m in merges for o in json_plus_chain(m) if operand_rank(f, o)[0] is not None})
                ok = not merges
                R.ob("C26-R4", ok, f.q, "single source: %s(..., %s)" % (callee(c).split("::")[-1], render(arg, False)[:50]), f.site(c),
                     "generic and mode-specific entries are resolved within one source" if ok else
                     "an already layered json (sources %s) is resolved in one pass: a mode-specific entry of the weaker source (global settings) then overrides a generic entry of the stronger one (user properties)" % srcs)

    # ---- R2 --------------------------------------------------------------------------
    for q, want in (("occa::getModeSpecificProps", ["modes"]), ("occa::getObjectSpecificProps", ["modes", "/modes"])):
        f = prog.fn(q)
        rets = [n for n in f.walk() if n["k"] == "ReturnStmt"]
        rv = None
        for x in walk(rets[0]):
            if x["k"] == "DeclRefExpr" and x.get("loc"):
                rv = x["d"]
        rems = [c for c in f.walk() if c["k"] == "CXXMemberCallExpr" and callee(c) == "occa::json::remove" and strip(call_object(c)).get("d") == rv]
        got = []
        for c in rems:
            lits = [literal(x) for x in walk(call_args(c)[0]) if x["k"] == "StringLiteral"]
            got += [l for l in lits if isinstance(l, str)]
        for w in want:
            ok = w in got and all(f.cfg.before(c, rets[0]) for c in rems) and len(rets) == 1
            R.ob("C26-R2", ok, q, "remove:%s" % w, f.site(rems[0]) if rems else f.relfile,
                 "the %r subtree is removed from the layered result on every path" % w if ok else "entries for other modes stay inside the returned properties (the %r subtree is not removed)" % w)

    # ---- R3 --------------------------------------------------------------------------
    for q in ("occa::getModeSpecificProps", "occa::getObjectSpecificProps"):
        f = prog.fn(q)
        pmode = f.d["params"][0]
        for n in f.walk():
            if n["k"] == "CXXOperatorCallExpr" and n.get("op") == "[]" and callee(n).startswith("occa::json::operator[]"):
                ops = plus_chain(kids(n)[2])
                for i, o in enumerate(ops):
                    l = literal(o)
                    if isinstance(l, str) and l.endswith("modes/"):
                        nxt = strip(ops[i + 1]) if i + 1 < len(ops) else None
                        ok = nxt is not None and nxt["k"] == "DeclRefExpr" and nxt.get("d") == pmode["d"]
                        R.ob("C26-R3", ok, q, "key:%s" % render(kids(n)[2], False), f.site(n), "the segment after \"modes/\" is the mode parameter" if ok else "the lookup under modes/ does not use the mode")
    io = prog.fn("occa::initialObjectProps")
    pm, po = io.d["params"][0], io.d["params"][1]
    for c in io.walk():
        if is_call(c) and callee(c) == "occa::getObjectSpecificProps":
            a = call_args(c)
            ok = strip(a[0]).get("d") == pm["d"] and strip(a[1]).get("d") == po["d"]
            R.ob("C26-R3", ok, io.q, "forward:(mode, object) to %s" % render(c, False)[:50], io.site(c), "same mode and object for the global and the user layer")
    ws = [n for n in io.walk() if n["k"] == "CXXOperatorCallExpr" and n.get("op") == "=" and literal(kids(strip(kids(n)[1]))[2] if kids(strip(kids(n)[1])) and len(kids(strip(kids(n)[1]))) > 2 else kids(n)[1]) == "mode"]
    R.ob("C26-R3", len(ws) == 1 and strip(kids(ws[0])[2]).get("d") == pm["d"], io.q, "record:objectProps[\"mode\"] = mode", io.site(ws[0]) if ws else io.relfile, "the object's properties record the device's mode")
    st = [f for f in prog.fns("occa::device::setup") if "json" in f.d["sig"]][0]
    md = [n for n in st.walk() if n["k"] == "VarDecl" and kids(n) and any(literal(x) == "mode" for x in walk(n))]
    okm = len(md) == 1
    R.ob("C26-R3", okm, st.q, "mode:props[\"mode\"]", st.site(md[0]) if md else st.relfile, "the device's mode is read from the user's properties")
    if okm:
        for c in st.walk():
            if is_call(c) and callee(c) in HELPERS:
                ok = strip(call_args(c)[0]).get("d") == md[0]["d"]
                R.ob("C26-R3", ok, st.q, "forward:mode to %s" % callee(c).split("::")[-1], st.site(c), "helper called with the device's own mode")
    # deviceProps["kernel"] = initialObjectProps(mode_, "kernel", props): slot and object name agree
    for n in st.walk():
        if n["k"] == "CXXOperatorCallExpr" and n.get("op") == "=" and len(kids(n)) == 3:
            lhs, rhs = strip(kids(n)[1]), strip(kids(n)[2])
            if lhs["k"] == "CXXOperatorCallExpr" and lhs.get("op") == "[]" and is_call(rhs) and callee(rhs) == "occa::initialObjectProps":
                slot = literal(kids(lhs)[2])
                obj = literal(call_args(rhs)[1])
                R.ob("C26-R3", slot == obj and slot in ("kernel", "memory", "stream"), st.q, "slot:%s <- initialObjectProps(.., %r, ..)" % (slot, obj), st.site(n), "each object's slot holds the properties layered for that object")
    for q, slot in (("occa::device::kernelProperties", "kernel"), ("occa::device::memoryProperties", "memory"), ("occa::device::streamProperties", "stream")):
        for f in prog.fns(q):
            if not f.d["params"]:
                lits = [literal(x) for x in f.walk() if x["k"] == "StringLiteral" and literal(x) in ("kernel", "memory", "stream")]
                R.ob("C26-R3", lits == [slot], q, "slot:properties[%r]" % slot, "%s:%d" % (f.relfile, f.d["line"]), "accessor returns its own object's slot: %s" % lits)
                continue
            for c in f.walk():
                if is_call(c) and callee(c) == "occa::getModeSpecificProps":
                    a0 = strip(call_args(c)[0])
                    ok = is_call(a0) and callee(a0) == "occa::device::mode"
                    R.ob("C26-R3", ok, q, "forward:mode() to getModeSpecificProps", f.site(c), "per-call properties are specialised with the device's own mode")

    # ---- R5: a static local is initialised once per process: anything computed from `mode` / `props` there belongs to the first device -------
    for f in prog.funcs.values():
        if f.d.get("tmpl") == "inst" or not f.d["file"].endswith("src/core/device.cpp"):
            continue
        pds = {p["d"] for p in f.d["params"]}
        stat = [v for v in f.walk() if v["k"] == "VarDecl" and v.get("static")]
        bad = [v for v in stat if any(x["k"] == "DeclRefExpr" and x.get("d") in pds for x in walk(v))]
        if f.q in HELPERS or f.q == "occa::initialObjectProps" or stat:
            R.ob("C26-R5", not bad, f.q, "no static local computed from a parameter (%d static local(s))" % len(stat), f.site(bad[0]) if bad else "%s:%d" % (f.relfile, f.d["line"]),
                 "every call layers the properties for the mode it is given" if not bad else
                 "`static %s` is initialised from a parameter: it keeps the value of the first call in the process, so a device of another mode is layered with the first device's mode-specific entries" % bad[0]["n"])


META = {
    "technique": "operand-order analysis of json `+` chains with provenance classification (settings / stored device properties / user parameters; path literals containing modes/), single-source check on every argument handed to a specificity-resolving helper, must-precede checks for the modes removal, argument-flow facts for the mode",
    "level": "Static decision for every property-layering expression in src/core/device.cpp that layers are merged in non-decreasing specificity (the right operand of json + wins), that the helpers remove the modes subtrees "
             "before returning so other modes' entries cannot take effect, and that the mode segment and the mode argument are the device's own mode. Covers all property sets because it is a statement about the merge expressions.",
    "note": "Relies on C25-R4 for the semantics of json + (right wins, recursive). Does not decide env-variable driven settings (src/occa/internal/utils/env.cpp only initialises settings()).",
}
