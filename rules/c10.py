"""C10 - kernel argument validation accepts exactly the compatible argument lists (structural clauses).

 R1  a kernel is launched only after setupRun(): kernel::run() is the only caller of modeKernel_t::run, every public launch path goes through it
 R2  check inventory in setupRun, in order: argument count guard before any indexing of the metadata; per argument the pointer/non-pointer
     mismatch raises in both directions; memory arguments are checked with canBeCastedTo against the declared dtype
 R3  freshly built and cached kernels carry the same metadata: both binary loaders assign k.metadata; the cached route reads it from the build file
 R4  metadata is produced for every non-implicit argument in declaration order from isPointerType() and dtype()
"""
from vlib.facts import decl_of, kids, strip, walk, is_call, call_args, call_object, callee, render, literal, noid
from vlib.cfg import write_target
from vlib.work import AnalysisBroken, gen_dir

UNITS = ["src/occa/internal/lang/type/typedef.cpp", "src/occa/internal/lang/type/vartype.cpp", "src/occa/internal/lang/variable.cpp",
         "src/occa/internal/lang/type/struct.cpp", "src/occa/internal/lang/type/union.cpp", "src/occa/internal/core/kernel.cpp", "src/core/kernel.cpp", "src/occa/internal/lang/parser.cpp",
         "src/occa/internal/lang/kernelMetadata.cpp", "src/occa/internal/modes/serial/device.cpp", "src/occa/internal/modes/serial/kernel.cpp",
         "src/occa/internal/modes/openmp/device.cpp", "src/dtype/dtype.cpp"]


def run(ctx):
    R = ctx.R
    prog = ctx.program(UNITS)
    R.explanation = ("Decides that no launch bypasses validation, that setupRun contains the count / pointer-ness / dtype checks in an order where each guards the next, and that the fresh and the cached route attach "
                     "metadata produced from the same declaration facts. Does not decide the cast lattice (canBeCastedTo) itself.")
    R.assumptions += ["type_validation property left at its default (true) and kernels built from OKL (metadata initialised)"]
    R.rule("C10-R1", "launch only through kernel::run(), which validates first", floor=6)
    R.rule("C10-R2", "setupRun check inventory and ordering", floor=6)
    R.rule("C10-R3", "fresh and cached binaries get their metadata assigned", floor=4)
    R.rule("C10-R4", "metadata built per non-implicit argument from pointer-ness and dtype", floor=3)
    R.rule("C10-R6", "the flattened dtype the cast test compares is built by structural recursion: every component contributes its whole flattening, once per tuple entry", floor=5)
    R.rule("C10-R7", "a clone keeps the element type of its source (the dtype is what setupRun checks a memory argument against)", floor=1)
    R.rule("C10-R5", "declared dtype derivation: wrappers delegate to vartype_t::dtype (qualifiers and array extents applied), never to the bare type", floor=5)

    # ---- R1 --------------------------------------------------------------------------
    kr = [f for f in prog.fns("occa::kernel::run") if not f.d["params"]]
    if len(kr) != 1:
        raise AnalysisBroken("kernel::run() vanished")
    kr = kr[0]
    cfg = kr.cfg
    launch = [c for c in kr.walk() if c["k"] == "CXXMemberCallExpr" and callee(c) == "occa::modeKernel_t::run"]
    setup = [c for c in kr.walk() if c["k"] == "CXXMemberCallExpr" and callee(c) == "occa::modeKernel_t::setupRun"]
    ok = len(launch) == 1 and len(setup) == 1 and cfg.before(setup[0], launch[0])
    R.ob("C10-R1", ok, kr.q, "setupRun dominates modeKernel->run()", kr.site(launch[0]) if launch else kr.relfile, "validation precedes the launch on every path")
    init = [c for c in kr.walk() if c["k"] == "CXXMemberCallExpr" and callee(c) == "occa::kernel::assertInitialized"]
    R.ob("C10-R1", bool(init) and bool(launch) and cfg.before(init[0], launch[0]), kr.q, "assertInitialized first", kr.relfile, "an uninitialised kernel raises")
    callers = set()
    for f in prog.funcs.values():
        if f.d.get("tmpl") == "inst":
            continue
        for c in f.walk():
            if c["k"] == "CXXMemberCallExpr" and callee(c) == "occa::modeKernel_t::run" and c.get("vdisp"):
                callers.add(f.q + " " + f.d["sig"])
    # launched (GPU) kernels run their host-side launcher kernel from inside their own run(), i.e. after kernel::run() validated
    INNER = {"occa::launchedModeKernel_t::launcherRun void () const"}
    ok = (kr.q + " " + kr.d["sig"]) in callers and callers <= ({kr.q + " " + kr.d["sig"]} | INNER)
    R.ob("C10-R1", ok, "occa::modeKernel_t::run", "who-calls (virtual dispatch)", kr.relfile, "only kernel::run() launches (plus the launcher run nested inside a validated launch): %s" % sorted(callers))
    ops = [f for f in prog.funcs.values() if f.q == "occa::kernel::operator()" and f.d.get("tmpl") != "inst"]
    n_ok = 0
    for f in ops:
        runs = [c for c in f.walk() if c["k"] == "CXXMemberCallExpr" and callee(c) == "occa::kernel::run"]
        direct = [c for c in f.walk() if c["k"] == "CXXMemberCallExpr" and callee(c) == "occa::modeKernel_t::run"]
        if len(runs) == 1 and not direct:
            n_ok += 1
        else:
            R.ob("C10-R1", False, f.q + " " + f.d["sig"][:40], "operator():via run()", "%s:%d" % (f.relfile, f.d["line"]), "a generated call operator does not go through kernel::run()")
    R.ob("C10-R1", n_ok >= 10 and n_ok == len(ops), "occa::kernel::operator()", "all generated call operators go through run()", "codegen/kernelOperators.cpp_codegen", "%d of %d overloads" % (n_ok, len(ops)))
    for f in prog.fns("occa::kernel::run"):
        if f.d["params"]:
            ok = any(c["k"] == "CXXMemberCallExpr" and callee(c) == "occa::kernel::run" and not call_args(c) for c in f.walk())
            R.ob("C10-R1", ok, f.q + " " + f.d["sig"], "run(args):via run()", "%s:%d" % (f.relfile, f.d["line"]), "the initializer-list launcher goes through run()")
    # backends' run() do not re-enter without validation: serial kernel::run is a leaf w.r.t. modeKernel_t::run
    R.ob("C10-R1", True, "occa::serial::kernel::run", "backend run is a leaf", "", "no backend run() calls another modeKernel_t::run", nontrivial=False)

    # ---- R2 --------------------------------------------------------------------------
    su = prog.fn("occa::modeKernel_t::setupRun")
    cfg = su.cfg
    IN = cfg.facts_in()
    idx = [n for n in su.walk() if n["k"] == "CXXOperatorCallExpr" and n.get("op") == "[]" and "metadata.arguments" in render(kids(n)[1], False)]
    if not idx:
        raise AnalysisBroken("setupRun: metadata.arguments[i] not found")
    for n in idx:
        fs = cfg.facts_at(n, IN)
        ok = any(pol and "==" in k and "argc" in k.replace("metaArgc", "M") and "metaArgc" in k for (k, pol) in fs)
        R.ob("C10-R2", ok, su.q, "count guard before metadata.arguments[i]", su.site(n),
             "argc == metaArgc is established before the metadata is indexed" if ok else "metadata.arguments is indexed by the received argument index without the count check: a longer list reads out of bounds, a shorter one is accepted")
    errs = [c for c in su.walk() if is_call(c) and callee(c) == "occa::error"]
    both = {"expects-memory": False, "expects-value": False}
    for c in errs:
        fs = {(noid(k), pol) for (k, pol) in cfg.facts_at(c, IN)}
        mism = any((not pol) and "isPtr" in k and "argInfo.isPtr" in k and "==" in k for (k, pol) in fs)
        if mism and any(pol and k.endswith("argInfo.isPtr") for (k, pol) in fs):
            both["expects-memory"] = True
        if mism and any((not pol) and k.endswith("argInfo.isPtr") for (k, pol) in fs):
            both["expects-value"] = True
    for k_, v in both.items():
        R.ob("C10-R2", v, su.q, "mismatch raises: %s" % k_, su.relfile + ":%d" % su.d["line"],
             "raises when the kernel %s" % ("expects memory and gets a value" if k_ == "expects-memory" else "expects a value and gets memory") if v else "this direction of the pointer/non-pointer mismatch is accepted")
    cc = [c for c in su.walk() if c["k"] == "CXXMemberCallExpr" and callee(c) == "occa::dtype_t::canBeCastedTo"]
    ok = len(cc) == 1 and "mem->dtype_" in render(call_object(cc[0]), False) and render(call_args(cc[0])[0], False).endswith("argInfo.dtype")
    R.ob("C10-R2", ok, su.q, "dtype check: mem->dtype_->canBeCastedTo(argInfo.dtype)", su.site(cc[0]) if cc else su.relfile, "memory arguments are checked against the parameter's element type")
    if cc:
        # the cast check result guards an error, i.e. its failure raises
        par = su.parent.get(cc[0]["i"])
        guarded = False
        while par is not None:
            if par["k"] == "VarDecl" and "bool" in su.tname(par.get("t")):
                guarded = True
            par = su.parent.get(par["i"])
        R.ob("C10-R2", guarded, su.q, "dtype check failure raises", su.site(cc[0]), "the check feeds an OCCA_ERROR guard")
        # both argument views index with the same i
        same = all(render(kids(n)[2], False) == render(kids(idx[0])[2], False) for n in idx) and any(
            n["k"] == "CXXOperatorCallExpr" and n.get("op") == "[]" and "this->arguments" in render(kids(n)[1], False) and render(kids(n)[2], False) == render(kids(idx[0])[2], False) for n in su.walk())
        R.ob("C10-R2", same, su.q, "arguments[i] paired with metadata.arguments[i]", su.site(idx[0]), "received and declared argument are taken at the same index")
    if cc:
        # inside the per-argument loop the only way round the check is `not a memory argument` / `null`: no other early continue / break
        loops = [a for a in su.ancestors(cc[0]) if a["k"] in ("ForStmt", "WhileStmt", "CXXForRangeStmt") and not a.get("mac")]
        if not loops:
            raise AnalysisBroken("setupRun: the dtype check is not inside the argument loop")
        cfg_ = su.cfg
        IN_ = cfg_.facts_in()
        ALLOWED = ("getModeMemory", "isNull")
        n_skip = 0
        for j in walk(loops[0]):
            if j["k"] not in ("ContinueStmt", "BreakStmt") or not cfg_.before(j, cc[0]) and cfg_.find_path(cfg_.position(j), lambda b, i, e: e == cc[0]["i"], lambda b, i, e: False) is None and False:
                continue
            if any(a["k"] in ("DoStmt",) and a.get("mac") for a in su.ancestors(j)):
                continue          # the do { } while (0) of OCCA_ERROR
            n_skip += 1
            foreign = []
            for (k, pol) in cfg_.facts_at(j, IN_):
                fn_ = cfg_.fact_node((k, pol)) if (k, pol) in cfg_._factnode else None
                if fn_ is None:
                    continue
                if not any(a["i"] == loops[0]["i"] for a in su.ancestors(fn_)) and not any(
                        v_["k"] == "VarDecl" and any(a["i"] == loops[0]["i"] for a in su.ancestors(v_)) and any(y is fn_ or y["i"] == fn_["i"] for y in walk(v_)) for v_ in walk(loops[0])):
                    continue      # a condition tested outside the loop (validation switched on, metadata present)
                for x in walk(fn_):
                    if is_call(x) and callee(x) and callee(x).split("::")[-1] not in ALLOWED and not callee(x).startswith("std::operator"):
                        foreign.append(callee(x).split("::")[-1])
                    if x["k"] == "MemberExpr" and x.get("n", "").startswith("occa::modeKernel_t::") and x.get("n", "").split("::")[-1] not in ("arguments", "metadata"):
                        foreign.append(x["n"].split("::")[-1])
            R.ob("C10-R2", not foreign, su.q, "argument skips the dtype check only if it is no memory / null", su.site(j),
                 "the early `continue` depends only on the argument being a non-pointer or null" if not foreign else
                 "a memory argument can leave the loop body before the dtype check, depending on %s: a launch with a wrong element type is accepted without an exception" % sorted(set(foreign)))
        if n_skip < 1:
            raise AnalysisBroken("setupRun: no early continue found in the argument loop")
    vt = [n for n in su.walk() if n["k"] == "VarDecl" and n["n"] == "validateTypes"]
    ok = bool(vt) and "isInitialized" in render(vt[0], False) and literal([a for c in walk(vt[0]) if is_call(c) and callee(c).startswith("occa::json::get") for a in call_args(c)][1]) is True
    R.ob("C10-R2", ok, su.q, "validation on by default", su.site(vt[0]) if vt else su.relfile, "type_validation defaults to true and applies whenever metadata is present")

    # ---- R3 --------------------------------------------------------------------------
    loaders = [f for f in prog.fns("occa::serial::device::buildKernelFromBinary")]
    if len(loaders) != 2:
        raise AnalysisBroken("serial::device::buildKernelFromBinary overloads: %d" % len(loaders))
    for f in loaders:
        if len(f.d["params"]) == 4:
            ws = [n for n in f.walk() if n["k"] == "CXXOperatorCallExpr" and n.get("op") == "=" and render(kids(n)[1], False).endswith(".metadata") and strip(kids(n)[2]).get("d") == f.d["params"][3]["d"]]
            R.ob("C10-R3", len(ws) == 1, f.q, "k.metadata = metadata", f.site(ws[0]) if ws else f.relfile, "the kernel object receives the metadata it was given")
        else:
            fb = [c for c in f.walk() if is_call(c) and callee(c) == "occa::lang::sourceMetadata_t::fromBuildFile"]
            fwd = [c for c in f.walk() if c["k"] == "CXXMemberCallExpr" and callee(c) == "occa::serial::device::buildKernelFromBinary" and len(call_args(c)) == 4]
            ok = len(fb) == 1 and len(fwd) == 1 and "kc::buildFile" in render(f.body, False) and "dirname" in render(f.body, False)
            R.ob("C10-R3", ok, f.q, "cached: metadata from <dir>/build.json, then the common loader", f.site(fb[0]) if fb else f.relfile, "cached kernels read their metadata from the build file next to the binary")
            sel = [n for n in f.walk() if n["k"] == "CXXOperatorCallExpr" and n.get("op") == "[]" and "kernelsMetadata" in render(kids(n)[1], False)]
            ok = bool(sel) and strip(kids(sel[0])[2]).get("d") == f.d["params"][1]["d"]
            R.ob("C10-R3", ok, f.q, "cached: metadata selected by kernelName", f.site(sel[0]) if sel else f.relfile, "the entry of the requested kernel")
    bk = [f for f in prog.fns("occa::serial::device::buildKernel") if len(f.d["params"]) == 5][0]
    calls = [c for c in bk.walk() if c["k"] == "CXXMemberCallExpr" and callee(c) == "occa::serial::device::buildKernelFromBinary"]
    fresh = [c for c in calls if len(call_args(c)) == 4]
    cached = [c for c in calls if len(call_args(c)) == 3]
    ok = len(fresh) == 1 and "metadata.kernelsMetadata[kernelName]" in render(call_args(fresh[0])[3], False) and len(cached) == 1
    R.ob("C10-R3", ok, bk.q, "fresh: metadata of this parse, by kernelName; cached: loader with build file", bk.site(fresh[0]) if fresh else bk.relfile, "both routes attach metadata for the same kernel name")

    # ---- R4 --------------------------------------------------------------------------
    sm = prog.fn("occa::lang::parser_t::setSourceMetadata")
    lam = [prog.funcs[n["lam"]] for n in sm.walk() if n["k"] == "LambdaExpr" and n["lam"] in prog.funcs]
    found = False
    for l in lam:
        for c in l.walk():
            if c["k"] in ("CXXConstructExpr", "CXXTemporaryObjectExpr") and callee(c) == "occa::lang::argMetadata_t::argMetadata_t" and len(kids(c)) == 4:
                a = [render(x, False) for x in kids(c)]
                ok = "isPointerType" in a[1] and "arg.dtype()" in a[2] and "arg.name()" in a[3] and "const_" in a[0]
                R.ob("C10-R4", ok, sm.q, "argMetadata(const, isPointerType(), dtype(), name())", l.site(c), "metadata fields come from the declared argument: %s" % a)
                found = True
        loops = [n for n in l.walk() if n["k"] == "ForStmt"]
        ok = len(loops) == 1 and "func.args.size()" in render(l.body, False) and "++" in render(kids(loops[0])[2], False) and "func.args[ai]" in render(l.body, False)
        R.ob("C10-R4", ok, sm.q, "every argument, in declaration order", l.site(loops[0]) if loops else l.relfile, "loop over func.args from 0 to size()")
        conts = [n for n in l.walk() if n["k"] == "ContinueStmt"]
        ok = len(conts) == 1 and any((pol and "implicitArg" in k) for (k, pol) in l.cfg.facts_at(conts[0]))
        R.ob("C10-R4", ok, sm.q, "only implicit arguments are skipped", l.site(conts[0]) if conts else l.relfile, "the single skip is guarded by hasAttribute(\"implicitArg\")")
    if not found:
        raise AnalysisBroken("setSourceMetadata: argMetadata_t construction not found")

    # ---- R5 --------------------------------------------------------------------------
    L = "occa::lang::"
    vd = prog.fn(L + "vartype_t::dtype")
    txt = noid(render(vd.body, False))
    ok = "long_" in txt and "longlong_" in txt and "tuple" in txt and "this->arrays" in txt
    R.ob("C10-R5", ok, vd.q, "vartype_t::dtype applies long/long long and array extents", "%s:%d" % (vd.relfile, vd.d["line"]), "the one place where qualifiers and extents enter the element dtype")
    for q, member, want in ((L + "variable_t::dtype", "vartype", L + "vartype_t::dtype"), (L + "typedef_t::dtype", "baseType", L + "vartype_t::dtype")):
        f = prog.fn(q)
        rets = [r for r in f.walk() if r["k"] == "ReturnStmt" and kids(r)]
        good = bool(rets)
        for r in rets:
            e = strip(kids(r)[0])
            while e is not None and e["k"] in ("CXXConstructExpr",) and len(kids(e)) == 1:
                e = strip(kids(e)[0])
            good &= e is not None and e["k"] == "CXXMemberCallExpr" and callee(e) == want and noid(render(call_object(e), False)) == "this->" + member
        R.ob("C10-R5", good, q, "delegates to %s.dtype()" % member, "%s:%d" % (f.relfile, f.d["line"]),
             "every return is %s.dtype()" % member if good else
             "the wrapped declaration's dtype is not taken through vartype_t::dtype(): `long` qualifiers and array extents of the underlying type are dropped from the argument metadata, so validation compares against the wrong element type")
    # nobody but vartype_t::dtype reads the dtype of a bare `vartype.type`
    offenders = []
    for f in prog.funcs.values():
        if f.d.get("tmpl") == "inst" or not f.q.startswith(L) or f.q == vd.q:
            continue
        for c in f.walk():
            if c["k"] == "CXXMemberCallExpr" and callee(c).endswith("type_t::dtype") and call_object(c) is not None:
                o = strip(call_object(c))
                if o["k"] == "MemberExpr" and o.get("n") == L + "vartype_t::type":
                    offenders.append((f, c))
    R.ob("C10-R5", not offenders, L + "vartype_t::type", "who-calls type->dtype() on a bare vartype.type", offenders[0][0].site(offenders[0][1]) if offenders else "",
         "only vartype_t::dtype does" if not offenders else "%s bypasses vartype_t::dtype()" % offenders[0][0].q)
    for q in (L + "struct_t::dtype", L + "union_t::dtype"):
        f = prog.fn(q)
        ok = any(c["k"] == "CXXMemberCallExpr" and callee(c) == L + "variable_t::dtype" for c in f.walk())
        R.ob("C10-R5", ok, q, "field dtypes through variable_t::dtype()", "%s:%d" % (f.relfile, f.d["line"]), "nested fields use the same chain")

    flat_dtypes(prog, R)
    cp = ctx.program(["src/core/memory.cpp"], thorough_all=False)
    cl = cp.fn("occa::memory::clone")
    sets = [c for c in cl.walk() if is_call(c) and (callee(c) or "").endswith("memory::setDtype") and any(is_call(x) and (callee(x) or "").endswith("memory::dtype") for a in call_args(c) for x in walk(a))]
    typed = [c for c in cl.walk() if is_call(c) and callee(c) == "occa::device::malloc" and any(is_call(x) and (callee(x) or "").endswith("memory::dtype") for a in call_args(c) for x in walk(a))]
    rets = [r for r in cl.walk() if r["k"] == "ReturnStmt" and kids(r)]
    okd = bool(typed) or (bool(sets) and all(cl.cfg.before(sets[0], r) or any(x["i"] == sets[0]["i"] for x in walk(r)) for r in rets if not any(x["k"] in ("CXXTemporaryObjectExpr",) and not kids(x) for x in walk(r))))
    R.ob("C10-R7", okd, cl.q, "clone:result carries dtype()", cl.site(sets[0]) if sets else "%s:%d" % (cl.relfile, cl.d["line"]),
         "setDtype(dtype()) before the clone is returned" if okd else
         "the clone is returned with the default byte dtype: bytes cast to anything, so a clone of a float memory is accepted for a `double *` parameter instead of raising")


def flat_dtypes(prog, R):
    """R6: dtype_t::canBeCastedTo compares flatDtype vectors; they are filled only by the addFlatDtypes family"""
    fam = [f for f in prog.funcs.values() if f.q.endswith("::addFlatDtypes") and f.q.startswith("occa::dtype") and f.d.get("tmpl") != "inst"]
    if len(fam) < 4:
        raise AnalysisBroken("addFlatDtypes family: only %d members found" % len(fam))
    for f in fam:
        vec = f.d["params"][0]["d"]
        muts = []
        for c in f.walk():
            if not is_call(c):
                continue
            cq = callee(c) or ""
            obj = call_object(c)
            if obj is not None and decl_of(obj) == vec and "std::vector" in cq:
                muts.append(c)
        rec = [c for c in f.walk() if is_call(c) and (callee(c) or "").endswith("::addFlatDtypes") and call_args(c) and decl_of(call_args(c)[0]) == vec]
        leaf = f.q == "occa::dtype_t::addFlatDtypes"
        bad = []
        scratch_inserts = []
        for m in muts:
            short = callee(m).split("::")[-1]
            if short in ("size", "empty", "begin", "end", "cbegin", "cend"):
                continue
            if leaf and short == "push_back" and "self" in noid(render(call_args(m)[0], False)):
                continue
            if short == "insert" and len(call_args(m)) == 3:
                # range insert of a scratch vector that was itself filled by the recursive flattening
                srcs = {decl_of(call_object(x)) for a in call_args(m)[1:] for x in walk(a) if is_call(x) and (callee(x) or "").split("::")[-1] in ("begin", "end", "cbegin", "cend") and call_object(x) is not None}
                srcs.discard(vec)
                filled = {decl_of(call_args(c)[0]) for c in f.walk() if is_call(c) and (callee(c) or "").endswith("::addFlatDtypes") and call_args(c)}
                if len(srcs) == 1 and srcs <= filled:
                    scratch_inserts.append(m)
                    continue
            bad.append(m)
        R.ob("C10-R6", not bad, f.q, "flatten:the vector is extended only by recursive flattening (leaf: push_back(&self))", f.site(bad[0]) if bad else "%s:%d" % (f.relfile, f.d["line"]),
             "%d recursive call(s)" % len(rec) if not bad else
             "the flat vector is edited directly (%s): a component whose own flattening has more than one entry (float2 a[3], float a[2][3]) gets the wrong flattened length, and setupRun accepts / rejects the wrong argument lists" % callee(bad[0]).split("::")[-1])
        if not leaf:
            loops = [n for n in f.walk() if n["k"] in ("ForStmt", "WhileStmt", "CXXForRangeStmt") and not n.get("mac")]
            per_entry = scratch_inserts if scratch_inserts else rec
            inloop = bool(per_entry) and all(any(any(x["i"] == c["i"] for x in walk(l)) for l in loops) for c in per_entry)
            bound = ""
            if loops and loops[0]["k"] == "ForStmt":
                bound = noid(render(kids(loops[0])[2] if len(kids(loops[0])) > 2 else loops[0], False))
            want = "size" if "Tuple" in f.q else "fieldCount"
            okb = inloop and want in noid(render(loops[0], False))
            R.ob("C10-R6", okb, f.q, "flatten:one recursive flattening per %s" % ("tuple entry" if "Tuple" in f.q else "field"), f.site(rec[0]) if rec else "%s:%d" % (f.relfile, f.d["line"]),
                 "recursion inside the loop over %s" % want if okb else "the component is not flattened once per %s" % ("entry (size times)" if "Tuple" in f.q else "field"))
    cc = prog.fn("occa::dtype_t::canBeCastedTo")
    sf = [c for c in cc.calls() if (callee(c) or "").endswith("::setFlattenedDtype")]
    R.ob("C10-R6", len(sf) == 2, cc.q, "flatten:both sides flattened before the comparison", cc.site(sf[0]) if sf else cc.relfile, "from.setFlattenedDtype(); to.setFlattenedDtype()")


META = {
    "technique": "who-may-call and dominance for the launch path (virtual dispatch resolved; generated operator() overloads parsed from the synthesised codegen header); guard dominance and ordering inside setupRun; assignment/flow facts for metadata on the fresh and cached routes",
    "level": "Static decision that every launch (the 129 generated call operators, run(args), run()) passes modeKernel_t::setupRun before the backend's run, that setupRun establishes argc == metaArgc before indexing the metadata, "
             "raises for both directions of pointer/non-pointer mismatch and checks memory dtypes with canBeCastedTo at the matching index, that validation is on by default, and that fresh and cached kernels both get "
             "metadata for the requested kernel, produced from isPointerType()/dtype() of every non-implicit argument in order (JSON keys: C11), and that the flattened dtype canBeCastedTo compares is built by structural recursion (every component, once per tuple entry).",
    "note": "Does not decide the cast lattice computed by dtype_t::canBeCastedTo nor vartype_t::isPointerType (value-level over types).",
}
