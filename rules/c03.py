"""C03 - memory-pool reservations never overlap and keep their contents (structural skeleton).

 R1  typestate Packed: a reservation is appended at offset `reserved` only when all live reservations are known to lie in [0, reserved)
     (no reservations, or after a resize; resize packs on every exit or exits early only when there is nothing to pack)
 R2  hole placement is dominated by  offset + bytes <= size ; the candidate offset only advances to aligned upper ends inside the ordered scan
 R3  migration: every reservation is re-pointed to the new buffer and every block copied before the old buffer is deleted
 R4  the three block-tracking loops (resize, setAlignment sizing, setAlignment migration) are the same algorithm
 R5  the reservation set is ordered by (offset, size)
"""
import re

from vlib.facts import noid, kids, strip, walk, is_call, call_args, call_object, callee, render, literal
from vlib.cfg import write_target
from vlib.work import AnalysisBroken
from vlib.flow import lex_keys

UNITS = ["src/occa/internal/core/memoryPool.cpp", "src/core/memoryPool.cpp", "src/occa/internal/modes/serial/memoryPool.cpp"]
MP = "occa::modeMemoryPool_t::"


def run(ctx):
    R = ctx.R
    prog = ctx.program(UNITS, thorough_all=False)
    R.explanation = ("Decides the structural skeleton that makes overlap impossible: appends happen only in the Packed state, hole placements are range-guarded and found by an ordered scan that only advances to "
                     "aligned upper ends, migrations re-point every reservation and copy every block before the old buffer dies, the three packing loops agree, the set is ordered by offset. "
                     "Does not decide the compaction arithmetic for all sizes nor byte contents.")
    R.assumptions += ["std::set iteration follows the comparator order", "alignment is non-zero (guarded in setAlignment)"]
    R.rule("C03-R1", "append at `reserved` only in the Packed state; resize packs or has nothing to pack on every exit", floor=4)
    R.rule("C03-R2", "hole placement guarded by offset+bytes<=size; ordered scan advances the candidate only to aligned upper ends", floor=4)
    R.rule("C03-R3", "migration re-points every reservation and copies every block before deleting the old buffer", floor=10)
    R.rule("C03-R6", "interval sweep: within a block the running end only grows (max with itself); it is overwritten only where a new block starts", floor=3)
    R.rule("C03-R4", "block-tracking loops of resize / setAlignment agree", floor=3)
    R.rule("C03-R5", "reservations ordered by (offset, size)", floor=3)

    rz = prog.fn(MP + "resize")
    rs = prog.fn(MP + "reserve")
    sa = prog.fn(MP + "setAlignment")

    # ---- R1 --------------------------------------------------------------------------
    cfg = rz.cfg
    IN = cfg.facts_in()
    # exits of resize: every edge into the exit block. Packed holds if the path assigned `reserved` (compaction), or went through the
    # empty-pool rebuild, or the exit is guarded by  reservations.size()==0  or  reserved==size
    packed_all = True
    n_exits = 0
    NOTHING = ("(this->reservations.size()==0)", "(this->reserved==this->size)")

    def conj(n, out):
        n = strip(n)
        if n["k"] == "BinaryOperator" and n.get("op") == "&&":
            conj(kids(n)[0], out)
            conj(kids(n)[1], out)
        else:
            out.append(n)
        return out

    def disj(n, out):
        n = strip(n)
        if n["k"] == "BinaryOperator" and n.get("op") == "||":
            disj(kids(n)[0], out)
            disj(kids(n)[1], out)
        else:
            out.append(render(n, False).replace(" ", ""))
        return out

    def nothing_to_pack(fs):
        """the facts imply: no reservations, or no gaps (reserved == size)"""
        for (k, pol) in fs:
            if not pol:
                continue
            for cj in conj(cfg.fact_node((k, pol)), []):
                ds = disj(cj, [])
                if ds and all(d in NOTHING for d in ds):
                    return True
        return False

    def packing_block(bid):
        for e in cfg.blocks[bid].elems:
            x = rz.nodes.get(e) if isinstance(e, int) else None
            if x is not None:
                t = write_target(x)
                if t is not None and render(strip(t), False) == "this->reserved":
                    return True
        return nothing_to_pack(IN.get(bid) or ())
    # blocks reachable from the entry without passing a packing block
    unpacked = set()
    work = [cfg.entry]
    while work:
        bid = work.pop()
        if bid in unpacked or packing_block(bid):
            continue
        unpacked.add(bid)
        work.extend(x for x in cfg.blocks[bid].succs if x is not None)
    for b in cfg.blocks.values():
        if b.id not in cfg.reach or cfg.exit not in b.succs or b.noret:
            continue
        n_exits += 1
        fs = cfg.facts_on_edge(b.id, cfg.exit, IN)
        guard = nothing_to_pack(fs)
        ok = guard or b.id not in unpacked
        site = rz.site(rz.nodes[b.elems[-1]]) if b.elems and isinstance(b.elems[-1], int) else "%s:%d" % (rz.relfile, rz.d["line"])
        R.ob("C03-R1", ok, rz.q, "exit:%s" % ("guarded-early-return" if guard else "after-packing" if ok else "unpacked"), site,
             "on this exit the reservations are packed into [0, reserved): %s" % ("nothing to pack (%s)" % sorted(k for k, p_ in fs if p_)[:1] if guard else "compaction ran or the pool was rebuilt empty") if ok else
             "resize can return without packing although reservations may be fragmented (facts on the exit: %s); reserve() then appends at `reserved` on top of a live reservation" % sorted(k for k, p_ in fs if p_))
        packed_all &= ok
    if n_exits < 2:
        raise AnalysisBroken("resize: exits not found")
    # appends in reserve
    rcfg = rs.cfg
    RIN = rcfg.facts_in()
    appends = [c for c in rs.walk() if c["k"] == "CXXMemberCallExpr" and callee(c).endswith("::slice") and render(strip(call_args(c)[0]), False) == "this->reserved"]
    for c in appends:
        rcs = [x for x in rs.walk() if x["k"] == "CXXMemberCallExpr" and callee(x) == MP + "resize" and rcfg.before(x, c)]
        fs = rcfg.facts_at(c, RIN)
        empty = any(pol and k.replace(" ", "") == "(this->reservations.size()==0)" for (k, pol) in fs)
        ok = empty or (bool(rcs) and packed_all)
        if not ok and rcs:
            # resize whose argument provably differs from size
            for x in rcs:
                fx = rcfg.facts_at(x, RIN)
                arg = render(call_args(x)[0], False).replace(" ", "")
                if arg.startswith("(this->reserved+") and any(pol and k.replace(" ", "").startswith("((this->reserved+") and k.replace(" ", "").endswith(">this->size)") for (k, pol) in fx):
                    ok = True
        R.ob("C03-R1", ok, rs.q, "append:slice(reserved, ...)", rs.site(c),
             "append happens in the Packed state (%s)" % ("empty pool" if empty else "after resize") if ok else
             "a reservation is appended at offset `reserved` although live reservations may extend beyond it")
    holes = [c for c in rs.walk() if c["k"] == "CXXMemberCallExpr" and callee(c).endswith("::slice") and c not in appends]
    # ---- R2 --------------------------------------------------------------------------
    for c in holes:
        a0 = strip(call_args(c)[0])
        if literal(a0) == 0:
            fs = rcfg.facts_at(c, RIN)
            ok = any(pol and k.replace(" ", "") == "(this->reservations.size()==0)" for (k, pol) in fs)
            # and the pool is large enough: dominated by !(reserved + bytes > size)
            ok2 = any((not pol) and k.replace(" ", "").endswith(">this->size)") for (k, pol) in fs)
            R.ob("C03-R2", ok and ok2, rs.q, "place:slice(0, bytes) in an empty pool", rs.site(c), "offset 0 only when there are no reservations and the request fits")
            continue
        fs = rcfg.facts_at(c, RIN)
        d = a0.get("d")
        bparam = rs.d["params"][0]["d"]
        # the request as it occupies the pool: the local that rounds the byte count up to whole alignment cells
        aligned = {v["d"] for v in rs.walk() if v["k"] == "VarDecl" and kids(v) and any(x["k"] == "DeclRefExpr" and x.get("d") == bparam for x in walk(v)) and
                   noid(render(kids(v)[0], False)).count("alignment") >= 2 and "/" in noid(render(kids(v)[0], False)) and "*" in noid(render(kids(v)[0], False))}
        if not aligned:
            raise AnalysisBroken("reserve: the aligned footprint of the request was not found")
        def guard(req):
            return any(pol and rcfg.fact_node((k, pol))["k"] == "BinaryOperator" and rcfg.fact_node((k, pol)).get("op") in ("<=", "<") and
                       "d%d" % d in rcfg._mention[(k, pol)] and (req & {int(t[1:]) for t in rcfg._mention[(k, pol)] if t[1:].isdigit()}) and
                       k.replace(" ", "").endswith("this->size)") for (k, pol) in fs)
        ok = guard(aligned)
        raw = (not ok) and guard({bparam})
        R.ob("C03-R2", ok, rs.q, "place:slice(offset, bytes) range guard", rs.site(c),
             "dominated by offset + aligned footprint <= size" if ok else
             ("the fit is tested with the raw byte count, but the reservation occupies whole alignment cells: with a size that is no multiple of the alignment the last cell is handed out although the pool does not contain it (reserved() > size())"
              if raw else "a hole placement is not bounded by the pool size"))
        defs = rs.local_defs().get(d, [])
        good = True
        detail = []
        for dn in defs:
            if dn["k"] == "VarDecl":
                good &= literal(kids(dn)[0]) == 0
            else:
                rhs = strip(kids(dn)[1] if dn["k"] != "CXXOperatorCallExpr" else kids(dn)[2])
                isok = is_call(rhs) and callee(rhs) == "std::max" and any(strip(x).get("d") == d for x in call_args(rhs))
                other = [strip(x) for x in call_args(rhs) if strip(x).get("d") != d] if isok else []
                if isok and other and other[0]["k"] == "DeclRefExpr":
                    od = rs.local_defs().get(other[0]["d"], [])
                    e = render(kids(od[0])[0], False).replace(" ", "") if od and kids(od[0]) else ""
                    isok = "m->offset+m->size" in e.replace("(", "").replace(")", "") and "/this->alignment" in e and "*this->alignment" in e
                    detail.append(e)
                good &= bool(isok)
        R.ob("C03-R2", good and len(defs) >= 2, rs.q, "scan:offset = max(offset, aligned end of m)", rs.site(c), "candidate offset starts at 0 and only advances to aligned upper ends of existing reservations")
        loops = [n for n in rs.walk() if n["k"] == "CXXForRangeStmt"]
        ok = len(loops) == 1 and "this->reservations" in render(kids(loops[0])[0], False)
        brk = False
        if ok:
            for n in walk(kids(loops[0])[-1]):
                if n["k"] == "IfStmt" and any(x["k"] == "BreakStmt" for x in walk(kids(n)[1])):
                    cnd = render(kids(n)[0], False).replace(" ", "")
                    brk = cnd.startswith("(mlo>=") and any(x["k"] == "DeclRefExpr" and x.get("d") in aligned for x in walk(kids(n)[0])) and "offset+" in cnd
        R.ob("C03-R2", ok and brk, rs.q, "scan:ordered walk stops at the first fitting gap", rs.site(loops[0]) if loops else rs.relfile, "walks `reservations` in order and stops when the next reservation starts at or after offset + aligned footprint")

    # ---- R3 --------------------------------------------------------------------------
    def migration_checks(f, newbuf_name="newBuffer"):
        cfg = f.cfg
        loops = [n for n in f.walk() if n["k"] == "DoStmt" and not n.get("mac")]
        mig = [lp for lp in loops if any(is_call(c) and callee(c).endswith("::setPtr") for c in walk(lp))]
        if len(mig) != 1:
            raise AnalysisBroken("%s: migration loop not found" % f.q)
        lp = mig[0]
        setptrs = [c for c in f.walk() if is_call(c) and callee(c).endswith("::setPtr")]
        memcpys = [c for c in f.walk() if is_call(c) and callee(c).endswith("::memcpy")]
        for c in setptrs:
            ok = render(strip(call_args(c)[1]), False) == newbuf_name and render(strip(call_args(c)[0]), False) == "m"
            R.ob("C03-R3", ok, f.q, "setPtr(m, newBuffer, ...)", f.site(c), "reservation re-pointed into the new buffer")
        for c in memcpys:
            a = [render(strip(x), False) for x in call_args(c)]
            ok = a[0] == newbuf_name and a[1] == "offset" and a[2] == "this->buffer" and a[3] == "lo" and a[4].replace(" ", "") == "(hi-lo)"
            R.ob("C03-R3", ok, f.q, "memcpy(newBuffer, offset, buffer, lo, hi-lo)", f.site(c), "block copied from its old position to its packed position" if ok else "block copy arguments changed: %s" % a)
        # first element re-pointed before the loop
        first = [c for c in setptrs if not any(x is c for x in walk(lp))]
        R.ob("C03-R3", bool(first) and all(cfg.before(c, lp) for c in first), f.q, "first reservation re-pointed before the loop", f.site(lp), "%d setPtr before the loop" % len(first))
        # inside the loop: every assignment m = *it is followed (before the loop condition / next iteration) by setPtr
        body = kids(lp)[0]
        assigns = [n for n in walk(body) if write_target(n) is not None and render(strip(write_target(n)), False) == "m"]
        inloop = [c for c in setptrs if any(x is c for x in walk(lp))]
        cond = kids(lp)[1]
        for n in assigns:
            p = cfg.find_path(cfg.position(n), lambda b, i, e: e == cond["i"] or e == strip(cond)["i"], lambda b, i, e: any(e == c["i"] for c in inloop))
            R.ob("C03-R3", p is None, f.q, "every visited reservation re-pointed", f.site(n),
                 "each reservation taken from the set is re-pointed before the next iteration" if p is None else "a reservation can be visited without being re-pointed: it keeps pointing into the deleted buffer", path=p)
        # every block closed is copied: path from the loop body start to `lo = mlo` passes memcpy; and to the loop exit passes memcpy
        lo_w = [n for n in walk(body) if write_target(n) is not None and render(strip(write_target(n)), False) == "lo"]
        first_el = None
        for x in walk(body):
            if cfg.pos.get(x["i"]):
                first_el = x
                break
        for n in lo_w:
            p = cfg.find_path(cfg.position(first_el), lambda b, i, e: e == n["i"], lambda b, i, e: any(e == c["i"] for c in memcpys), start_after=False)
            R.ob("C03-R3", p is None, f.q, "block closed -> copied", f.site(n), "a finished block is copied before tracking moves to the next block" if p is None else "a block is abandoned without being copied", path=p)
        dels = [d for d in f.walk() if d["k"] == "CXXDeleteExpr" and render(strip(kids(d)[0]), False) == "this->buffer" and cfg.before(lp, d)]
        R.ob("C03-R3", len(dels) == 1, f.q, "old buffer deleted after the migration loop", f.site(dels[0]) if dels else f.relfile, "delete buffer comes after the loop")
        if dels:
            # last block copied: every path from loop body start to the delete passes a memcpy after the final `it == end` test
            p = cfg.find_feasible_path(cfg.position(first_el), lambda b, i, e: e == dels[0]["i"], lambda b, i, e: any(e == c["i"] for c in memcpys), start_after=False)
            R.ob("C03-R3", p is None, f.q, "last block copied before delete", f.site(dels[0]), "no path reaches the delete without copying" if p is None else "the old buffer can be deleted before the last block was copied", path=p)
            asg = [n for n in f.walk() if write_target(n) is not None and render(strip(write_target(n)), False) == "this->buffer" and render(strip(kids(n)[1]), False) == newbuf_name]
            R.ob("C03-R3", bool(asg) and all(cfg.before(dels[0], n) for n in asg), f.q, "buffer = newBuffer after delete", f.site(asg[0]) if asg else f.relfile, "pool switches to the new buffer after releasing the old one")
        return lp
    lp_rz = migration_checks(rz)
    lp_sa = migration_checks(sa)

    # ---- R4 --------------------------------------------------------------------------
    def track_sig(f, lp, keep):
        out = []
        for n in walk(kids(lp)[0]):
            if n["k"] == "IfStmt":
                out.append("if " + render(kids(n)[0], False))
            elif n["k"] == "VarDecl" and kids(n) and n["n"] in keep:
                out.append("%s = %s" % (n["n"], render(kids(n)[0], False)))
            elif write_target(n) is not None and render(strip(write_target(n)), False) in keep:
                out.append(render(n, False))
        return [s.replace("newAlignment", "ALIGN").replace("this->alignment", "ALIGN") for s in out]
    keep_all = {"lo", "hi", "offset", "newReserved", "reservationSize", "mlo", "mhi", "m", "it"}
    sizing = [n for n in sa.walk() if n["k"] == "DoStmt" and not n.get("mac") and n is not lp_sa]
    if len(sizing) != 1:
        raise AnalysisBroken("setAlignment: sizing loop not found")
    s_rz = track_sig(rz, lp_rz, keep_all)
    s_sz = track_sig(sa, sizing[0], keep_all)
    s_mg = track_sig(sa, lp_sa, keep_all)
    core = lambda s: [x for x in s if not x.startswith("(offset ") and "newReserved" not in x]
    R.ob("C03-R4", core(s_rz) == core(s_sz), MP + "resize/setAlignment", "loops:resize == setAlignment(sizing)", sa.site(sizing[0]),
         "same block tracking (%d steps)" % len(core(s_rz)) if core(s_rz) == core(s_sz) else "block tracking differs: %s" % [(a, b) for a, b in zip(core(s_rz), core(s_sz)) if a != b][:2])
    R.ob("C03-R4", core(s_rz) == core(s_mg), MP + "resize/setAlignment", "loops:resize == setAlignment(migration)", sa.site(lp_sa),
         "same block tracking" if core(s_rz) == core(s_mg) else "block tracking differs: %s" % [(a, b) for a, b in zip(core(s_rz), core(s_mg)) if a != b][:2])
    nr = lambda s: sorted(x for x in s if "newReserved" in x or x.startswith("reservationSize"))
    R.ob("C03-R4", nr(s_rz) == nr(s_sz), MP + "resize/setAlignment", "loops:same packed total", sa.site(sizing[0]),
         "sizing loop accumulates the same rounded block sizes as the packing loop" if nr(s_rz) == nr(s_sz) else "the new buffer is sized differently from how the blocks are packed: %s vs %s" % (nr(s_rz), nr(s_sz)))
    off = lambda s: sorted(x for x in s if x.startswith("(offset ") or x.startswith("reservationSize"))
    R.ob("C03-R4", off(s_rz) == off(s_mg), MP + "resize/setAlignment", "loops:same packed offsets", sa.site(lp_sa), "migration advances the packed offset by the same rounded block size")
    # ---- R6: the reservations are sorted by (offset, size); a reservation inside the current block can end BEFORE the block does ----------
    for f, lp, nm in ((rz, lp_rz, "resize"), (sa, sizing[0], "setAlignment(sizing)"), (sa, lp_sa, "setAlignment(migration)")):
        tests = [n for n in walk(kids(lp)[0]) if n["k"] == "IfStmt" and strip(kids(n)[0])["k"] == "BinaryOperator" and strip(kids(n)[0]).get("op") in (">", "<", ">=", "<=")
                 and all(strip(x)["k"] == "DeclRefExpr" and strip(x).get("loc") for x in kids(strip(kids(n)[0])))]
        tests = [t_ for t_ in tests if len(kids(t_)) >= 3] or tests     # the new-block test has an else branch (same block)
        if len(tests) != 1:
            raise AnalysisBroken("%s: the new-block test of the sweep was not found" % nm)
        t = strip(kids(tests[0])[0])
        a, b = [strip(x) for x in kids(t)]
        # the running end is the operand that is written inside the loop; the other one is the next reservation's start
        written = {strip(write_target(n)).get("d") for n in walk(kids(lp)[0]) if write_target(n) is not None and strip(write_target(n))["k"] == "DeclRefExpr"}
        end = a if a.get("d") in written else b
        then_ids = {x["i"] for x in walk(kids(tests[0])[1])}
        ws = [n for n in walk(kids(lp)[0]) if write_target(n) is not None and strip(write_target(n)).get("d") == end["d"]]
        same = [n for n in ws if n["i"] not in then_ids]
        okm = bool(same)
        for n in same:
            rhs = strip(kids(n)[1])
            mx = is_call(rhs) and callee(rhs).endswith("std::max") and any(strip(x)["k"] == "DeclRefExpr" and strip(x).get("d") == end["d"] for x in call_args(rhs))
            if not mx and rhs["k"] == "DeclRefExpr":
                # `if (mhi > hi) hi = mhi;` is the same maximum
                for a_ in f.ancestors(n):
                    if a_["i"] == lp["i"]:
                        break
                    if a_["k"] == "IfStmt" and len(kids(a_)) >= 2 and any(x["i"] == n["i"] for x in walk(kids(a_)[1])):
                        c_ = strip(kids(a_)[0])
                        if c_["k"] == "BinaryOperator" and c_.get("op") in (">", ">=", "<", "<="):
                            l_, r_ = [strip(x) for x in kids(c_)]
                            if l_["k"] == r_["k"] == "DeclRefExpr":
                                big, small = (l_, r_) if c_["op"] in (">", ">=") else (r_, l_)
                                mx = mx or (big.get("d") == rhs.get("d") and small.get("d") == end["d"])
            okm = okm and bool(mx)
        R.ob("C03-R6", okm, f.q, "sweep:%s: `%s` inside a block <- max(%s, ...)" % (nm, end.get("n", "end"), end.get("n", "end")), f.site(same[0]) if same else f.site(tests[0]),
             "the block end never moves backwards" if okm else
             "the running end of the current block is overwritten by the end of the reservation just visited: a slice strictly inside a live reservation sorts after it and pulls the block end back - the tail of the parent is neither counted in `reserved` nor copied to the new buffer")
    # allocation size of the new buffer in setAlignment is the total computed by the sizing loop
    ml = [c for c in sa.walk() if c["k"] == "CXXMemberCallExpr" and callee(c).endswith("modeBuffer_t::malloc")]
    ok = len(ml) == 1 and render(strip(call_args(ml[0])[0]), False) == "newReserved" and sa.cfg.before(sizing[0], ml[0])
    R.ob("C03-R4", ok, sa.q, "alloc:newBuffer->malloc(newReserved) after sizing", sa.site(ml[0]) if ml else sa.relfile, "the new buffer has exactly the packed size")

    # ---- R5 --------------------------------------------------------------------------
    cmpf = [f for f in prog.funcs.values() if f.q == "occa::modeMemoryPool_t::compare::operator()"]
    if len(cmpf) != 1:
        raise AnalysisBroken("reservation comparator vanished")
    cf = cmpf[0]
    try:
        keys = lex_keys(cf)
    except ValueError as e:
        raise AnalysisBroken("reservation comparator is not a recognised lexicographic comparison: %s" % e)
    ok = bool(keys) and keys[0] == ("$->offset", True)
    R.ob("C03-R5", ok, cf.q, "order:offset first, ascending", "%s:%d" % (cf.relfile, cf.d["line"]),
         "reservations are ordered by ascending offset (keys: %s)" % keys if ok else "the set is not ordered by ascending offset first (keys: %s): the packing loops walk it expecting offsets to rise" % keys)
    ok2 = bool(keys) and keys[-1][0] == "$"
    R.ob("C03-R5", ok2, cf.q, "order:object identity is the last key", "%s:%d" % (cf.relfile, cf.d["line"]),
         "two distinct reservations never compare equivalent" if ok2 else
         "two distinct reservations with equal %s compare equivalent: std::set drops the second one (a slice or cast of the same range), so resize does not re-point it" % [k for k, _ in keys])
    rec = prog.record("occa::modeMemoryPool_t")
    fl = [x for x in rec["fields"] if x["n"] == "reservations"]
    td = prog.typedefs.get("occa::modeMemoryPool_t::reservationSet")
    ok = bool(fl) and td is not None and td["ct"].startswith("std::set<occa::modeMemory_t *, occa::modeMemoryPool_t::compare")
    R.ob("C03-R5", ok, "occa::modeMemoryPool_t", "reservations: std::set with compare", "src/occa/internal/core/memoryPool.hpp", "set type is %s" % (td["ct"][:70] if td else "?"), nontrivial=False)
    sp = prog.fn("occa::serial::memoryPool::setPtr")
    ws = {render(strip(write_target(n)), False): render(kids(n)[1], False) for n in sp.walk() if write_target(n) is not None}
    ok = ws.get("mem->offset") == "offset" and ws.get("mem->ptr", "").replace(" ", "") == "(buf->ptr+offset)"
    R.ob("C03-R5", ok, sp.q, "setPtr:offset and ptr move together", "%s:%d" % (sp.relfile, sp.d["line"]), "a re-pointed reservation records its new offset and the matching pointer")


META = {
    "technique": "typestate (Packed) over the CFGs of reserve/resize with branch facts; guard dominance; must-pass-through inside the migration loops; sibling agreement of the three packing loops after normalisation; lexicographic key sequence derived from the comparator (any of four comparator idioms)",
    "level": "Static all-paths decision of the skeleton that excludes overlap: reservations are appended at `reserved` only when packed (empty pool, or after a resize whose every exit either compacted or had nothing to "
             "compact), hole placements are bounded by the pool size and found by an ordered scan that advances only to aligned upper ends, both migrations re-point every visited reservation and copy every closed block "
             "(including the last) before the old buffer is deleted, the sizing and packing loops are the same algorithm so the new buffer is exactly large enough, inside a block the running end of the sweep only grows, and the set is ordered by offset. "
             "The suite never fragments a pool; the rule sees the fallback path regardless.",
    "note": "Does not decide the compaction arithmetic for all sizes/alignments, nor that bytes read back equal bytes written (value-level). An outside dynamic probe of the unchanged tree (DESIGN 10.9, probes/P03) shows that this arithmetic IS wrong when live slices outlive their parent or after setAlignment (packed blocks need more cells than `reserved` counts: heap overflow); no rule here reports that.",
}
