"""C27 - hash_t strings are faithful and hashing has no undefined behaviour (structural clauses).

 R1  no overflow-capable arithmetic on signed integers in hash() / operator^
 R2  getString() is a function of the current words on every path (no value-keyed memo), and is the 16-character prefix of getFullString()
 R3  codec widths and order: toHex / fromHex use two characters per byte, high nibble first; getFullString / fromString cover the same 8 words
"""
from vlib.facts import kids, strip, walk, is_call, call_args, call_object, callee, render, literal
from vlib.cfg import write_target
from vlib.work import AnalysisBroken

UNITS = ["src/utils/hash.cpp"]
SIGNED = ("int", "long", "short", "signed char", "char", "long long", "const int", "const long", "occa::dim_t", "dim_t")


def run(ctx):
    R = ctx.R
    prog = ctx.program(UNITS, thorough_all=False)
    R.explanation = ("Decides, from the typed AST, that the hash mixing and combining steps perform no signed multiplication/addition/shift, that the short string is recomputed from the full string on every path, "
                     "and that the hex writer and reader agree on width and nibble order over the same eight words. Does not decide collision properties.")
    R.rule("C27-R4", "one byte-mixing loop: every entry point hashes its bytes through the same (pointer, length) core", floor=2)
    R.rule("C27-R1", "no *, +, -, << on a signed integer type with non-constant operands in the hashing functions", floor=2)
    R.rule("C27-R5", "hashing and the hex codec keep no mutable static state (a hash string is a function of the hash alone, also under concurrent use)", floor=6)
    R.rule("C27-R2", "getString recomputed from getFullString on every path; 16-character prefix", floor=3)
    R.rule("C27-R3", "hex codec: 2 chars per byte, high nibble first, same 8 words", floor=6)

    hs = [f for f in prog.fns("occa::hash") if "const void *" in f.d["sig"]]
    xr = [f for f in prog.funcs.values() if f.q == "occa::hash_t::operator^" and f.d.get("tmpl") != "pattern"]
    if len(hs) != 1 or not xr:
        raise AnalysisBroken("hash(const void*, udim_t) / hash_t::operator^ vanished")
    for f in hs + xr[:1]:
        n_arith = 0
        for n in f.walk():
            if n["k"] in ("BinaryOperator", "CompoundAssignOperator") and n.get("op") in ("*", "+", "-", "<<", "*=", "+=", "-=", "<<="):
                t = f.type(n) if n["k"] == "BinaryOperator" else f.tname(n.get("ct"))
                if "*" in t or "char *" in t:      # pointer arithmetic
                    continue
                ops = [strip(x) for x in kids(n)]
                if all(o["k"] in ("IntegerLiteral", "CharacterLiteral") for o in ops):
                    continue
                n_arith += 1
                signed = t in SIGNED and "unsigned" not in t
                # loop counters compared against small constant bounds are not hash arithmetic: skip ++ / += 1 on induction variables
                R.ob("C27-R1", not signed, f.q, "arith:%s on %s" % (n.get("op"), t), f.site(n),
                     "computed in an unsigned type" if not signed else "signed %s can overflow for ordinary inputs (undefined behaviour): %s" % (n.get("op"), render(n, False)[:80]))
        for n in f.walk():
            if n["k"] == "BinaryOperator" and n.get("op") == "^":
                R.ob("C27-R1", True, f.q, "xor:%s" % f.type(n), f.site(n), "xor cannot overflow", nontrivial=False)

    gs = prog.fn("occa::hash_t::getString")
    cfg = gs.cfg
    ws = [n for n in gs.walk() if (write_target(n) is not None and render(strip(write_target(n)), False) == "this->h_string")]
    full = [n for n in ws if any(is_call(x) and callee(x) == "occa::hash_t::getFullString" for x in walk(n))]
    ok = bool(full)
    p = None
    if ok:
        p = cfg.find_path((cfg.entry, -1), "exit", lambda b, i, e: any(e == n["i"] for n in full))
        ok = p is None
    R.ob("C27-R2", ok, gs.q, "recompute:h_string = getFullString() on all paths", "%s:%d" % (gs.relfile, gs.d["line"]),
         "every path recomputes the string from the current words" if ok else
         "a path returns a cached string without recomputing it: the cache key is the value of the words, so the all-zero hash ((a ^ a).getString()) yields \"\" and direct writes to the words can return stale text", path=p)
    rets = [n for n in gs.walk() if n["k"] == "ReturnStmt"]
    ok = all(render(strip(kids(r)[0]), False) == "this->h_string" or any(is_call(x) and callee(x) == "occa::hash_t::getFullString" for x in walk(r)) for r in rets)
    R.ob("C27-R2", ok, gs.q, "return:the recomputed string", "%s:%d" % (gs.relfile, gs.d["line"]), "returns the string just computed")
    pre = [n for n in gs.walk() if is_call(n) and callee(n).endswith("::substr") and [literal(a) for a in call_args(n)][:2] == [0, 16]]
    R.ob("C27-R2", len(pre) >= 1, gs.q, "prefix:substr(0, 16)", "%s:%d" % (gs.relfile, gs.d["line"]), "short string is the first 16 characters of the full string")
    cmp_sh = [n for n in gs.walk() if n["k"] == "MemberExpr" and n.get("n", "").endswith("hash_t::sh")]
    R.ob("C27-R2", not cmp_sh, gs.q, "memo:none", "%s:%d" % (gs.relfile, gs.d["line"]), "no value-keyed memo" if not cmp_sh else "getString consults the memo words `sh`")

    # ---- R3 --------------------------------------------------------------------------
    th = [f for f in prog.fns("occa::toHex", tmpl="pattern")]
    fh = [f for f in prog.fns("occa::fromHex", tmpl="pattern") if len(f.d["params"]) == 3]
    if len(th) != 1 or len(fh) != 1:
        raise AnalysisBroken("toHex / fromHex templates vanished")
    th, fh = th[0], fh[0]
    apps = [n for n in th.walk() if n["k"] == "CXXOperatorCallExpr" and n.get("op") == "+=" ]
    seq = [render(kids(n)[2], False).replace(" ", "") for n in apps]
    ok = len(seq) == 2 and ">>4" in seq[0] and "&15" in seq[0] and ">>" not in seq[1] and "&15" in seq[1]
    R.ob("C27-R3", ok, th.q, "toHex:high nibble then low nibble", "%s:%d" % (th.relfile, th.d["line"]), "two characters per byte: %s" % seq)
    loops = [n for n in th.walk() if n["k"] == "ForStmt"]
    ok = len(loops) == 1 and "bytes" in render(kids(loops[0])[1], False) and any(n["k"] == "VarDecl" and n["n"] == "bytes" and "sizeof" in render(n, False) for n in th.walk())
    R.ob("C27-R3", ok, th.q, "toHex:sizeof(value) bytes", "%s:%d" % (th.relfile, th.d["line"]), "one iteration per byte of the value")
    asg = [n for n in fh.walk() if n["k"] == "BinaryOperator" and n.get("op") == "=" and "c_out" in render(kids(n)[0], False)]
    ok = len(asg) == 1 and render(kids(asg[0])[1], False).replace(" ", "") == "((c1<<4)|c2)"
    c1 = [n for n in fh.walk() if n["k"] == "VarDecl" and n["n"] == "c1"]
    c2 = [n for n in fh.walk() if n["k"] == "VarDecl" and n["n"] == "c2"]
    ok = ok and c1 and c2 and "((2*i)+0)" in render(c1[0], False).replace(" ", "") and "((2*i)+1)" in render(c2[0], False).replace(" ", "")
    R.ob("C27-R3", bool(ok), fh.q, "fromHex:(c[2i] << 4) | c[2i+1]", "%s:%d" % (fh.relfile, fh.d["line"]), "reader takes the high nibble first, two characters per byte")
    gf = prog.fn("occa::hash_t::getFullString")
    fs_ = prog.fn("occa::hash_t::fromString")
    lp = [n for n in gf.walk() if n["k"] == "ForStmt"]
    ok = len(lp) == 1 and render(kids(lp[0])[1], False).replace(" ", "").endswith("<8)") and any(is_call(c) and callee(c) == "occa::toHex" and "this->h[" in render(c, False) for c in gf.walk())
    R.ob("C27-R3", ok, gf.q, "full string: toHex(h[i]) for i in 0..7", "%s:%d" % (gf.relfile, gf.d["line"]), "eight words in index order")
    fc = [c for c in fs_.walk() if is_call(c) and callee(c) == "occa::fromHex"]
    ok = len(fc) == 1 and render(call_args(fc[0])[1], False).endswith(".h") and render(call_args(fc[0])[2], False).replace(" ", "") in ("(8*sizeof(4))", "(8*4)", "32")
    R.ob("C27-R3", ok, fs_.q, "fromString: fromHex(s, h, 8 * sizeof(int))", "%s:%d" % (fs_.relfile, fs_.d["line"]), "reads the same eight words")
    rec = prog.record("occa::hash_t")
    hf = [x for x in rec["fields"] if x["n"] == "h"]
    ok = bool(hf) and hf[0]["t"].replace(" ", "") == "int[8]"
    R.ob("C27-R3", ok, "occa::hash_t", "words: int h[8]", "include/occa/utils/hash.hpp", "hash words are %s" % (hf[0]["t"] if hf else "?"), nontrivial=False)
    init = [n for n in fs_.walk() if write_target(n) is not None and render(strip(write_target(n)), False).endswith(".initialized")]
    R.ob("C27-R3", bool(init), fs_.q, "fromString: marks initialized", "%s:%d" % (fs_.relfile, fs_.d["line"]), "a parsed hash is initialized")

    # ---- R5 --------------------------------------------------------------------------
    path_fns = [th, fh] + [f for f in prog.funcs.values() if f.d.get("tmpl") != "inst" and (f.q.startswith("occa::hash_t::") or f.q == "occa::hash" or f.q in ("occa::hashFile",))]
    for f in path_fns:
        st = [v for v in f.walk() if v["k"] == "VarDecl" and v.get("static") and not f.type(v).strip().startswith("const ")]
        R.ob("C27-R5", not st, f.q + " " + f.d.get("sig", "")[:30], "no mutable static local", f.site(st[0]) if st else "%s:%d" % (f.relfile, f.d["line"]),
             "stateless" if not st else "static local `%s` is shared by all callers: two threads formatting their own hashes overwrite each other's characters (a data race; the string no longer names the hash)" % st[0]["n"], nontrivial=False)

    # ---- R4: equal bytes must give equal hashes whichever overload receives them -------------------------------------------------------------
    def writes_state(f, depth=0):
        for n in f.walk():
            t = write_target(n)
            if t is not None and any(x["k"] == "MemberExpr" and x.get("n") == "occa::hash_t::h" for x in walk(t)) or \
                    (t is not None and strip(t)["k"] == "ArraySubscriptExpr" and any(x["k"] == "DeclRefExpr" and "int *" in f.type(x) for x in walk(t))):
                return True
        return False
    helpers = {f.q for f in prog.funcs.values() if f.d.get("tmpl") != "inst" and f.d["file"].endswith("src/utils/hash.cpp") and not f.q.startswith("occa::hash_t::") and f.q != "occa::hash" and writes_state(f)}
    mixers = []
    for f in prog.fns("occa::hash"):
        if f.d.get("tmpl") == "inst":
            continue
        loops = [n for n in f.walk() if n["k"] in ("ForStmt", "WhileStmt", "DoStmt", "CXXForRangeStmt") and not n.get("mac")]
        inloop = False
        for lp in loops:
            for x in walk(lp):
                t = write_target(x)
                if t is not None and (any(y["k"] == "MemberExpr" and y.get("n") == "occa::hash_t::h" for y in walk(t)) or strip(t)["k"] == "ArraySubscriptExpr" and "int" in f.type(strip(t))):
                    inloop = True
                if is_call(x) and callee(x) in helpers:
                    inloop = True
        if inloop:
            mixers.append(f)
    sigs = [f.d["sig"] for f in mixers]
    ok = len(mixers) == 1 and "const void *" in sigs[0]
    R.ob("C27-R4", ok, "occa::hash", "byte-mixing loops: %d" % len(mixers), mixers[-1].site(kids(mixers[-1].d["body"])[0]) if mixers else "src/utils/hash.cpp",
         "only hash(const void*, udim_t) mixes bytes into the state" if ok else
         "%d overloads loop over their input themselves (%s): they can widen a byte differently (char vs unsigned char), so the same bytes with the top bit set hash differently through different entry points" % (len(mixers), sigs))
    fw = 0
    for f in prog.fns("occa::hash"):
        if f.d.get("tmpl") == "inst" or f in mixers:
            continue
        if any(is_call(c) and callee(c) == "occa::hash" for c in f.walk()):
            fw += 1
    R.ob("C27-R4", fw >= 2, "occa::hash", "%d overloads forward to the core" % fw, "src/utils/hash.cpp", "strings and C strings are hashed as (data, size)", nontrivial=False)


META = {
    "technique": "typed-AST query for signed arithmetic (computation types after promotion as resolved by clang); must-pass-through on getString's CFG; codec shape/width agreement between toHex/fromHex and getFullString/fromString",
    "level": "Static decision that hashing and hash combination contain no signed multiplication, addition or shift on non-constant operands (so no signed-overflow UB for any input), that getString() recomputes its result "
             "from the current words on every path (no value-keyed memo that fails for the zero hash or after direct writes) and is the 16-character prefix, that the hex codec and the 8-word loops agree in width and order, and that no function on the hashing / hash-string path keeps mutable static state.",
    "note": "Does not decide distribution/collision properties, nor equal bytes => equal hashes across processes beyond the absence of process-dependent inputs in hash() (no address, time or random source is read there: enforced by R1's operand scan only for arithmetic).",
}
