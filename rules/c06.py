"""C06 - kernel cache keys separate every build configuration (structural clauses).

 R1  key completeness: the key contains a hash of the whole kernel-property object (names and values); that very object is what the
     build receives; in between it is only extended by non-semantic keys; build functions read properties only from it
 R2  domain separation: xor-combinations of bare property values are only ever used inside a key that also has the whole-object term
 R3  one key: both build entry points take the cache directory from setupKernelInfo's key, and io::hashDir derives it from the hash string only
"""
from vlib.facts import kids, strip, walk, is_call, call_args, call_object, callee, render, literal, noid, decl_of
from vlib.cfg import write_target
from vlib.work import AnalysisBroken
from vlib.refile import refile

UNITS = ["src/core/device.cpp", "src/core/kernel.cpp", "src/occa/internal/modes/serial/device.cpp", "src/occa/internal/modes/openmp/device.cpp",
         "src/occa/internal/io/cache.cpp", "src/occa/internal/core/device.cpp", "src/utils/hash.cpp", "src/occa/internal/modes/openmp/utils.cpp"]
# keys that may be added to the property object after the key was computed, one reason each
NONSEMANTIC_AFTER_KEY = {"hash": "the key itself, recorded for the build file"}
# property reads in build functions that are not taken from the kernel property object, one reason each
FOREIGN_READS = {
    ("occa::serial::device::buildLauncherKernel", "kernel"): "launcher kernels of GPU modes are built with the host device's own kernel properties (part of the device, not of the kernel configuration)",
}


def xor_terms(n):
    n = strip(n)
    if n["k"] == "CXXOperatorCallExpr" and n.get("op") == "^" and len(kids(n)) == 3:
        return xor_terms(kids(n)[1]) + xor_terms(kids(n)[2])
    return [n]


def run(ctx):
    R = ctx.R
    prog = ctx.program(UNITS)
    R.explanation = ("Decides that the cache key covers the complete kernel-property object by name and value, that the object handed to the backend build is the hashed one, that build code reads its configuration only "
                     "from that object, and that a single key selects the cache directory. Does not decide collision freeness of the byte hash.")
    R.assumptions += ["process environment (OCCA_* variables, global settings()) held fixed, as in the statement", "json::hash hashes the dump, which includes keys (C24-R3)"]
    R.rule("C06-R1", "key covers the whole kernel-property object that the build reads", floor=12)
    R.rule("C06-R2", "bare-value xor combinations only inside a key with a name-keyed whole-object term", floor=2)
    R.rule("C06-R3", "single key selects the cache directory", floor=4)

    ski = prog.fn("occa::device::setupKernelInfo")
    p_kp = ski.d["params"][2]
    p_kh = ski.d["params"][3]
    asg = [n for n in ski.walk() if n["k"] == "CXXOperatorCallExpr" and n.get("op") == "=" and strip(kids(n)[1]).get("d") == p_kh["d"]]
    if not asg:
        raise AnalysisBroken("setupKernelInfo: kernelHash assignment vanished")
    terms = xor_terms(kids(asg[0])[2])
    whole = [t for t in terms if is_call(t) and callee(t) == "occa::hash" and strip(call_args(t)[0])["k"] == "DeclRefExpr" and strip(call_args(t)[0]).get("d") == p_kp["d"]]
    R.ob("C06-R1", len(whole) >= 1, ski.q, "key term: hash(kernelProps) (whole object, names and values)", ski.site(asg[0]),
         "the key includes the hash of the complete property object" if whole else
         "the key is built only from an enumerated list of bare property values: properties the build reads but the list misses (okl/*, kernel/include_occa, ...) do not separate configurations, and values can cancel or swap")
    src_t = [t for t in terms if strip(t)["k"] == "DeclRefExpr" and strip(t).get("d") == ski.d["params"][1]["d"]]
    R.ob("C06-R1", len(src_t) == 1, ski.q, "key term: sourceHash", ski.site(asg[0]), "the kernel source text is part of the key")
    dev_t = [t for t in terms if is_call(t) and callee(t) == "occa::device::hash"]
    R.ob("C06-R1", len(dev_t) == 1, ski.q, "key term: device hash", ski.site(asg[0]), "the device (mode, version) is part of the key")
    # kernelProps is assigned exactly once, before the key, from kernelProperties(props)
    kp_w = [n for n in ski.walk() if n["k"] == "CXXOperatorCallExpr" and n.get("op") == "=" and strip(kids(n)[1]).get("d") == p_kp["d"]]
    ok = len(kp_w) == 1 and "kernelProperties" in render(kids(kp_w[0])[2], False) and ski.cfg.before(kp_w[0], asg[0])
    R.ob("C06-R1", ok, ski.q, "kernelProps = kernelProperties(props) before the key", ski.site(kp_w[0]) if kp_w else ski.relfile, "the hashed object is the fully layered property set")
    # the same object goes to the backend
    bk = prog.fn("occa::device::buildKernel")
    sk_call = [c for c in bk.walk() if is_call(c) and callee(c) == "occa::device::setupKernelInfo"]
    mb_call = [c for c in bk.walk() if c["k"] == "CXXMemberCallExpr" and callee(c) == "occa::modeDevice_t::buildKernel"]
    if len(sk_call) != 1 or len(mb_call) != 1:
        raise AnalysisBroken("device::buildKernel: setupKernelInfo / modeDevice->buildKernel calls not found")
    v_props = strip(call_args(sk_call[0])[2])
    v_hash = strip(call_args(sk_call[0])[3])
    a = call_args(mb_call[0])
    ok = decl_of(a[3]) == v_props.get("d") and decl_of(a[2]) == v_hash.get("d")
    R.ob("C06-R1", ok, bk.q, "backend receives the hashed property object and its key", bk.site(mb_call[0]), "modeDevice->buildKernel(file, name, %s, %s)" % (render(a[2], False), render(a[3], False)))
    for n in bk.walk():
        if n["k"] == "CXXOperatorCallExpr" and n.get("op") == "=" and len(kids(n)) == 3:
            lhs = strip(kids(n)[1])
            if lhs["k"] == "CXXOperatorCallExpr" and lhs.get("op") == "[]" and strip(kids(lhs)[1]).get("d") == v_props.get("d"):
                k = literal(kids(lhs)[2])
                between = bk.cfg.before(sk_call[0], n) and bk.cfg.before(n, mb_call[0])
                if between:
                    ok = k in NONSEMANTIC_AFTER_KEY
                    R.ob("C06-R1", ok, bk.q, "after-key write:%s" % k, bk.site(n), NONSEMANTIC_AFTER_KEY.get(k, "") if ok else "a property is added after the key was computed: the build sees a setting the key does not cover")
        if write_target(n) is not None and strip(write_target(n)).get("d") == v_props.get("d") and bk.cfg.before(sk_call[0], n):
            R.ob("C06-R1", False, bk.q, "after-key overwrite of the property object", bk.site(n), "the property object is replaced after the key was computed")
    # build functions read properties only from their kernel-property parameter
    BUILD = [("occa::serial::device::buildKernel", 5), ("occa::serial::device::parseFile", 4), ("occa::openmp::device::buildKernel", 4), ("occa::openmp::device::parseFile", 4),
             ("occa::assembleKernelHeader", 1), ("occa::serial::device::buildLauncherKernel", 3), ("occa::serial::device::buildKernel", 4)]
    n_reads = 0
    for q, npar in BUILD:
        for f in [x for x in prog.fns(q) if len(x.d["params"]) == npar]:
            jparams = {p["d"] for p in f.d["params"] if "json" in f.tname(p["t"])}
            # locals layered on top of the parameter (e.g. OpenMP: device properties + kernelProps; device-level
            # properties are constant for one device, which is the statement's scope)
            for dn in f.walk():
                if dn["k"] == "VarDecl" and "json" in f.tname(dn.get("t")) and any(x["k"] == "DeclRefExpr" and x.get("d") in jparams for x in walk(dn)):
                    jparams.add(dn["d"])
            todo = [f] + [prog.funcs[x["lam"]] for x in f.walk() if x["k"] == "LambdaExpr" and x["lam"] in prog.funcs]
            for g in todo:
                for n in g.walk():
                    base = key = None
                    if n["k"] == "CXXOperatorCallExpr" and n.get("op") == "[]" and callee(n).startswith("occa::json::operator[]") and isinstance(literal(kids(n)[2]), str):
                        base, key = kids(n)[1], literal(kids(n)[2])
                    elif n["k"] == "CXXMemberCallExpr" and callee(n).startswith("occa::json::get") and call_args(n) and isinstance(literal(call_args(n)[0]), str):
                        base, key = call_object(n), literal(call_args(n)[0])
                    if base is None:
                        continue
                    roots = {x.get("d") for x in walk(base) if x["k"] == "DeclRefExpr"}
                    n_reads += 1
                    ok = bool(roots & jparams)
                    why = "read from the kernel-property object"
                    if not ok and (f.q, key) in FOREIGN_READS:
                        ok, why = True, FOREIGN_READS[(f.q, key)]
                    R.ob("C06-R1", ok, f.q, "read:%s[%s]" % (noid(render(base, False))[:30], key), g.site(n), why if ok else
                         "a build setting is read from %s, which is not covered by the cache key" % noid(render(base, False))[:40])
    if n_reads < 15:
        raise AnalysisBroken("only %d property reads found in the build functions" % n_reads)
    # the parser receives the same object
    for q in ("occa::serial::device::parseFile", "occa::openmp::device::parseFile"):
        f = prog.fn(q)
        jparams = {p["d"] for p in f.d["params"] if "json" in f.tname(p["t"])}
        pv = [n for n in f.walk() if n["k"] == "VarDecl" and "Parser" in f.tname(n.get("t"))]
        ok = len(pv) == 1 and any(x.get("d") in jparams for x in walk(pv[0]) if x["k"] == "DeclRefExpr")
        R.ob("C06-R1", ok, q, "parser constructed from kernelProps", f.site(pv[0]) if pv else f.relfile, "the translator's settings are the hashed property object")

    # ---- R2 --------------------------------------------------------------------------
    chains = []
    for f in prog.funcs.values():
        if f.d.get("tmpl") == "inst":
            continue
        for r in (n for n in f.walk() if n["k"] == "ReturnStmt" and kids(n)):
            ts = xor_terms(kids(r)[0])
            bare = [t for t in ts if any(x["k"] == "CXXOperatorCallExpr" and x.get("op") == "[]" and isinstance(literal(kids(x)[2]), str) for x in walk(t))]
            if len(bare) >= 2:
                chains.append((f, r, bare))
    for f, r, bare in chains:
        # who uses this function's result?
        users = set()
        names = {f.q} | {o for o in f.d.get("overrides", [])}
        for g in prog.funcs.values():
            if g.d.get("tmpl") == "inst":
                continue
            for c in g.walk():
                if is_call(c) and callee(c) in names and g.key != f.key:
                    users.add(g.q)
        allowed = {ski.q} | {x.q for x in prog.overriders("occa::modeDevice_t::kernelHash")}
        ok = bool(whole) and users <= allowed
        R.ob("C06-R2", ok, f.q, "bare-value xor of %d properties, used by %s" % (len(bare), sorted(users)), f.site(r),
             "only feeds setupKernelInfo's key, which also hashes the whole object by name" if ok else
             "an order- and name-insensitive combination of bare property values decides a cache key on its own: equal values cancel, swapped values collide")
    if len(chains) < 2:
        raise AnalysisBroken("key functions (kernelHash / kernelHeaderHash) not found")
    # ---- R3 --------------------------------------------------------------------------
    hd = [c for c in bk.walk() if is_call(c) and callee(c) == "occa::io::hashDir"]
    ok = bool(hd) and all(decl_of(call_args(c)[-1]) == v_hash.get("d") for c in hd)
    R.ob("C06-R3", ok, bk.q, "cache directory from the key", bk.site(hd[0]) if hd else bk.relfile, "io::hashDir(file, kernelHash)")
    bs = prog.fn("occa::device::buildKernelFromString")
    sk2 = [c for c in bs.walk() if is_call(c) and callee(c) == "occa::device::setupKernelInfo"]
    hd2 = [c for c in bs.walk() if is_call(c) and callee(c) == "occa::io::hashDir"]
    ok = len(sk2) == 1 and len(hd2) == 1 and decl_of(call_args(hd2[0])[-1]) == decl_of(call_args(sk2[0])[3]) and "occa::hash(content)" in noid(render(call_args(sk2[0])[1], False))
    R.ob("C06-R3", ok, bs.q, "string source stored under the key of (props, content)", bs.site(hd2[0]) if hd2 else bs.relfile, "hashDir(setupKernelInfo(props, hash(content)))")
    fwd = [c for c in bs.walk() if c["k"] == "CXXMemberCallExpr" and callee(c) == "occa::device::buildKernel"]
    ok = len(fwd) == 1 and decl_of(call_args(fwd[0])[2]) == bs.d["params"][2]["d"]
    R.ob("C06-R3", ok, bs.q, "then built through buildKernel with the same props", bs.site(fwd[0]) if fwd else bs.relfile, "same user properties for the inner build")
    hdf = [f for f in prog.fns("occa::io::hashDir") if len(f.d["params"]) == 2][0]
    rets = [n for n in hdf.walk() if n["k"] == "ReturnStmt"]
    uses = [r for r in rets if "hash.getString()" in noid(render(r, False))]
    R.ob("C06-R3", len(uses) == 1, hdf.q, "directory name = cache path + hash.getString()", hdf.site(uses[0]) if uses else hdf.relfile, "the key's short string names the directory (faithfulness: C27)")
    sbk = [f for f in prog.fns("occa::serial::device::buildKernel") if len(f.d["params"]) == 5][0]
    hd3 = [c for c in sbk.walk() if is_call(c) and callee(c) == "occa::io::hashDir"]
    ok = len(hd3) == 1 and decl_of(call_args(hd3[0])[1]) == sbk.d["params"][2]["d"]
    R.ob("C06-R3", ok, sbk.q, "backend uses the key it was given", sbk.site(hd3[0]) if hd3 else sbk.relfile, "hashDir(filename, kernelHash) with the kernelHash parameter")

    # the key is stable across identical builds only if the dependency re-hash is the identity when nothing changed (shared with C07)
    from rules import c07
    refile(ctx, c07, {"C07-R4": "C06-R4"}, "C07")
    # every property term of the key is the hash of a JSON dump: two configurations get different keys only if the dump is injective on
    # strings (shared with C24; the NUL clause concerns the reader only - a verbatim NUL keeps the dump injective - and is not shared)
    from rules import c24
    refile(ctx, c24, {"C24-R1": "C06-R5", "C24-R2": "C06-R6"}, "C24", keep=lambda rule, key: "NUL" not in key)


META = {
    "technique": "expression-tree analysis of the key (xor terms, whole-object vs bare-value components); data-flow of the property object from the key to the backend build; read-set of the build functions against that object; who-uses for the bare-value combinators",
    "level": "Static decision that the cache key hashes the complete kernel-property object by name and value together with source and device, that exactly this object (plus the recorded key) reaches the backend build and the "
             "translator, that build code reads its configuration only from it (50+ reads enumerated), that the xor of bare values is never a key on its own, that one key selects the directory on both entry points, and (shared with C24) that the JSON dump whose hash forms every property term is injective on strings. "
             "Any two configurations differing in a property the build can read therefore differ in the hashed text; tests never build two configurations whose values coincide.",
    "note": "Does not decide collision freeness of occa::hash (a 256-bit multiplicative/xor hash) nor the process environment (OCCA_CXX, OCCA_CXXFLAGS, ... are read by the build and deliberately held fixed by the statement).",
}
