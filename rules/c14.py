"""C14 - constant folding computes what C++ computes (structural clauses).

 R1  && / || / ?: do not evaluate the operand C++ skips (control dependence of rightValue->evaluate())
 R2  operator tables: in every primitive binary operator each `case X_` arm converts both operands with .to<T_X>();
     no arm reads a raw union member of an operand whose tag may differ; unary operators read the member of their own tag;
     arms are exhaustive over the 11 scalar tags
 R3  shifts take their result type from the left operand only
 R4  literal typing: a suffix-less integer literal is narrowed to 32 bits only under a magnitude test
 R5  integer division / modulo has a zero-divisor guard (no SIGFPE while folding)
"""
from vlib.facts import kids, strip, walk, is_call, call_args, call_object, callee, render, literal
from vlib.cfg import write_target
from vlib.work import AnalysisBroken

UNITS = ["src/types/primitive.cpp", "src/occa/internal/lang/expr/binaryOpNode.cpp", "src/occa/internal/lang/expr/ternaryOpNode.cpp",
         "src/occa/internal/lang/operator.cpp"]
SCALARS = ["bool_", "int8_", "uint8_", "int16_", "uint16_", "int32_", "uint32_", "int64_", "uint64_", "float_", "double_"]
CTYPE = {"bool": "bool_", "int8_t": "int8_", "uint8_t": "uint8_", "int16_t": "int16_", "uint16_t": "uint16_", "int32_t": "int32_",
         "uint32_t": "uint32_", "int64_t": "int64_", "uint64_t": "uint64_", "float": "float_", "double": "double_"}
CANON = {"signed char": "int8_", "unsigned char": "uint8_", "short": "int16_", "unsigned short": "uint16_", "int": "int32_", "unsigned int": "uint32_",
         "long": "int64_", "unsigned long": "uint64_", "long long": "int64_", "unsigned long long": "uint64_", "_Bool": "bool_"}
CTYPE.update(CANON)
BINOPS = ["lessThan", "lessThanEq", "equal", "notEqual", "greaterThanEq", "greaterThan", "and_", "or_", "mult", "add", "sub", "div", "mod",
          "bitAnd", "bitOr", "xor_", "rightShift", "leftShift", "multEq", "addEq", "subEq", "divEq", "modEq", "bitAndEq", "bitOrEq", "xorEq",
          "rightShiftEq", "leftShiftEq"]
UNOPS = ["not_", "positive", "negative", "tilde", "leftIncrement", "leftDecrement", "rightIncrement", "rightDecrement"]
P = "occa::primitive::"


def arms_of(sw):
    arms = []
    cur = None
    for st in kids(kids(sw)[1]):
        n = st
        while n["k"] in ("CaseStmt", "DefaultStmt"):
            cur = [n.get("en", "").split("::")[-1] if n["k"] == "CaseStmt" else None, []]
            arms.append(cur)
            n = kids(n)[0]
        if cur is not None:
            cur[1].append(n)
    # an empty arm falls through into the next one
    for i in range(len(arms) - 2, -1, -1):
        if not arms[i][1]:
            arms[i][1] = list(arms[i + 1][1])
    return arms


def short_circuit(prog, R, rule):
    """&& / || / ?: do not evaluate the operand C++ skips"""
    # ---- R1 --------------------------------------------------------------------------
    be = prog.fn("occa::lang::binaryOpNode::evaluate")
    cfg = be.cfg
    rcalls = [n for n in be.walk() if n["k"] == "CXXMemberCallExpr" and callee(n).endswith("::evaluate") and "rightValue" in render(call_object(n), False)]
    lcalls = [n for n in be.walk() if n["k"] == "CXXMemberCallExpr" and callee(n).endswith("::evaluate") and "leftValue" in render(call_object(n), False)]
    if len(rcalls) != 1 or len(lcalls) != 1:
        raise AnalysisBroken("binaryOpNode::evaluate: operand evaluations not found")
    rpos = cfg.position(rcalls[0])
    # a path from entry to exit that does not evaluate the right operand must exist, guarded by the operator kind and the left value
    skip = cfg.find_path((cfg.entry, -1), "exit", lambda b, i, e: e == rcalls[0]["i"])
    ok = skip is not None and cfg.before(lcalls[0], rcalls[0])
    guards = set()
    for b in cfg.blocks.values():
        if b.tc is not None and b.id in cfg.dom.get(rpos[0], ()):
            guards.add(render(be.nodes[b.tc], False))
    has_and = any("and_" in g for g in guards)
    has_or = any("or_" in g for g in guards)
    uses_left = any("pLeft" in g or "leftValue" in g or "bool" in g for g in guards)
    R.ob(rule, ok and has_and, be.q, "short-circuit:&&", be.site(rcalls[0]),
         "right operand evaluation is control dependent on the operator being && and on the left value" if ok and has_and else
         "both operands are always evaluated: `0 && (1/0)` evaluates the division")
    R.ob(rule, ok and has_or, be.q, "short-circuit:||", be.site(rcalls[0]),
         "right operand evaluation is control dependent on the operator being || and on the left value" if ok and has_or else
         "both operands are always evaluated: `1 || (1/0)` evaluates the division")
    # the early results are the C++ results: false for &&, true for ||
    early = [n for n in be.walk() if n["k"] == "ReturnStmt" and not cfg.before(rcalls[0], n)]
    vals = sorted(str(literal(x)) for r in early for x in walk(r) if x["k"] == "CXXBoolLiteralExpr")
    R.ob(rule, vals == ["False", "True"] or not early, be.q, "short-circuit:values", be.site(rcalls[0]), "early results are %s" % vals)
    te = prog.fn("occa::lang::ternaryOpNode::evaluate")
    tc = te.cfg
    tv = [n for n in te.walk() if n["k"] == "CXXMemberCallExpr" and callee(n).endswith("::evaluate") and "trueValue" in render(call_object(n), False)]
    fv = [n for n in te.walk() if n["k"] == "CXXMemberCallExpr" and callee(n).endswith("::evaluate") and "falseValue" in render(call_object(n), False)]
    ok = len(tv) == 1 and len(fv) == 1 and tc.find_path(tc.position(tv[0]), lambda b, i, e: e == fv[0]["i"], lambda b, i, e: False) is None \
        and tc.find_path(tc.position(fv[0]), lambda b, i, e: e == tv[0]["i"], lambda b, i, e: False) is None
    R.ob(rule, ok, te.q, "ternary:one arm", "%s:%d" % (te.relfile, te.d["line"]), "no path evaluates both arms of ?:")



def run(ctx):
    R = ctx.R
    prog = ctx.program(UNITS, thorough_all=False)
    R.explanation = ("Decides the evaluation-rule clauses of constant folding that are visible in code shape: short-circuit control dependence, per-tag agreement and exhaustiveness of the "
                     "36 operator tables, left-operand typing of shifts, magnitude-tested narrowing of literals, and zero-divisor guards. Does not decide numeric equality with a C++ compiler.")
    R.rule("C14-R1", "skipped operands are not evaluated (&&, ||, ?:)", floor=3)
    R.rule("C14-R2", "operator table arm agrees with its tag; tables exhaustive over the scalar tags", floor=300)
    R.rule("C14-R3", "shift result type comes from the left operand", floor=4)
    R.rule("C14-R4", "32-bit narrowing of a suffix-less integer literal is dominated by a magnitude test", floor=2)
    R.rule("C14-R5", "integer division/modulo guarded against a zero divisor and against the overflowing quotient min()/-1", floor=8)

    short_circuit(prog, R, "C14-R1")

    # ---- R2 / R3 / R5 ----------------------------------------------------------------------
    for name in BINOPS + UNOPS:
        fs = prog.fns(P + name)
        if len(fs) != 1:
            raise AnalysisBroken("primitive::%s vanished (%d)" % (name, len(fs)))
        f = fs[0]
        sws = [n for n in f.walk() if n["k"] == "SwitchStmt"]
        if len(sws) != 1:
            raise AnalysisBroken("primitive::%s: expected one switch" % name)
        sw = sws[0]
        binary = name in BINOPS
        arms = arms_of(sw)
        tags = [t for t, _ in arms if t in SCALARS]
        missing = [t for t in SCALARS if t not in tags]
        R.ob("C14-R2", not missing, f.q, "table:exhaustive", f.site(sw), "all 11 scalar tags handled" if not missing else "no arm for %s: folding such an operand yields an empty primitive" % missing)
        pnames = [p["n"] for p in f.d["params"]]
        for tag, sts in arms:
            if tag not in SCALARS:
                continue
            for st in sts:
                for x in walk(st):
                    if is_call(x) and callee(x) == P + "to":
                        rt = x.get("csig", "").split("(")[0].strip()
                        got = CTYPE.get(rt, rt)
                        R.ob("C14-R2", got == tag, f.q, "arm:%s to<%s> on %s" % (tag, rt, render(call_object(x), False)), f.site(x),
                             "operand converted to the arm's type" if got == tag else "the %s arm converts an operand to %s: the operation is done in the wrong type" % (tag, rt))
                    if x["k"] == "MemberExpr" and x.get("n", "").split("::")[-1] in SCALARS and "anonymous" in x.get("n", ""):
                        mem = x["n"].split("::")[-1]
                        if binary:
                            R.ob("C14-R2", False, f.q, "arm:%s raw %s" % (tag, render(x, False)), f.site(x),
                                 "reads the raw union member %s of an operand whose own tag may be narrower than the result type %s (e.g. an integer compared with a float): the bits are reinterpreted" % (mem, tag))
                        else:
                            R.ob("C14-R2", mem == tag, f.q, "arm:%s member %s" % (tag, mem), f.site(x),
                                 "reads the member of its own tag" if mem == tag else "the %s arm reads union member %s" % (tag, mem))
            if binary and "Shift" not in name:
                # both operands appear converted in the arm
                used = {render(call_object(x), False) for st in sts for x in walk(st) if is_call(x) and callee(x) == P + "to"}
                errs = any(is_call(x) and callee(x) == "occa::error" for st in sts for x in walk(st))
                if not errs:
                    R.ob("C14-R2", set(pnames[:2]) <= used, f.q, "arm:%s both operands" % tag, f.site(sts[0]), "both operands take part: %s" % sorted(used))
        if binary:
            # how the result type is chosen
            cond = strip(kids(sw)[0])
            rt_def = None
            if cond["k"] == "DeclRefExpr":
                ds = f.local_defs().get(cond["d"], [])
                if len(ds) == 1 and kids(ds[0]):
                    rt_def = kids(ds[0])[0]
            mentions = {render(x, False) for x in walk(rt_def)} if rt_def else set()
            if "Shift" in name:
                ok = any(m == pnames[0] + ".type" for m in mentions) and not any(m == pnames[1] + ".type" for m in mentions)
                R.ob("C14-R3", ok, f.q, "shift:result type from left operand", f.site(sw),
                     "result type is the left operand's" if ok else "the shift's result type depends on the right operand (C++ uses the promoted left operand only)")
            else:
                ok = any(m == pnames[0] + ".type" for m in mentions) and any(m == pnames[1] + ".type" for m in mentions)
                R.ob("C14-R2", ok, f.q, "table:result type = wider operand", f.site(sw), "result type computed from both operand tags")
        if name in ("div", "mod", "divEq", "modEq"):
            c = f.cfg
            fs_ = c.facts_at(kids(sw)[0])
            ok = any(pol and pnames[1] in k and ("isFloat" in k or "!= 0" in k or "to()" in k or "to" in k) for (k, pol) in fs_)
            R.ob("C14-R5", ok, f.q, "guard:zero divisor", f.site(sw), "a guard on the divisor dominates the division" if ok else "integer division by a zero constant raises SIGFPE inside the translator")
            # the other trapping case: most negative value / -1 in the 32- and 64-bit signed arms
            def covers(node, depth=0):
                """set of widths {int, long} for which `node` (or a helper it calls) tests  x == numeric_limits<T>::min() && y == -1"""
                got = set()
                for x in walk(node):
                    if x["k"] == "BinaryOperator" and x.get("op") == "&&":
                        l, r = [strip(y) for y in kids(x)]
                        for a_, b_ in ((l, r), (r, l)):
                            mins = [callee(y) for y in walk(a_) if is_call(y) and callee(y).startswith("std::numeric_limits<") and callee(y).endswith("::min")]
                            neg1 = any(y["k"] == "UnaryOperator" and y.get("op") == "-" and literal(kids(y)[0]) == 1 for y in walk(b_)) and b_.get("op") == "=="
                            if mins and a_.get("op") == "==" and neg1:
                                got.add(mins[0].split("<")[1].split(">")[0])
                    if is_call(x) and depth < 2 and callee(x).startswith("occa::") and not callee(x).startswith(P + "to"):
                        for g in prog.fns(callee(x)):
                            if g.d.get("body") is not None:
                                got |= covers(g.d["body"], depth + 1)
                return got
            widths = set()
            for (k, pol) in fs_:
                if not pol:
                    widths |= covers(c.fact_node((k, pol))) if (k, pol) in c._factnode else set()
            ok5 = {"int", "long"} <= widths
            R.ob("C14-R5", ok5, f.q, "guard:most negative value / -1", f.site(sw),
                 "a guard excluding min()/-1 for the 32- and 64-bit signed arms dominates the division" if ok5 else
                 "INT_MIN / -1 (or %% -1) is not excluded before the division (widths guarded: %s): the hardware division traps, `#if (-2147483647-1) / -1` kills the translator with SIGFPE" % sorted(widths))

    # ---- R2 (cont.): the conversion every arm relies on, primitive::to<T>() ---------------------------------------
    tos = [f for f in prog.fns(P + "to", tmpl="pattern")]
    if len(tos) != 1:
        raise AnalysisBroken("primitive::to<T> pattern vanished")
    tf = tos[0]
    sw = [n for n in tf.walk() if n["k"] == "SwitchStmt"]
    arms = arms_of(sw[0]) if sw else []
    tags = [t for t, _ in arms if t in SCALARS]
    missing = [t for t in SCALARS if t not in tags]
    R.ob("C14-R2", not missing, tf.q, "to<T>:exhaustive", tf.site(sw[0]) if sw else tf.relfile, "all 11 scalar tags convertible" if not missing else "to<T>() has no arm for %s" % missing)
    for tag, sts in arms:
        if tag not in SCALARS:
            continue
        mem = [x["n"].split("::")[-1] for st in sts for x in walk(st) if x["k"] == "MemberExpr" and x.get("n", "").split("::")[-1] in SCALARS]
        R.ob("C14-R2", mem == [tag], tf.q, "to<T>:%s reads member %s" % (tag, mem), tf.site(sts[0]), "reads the member of its own tag" if mem == [tag] else "the %s arm of to<T>() reads union member %s: every conversion of such a value is wrong" % (tag, mem))

    # ---- R4 --------------------------------------------------------------------------
    ld = [f for f in prog.fns(P + "load") if "const char *&" in f.d["sig"]]
    if len(ld) != 1:
        raise AnalysisBroken("primitive::load(const char*&) vanished")
    ld = ld[0]
    c = ld.cfg
    IN = c.facts_in()
    sites = []
    for n in ld.walk():
        if n["k"] == "CStyleCastExpr" and ld.tname(n.get("tw")) in ("int32_t", "uint32_t") and strip(kids(n)[0])["k"] == "DeclRefExpr":
            sites.append((n, strip(kids(n)[0])))
        if is_call(n) and callee(n) == P + "to" and n.get("csig", "").split("(")[0].strip() in ("int32_t", "uint32_t", "int", "unsigned int"):
            sites.append((n, strip(call_object(n))))
    for n, var in sites:
        fs = c.facts_at(n, IN)
        toks = set()
        if var["k"] == "DeclRefExpr":
            toks.add("d%d" % var["d"])
            # locals computed from the narrowed variable (e.g. its magnitude or its signed reading)
            for d, ds in ld.local_defs().items():
                if len(ds) == 1 and ds[0]["k"] == "VarDecl" and any(x["k"] == "DeclRefExpr" and x.get("d") == var["d"] for x in walk(ds[0])):
                    toks.add("d%d" % d)
        ok = False
        for k in fs:
            a = c.fact_node(k)
            if a["k"] == "BinaryOperator" and a.get("op") in ("<", "<=", ">", ">=") and (toks & c._mention[k]):
                ok = True
        R.ob("C14-R4", ok, ld.q, "narrow:%s" % render(n, False), ld.site(n),
             "narrowing happens only under a magnitude test on the value" if ok else
             "a suffix-less literal is forced into 32 bits whatever its magnitude (2147483648 becomes int32_t -2147483648, 0xFFFFFFFF becomes -1); C++ picks the first type that fits")
    if len(sites) < 2:
        raise AnalysisBroken("primitive::load: narrowing sites not found")


META = {
    "technique": "control dependence on the CFG of the evaluators; sibling/table agreement over the 36 operator switch tables (case label vs to<T>() / union member per arm, exhaustiveness); data-flow of the result-type variable; guard dominance (zero divisor, and min()/-1 through the helper the guard calls)",
    "level": "Static decision of the evaluation rules visible in code shape: the right operand of && / || and the untaken arm of ?: are not evaluated; in each of the 28 binary and 8 unary operator tables every arm "
             "operates in the type of its tag on converted operands (no raw reinterpretation of an operand of another tag) and all 11 tags are handled; shifts are typed by the left operand; integer / and % have a "
             "zero-divisor guard; suffix-less literals are narrowed only under a magnitude test. Holds for all operand values and type pairs (121 pairs per operator), which tests sample thinly.",
    "note": "Does not decide numeric equality with a C++ compiler (value-level), integer promotion subtleties inside an arm (left to the C++ expression written there), or parseInt/parseFloat precision.",
}
