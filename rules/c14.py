"""C14 - constant folding computes what C++ computes (structural clauses).

 R1  && / || / ?: do not evaluate the operand C++ skips (control dependence of rightValue->evaluate())
 R2  operator tables: in every primitive binary operator each `case X_` arm converts both operands with .to<T_X>();
     no arm reads a raw union member of an operand whose tag may differ; unary operators read the member of their own tag;
     arms are exhaustive over the 11 scalar tags
 R3  shifts take their result type from the left operand only
 R4  literal typing: a suffix-less integer literal is narrowed to 32 bits only under a magnitude test
 R5  integer division / modulo has a zero-divisor guard (no SIGFPE while folding)
"""
from vlib.facts import kids, strip, walk, is_call, call_args, call_object, callee, render, literal, noid as noid_
from vlib.cfg import write_target
from vlib.work import AnalysisBroken

UNITS = ["src/types/primitive.cpp", "src/occa/internal/lang/expr/binaryOpNode.cpp", "src/occa/internal/lang/expr/ternaryOpNode.cpp",
         "src/occa/internal/lang/operator.cpp"]
SCALARS = ["bool_", "int8_", "uint8_", "int16_", "uint16_", "int32_", "uint32_", "int64_", "uint64_", "float_", "double_"]
CTYPE = {"bool": "bool_", "int8_t": "int8_", "uint8_t": "uint8_", "int16_t": "int16_", "uint16_t": "uint16_", "int32_t": "int32_",
         "uint32_t": "uint32_", "int64_t": "int64_", "uint64_t": "uint64_", "float": "float_", "double": "double_"}
CANON = {"signed char": "int8_", "unsigned char": "uint8_", "short": "int16_", "unsigned short": "uint16_", "int": "int32_", "unsigned int": "uint32_",
         "long": "int64_", "unsigned long": "uint64_", "long long": "int64_", "unsigned long long": "uint64_", "_Bool": "bool_"}
CTYPE.update(CANON)
BINOPS = ["lessThan", "lessThanEq", "equal", "notEqual", "greaterThanEq", "greaterThan", "and_", "or_", "mult", "add", "sub", "div", "mod",
          "bitAnd", "bitOr", "xor_", "rightShift", "leftShift", "multEq", "addEq", "subEq", "divEq", "modEq", "bitAndEq", "bitOrEq", "xorEq",
          "rightShiftEq", "leftShiftEq"]
UNOPS = ["not_", "positive", "negative", "tilde", "leftIncrement", "leftDecrement", "rightIncrement", "rightDecrement"]
P = "occa::primitive::"
# the C++ operator each table stands for
CXX_OP = {"not_": "!", "positive": "+", "negative": "-", "tilde": "~", "lessThan": "<", "lessThanEq": "<=", "equal": "==", "notEqual": "!=", "greaterThanEq": ">=",
          "greaterThan": ">", "and_": "&&", "or_": "||", "mult": "*", "add": "+", "sub": "-", "div": "/", "mod": "%", "bitAnd": "&", "bitOr": "|", "xor_": "^",
          "rightShift": ">>", "leftShift": "<<", "multEq": "*", "addEq": "+", "subEq": "-", "divEq": "/", "modEq": "%", "bitAndEq": "&", "bitOrEq": "|", "xorEq": "^",
          "rightShiftEq": ">>", "leftShiftEq": "<<"}
# (operator, operand class) combinations that are ill-formed in C++ ([expr.unary.op], [expr.mul], [expr.shift], [expr.bit.and] ...): integral operands required
CXX_ILL_FORMED = {(o, "float") for o in ("~", "%", "&", "|", "^", "<<", ">>")}
CXX_EQUIV = {"==": {"=="}, "!=": {"!="}}
# C++ binary operator precedence (smaller binds tighter, [expr] grammar) and the associativity of each level
CXX_PREC = {"*": 5, "/": 5, "%": 5, "+": 6, "-": 6, "<<": 7, ">>": 7, "<": 9, "<=": 9, ">": 9, ">=": 9, "==": 10, "!=": 10, "&": 11, "^": 12, "|": 13, "&&": 14, "||": 15}


def arms_of(sw):
    arms = []
    cur = None
    for st in kids(kids(sw)[1]):
        n = st
        while n["k"] in ("CaseStmt", "DefaultStmt"):
            cur = [n.get("en", "").split("::")[-1] if n["k"] == "CaseStmt" else None, []]
            arms.append(cur)
            n = kids(n)[0]
        if cur is not None:
            cur[1].append(n)
    # an empty arm falls through into the next one
    for i in range(len(arms) - 2, -1, -1):
        if not arms[i][1]:
            arms[i][1] = list(arms[i + 1][1])
    return arms


def short_circuit(prog, R, rule):
    """&& / || / ?: do not evaluate the operand C++ skips"""
    # ---- R1 --------------------------------------------------------------------------
    be = prog.fn("occa::lang::binaryOpNode::evaluate")
    cfg = be.cfg
    rcalls = [n for n in be.walk() if n["k"] == "CXXMemberCallExpr" and callee(n).endswith("::evaluate") and "rightValue" in render(call_object(n), False)]
    lcalls = [n for n in be.walk() if n["k"] == "CXXMemberCallExpr" and callee(n).endswith("::evaluate") and "leftValue" in render(call_object(n), False)]
    if len(rcalls) != 1 or len(lcalls) != 1:
        raise AnalysisBroken("binaryOpNode::evaluate: operand evaluations not found")
    rpos = cfg.position(rcalls[0])
    # a path from entry to exit that does not evaluate the right operand must exist, guarded by the operator kind and the left value
    skip = cfg.find_path((cfg.entry, -1), "exit", lambda b, i, e: e == rcalls[0]["i"])
    ok = skip is not None and cfg.before(lcalls[0], rcalls[0])
    guards = set()
    for b in cfg.blocks.values():
        if b.tc is not None and b.id in cfg.dom.get(rpos[0], ()):
            guards.add(render(be.nodes[b.tc], False))
    has_and = any("and_" in g for g in guards)
    has_or = any("or_" in g for g in guards)
    uses_left = any("pLeft" in g or "leftValue" in g or "bool" in g for g in guards)
    R.ob(rule, ok and has_and, be.q, "short-circuit:&&", be.site(rcalls[0]),
         "right operand evaluation is control dependent on the operator being && and on the left value" if ok and has_and else
         "both operands are always evaluated: `0 && (1/0)` evaluates the division")
    R.ob(rule, ok and has_or, be.q, "short-circuit:||", be.site(rcalls[0]),
         "right operand evaluation is control dependent on the operator being || and on the left value" if ok and has_or else
         "both operands are always evaluated: `1 || (1/0)` evaluates the division")
    # the early results are the C++ results: false for &&, true for ||
    early = [n for n in be.walk() if n["k"] == "ReturnStmt" and not cfg.before(rcalls[0], n)]
    vals = sorted(str(literal(x)) for r in early for x in walk(r) if x["k"] == "CXXBoolLiteralExpr")
    R.ob(rule, vals == ["False", "True"] or not early, be.q, "short-circuit:values", be.site(rcalls[0]), "early results are %s" % vals)
    te = prog.fn("occa::lang::ternaryOpNode::evaluate")
    tc = te.cfg
    tv = [n for n in te.walk() if n["k"] == "CXXMemberCallExpr" and callee(n).endswith("::evaluate") and "trueValue" in render(call_object(n), False)]
    fv = [n for n in te.walk() if n["k"] == "CXXMemberCallExpr" and callee(n).endswith("::evaluate") and "falseValue" in render(call_object(n), False)]
    ok = len(tv) == 1 and len(fv) == 1 and tc.find_path(tc.position(tv[0]), lambda b, i, e: e == fv[0]["i"], lambda b, i, e: False) is None \
        and tc.find_path(tc.position(fv[0]), lambda b, i, e: e == tv[0]["i"], lambda b, i, e: False) is None
    R.ob(rule, ok, te.q, "ternary:one arm", "%s:%d" % (te.relfile, te.d["line"]), "no path evaluates both arms of ?:")



def run(ctx):
    R = ctx.R
    prog = ctx.program(UNITS, thorough_all=False)
    R.explanation = ("Decides the evaluation-rule clauses of constant folding that are visible in code shape: short-circuit control dependence, per-tag agreement and exhaustiveness of the "
                     "36 operator tables, left-operand typing of shifts, magnitude-tested narrowing of literals, and zero-divisor guards. Does not decide numeric equality with a C++ compiler.")
    R.rule("C14-R1", "skipped operands are not evaluated (&&, ||, ?:)", floor=3)
    R.rule("C14-R2", "operator table arm agrees with its tag; tables exhaustive over the scalar tags", floor=300)
    R.rule("C14-R3", "shift result type comes from the left operand", floor=4)
    R.rule("C14-R4", "32-bit narrowing of a suffix-less integer literal is dominated by a magnitude test", floor=2)
    R.rule("C14-R6", "operator table: relative precedence of the binary operators and associativity of every level agree with the C++ grammar", floor=13)
    R.rule("C14-R7", "?: converts the selected operand to the common type of its second and third operands", floor=1)
    R.rule("C14-R8", "#if / #elif operands are widened to intmax_t / uintmax_t before folding", floor=3)
    R.rule("C14-R9", "the ambiguous spellings + - * & are binary after an operand", floor=1)
    R.rule("C14-R5", "integer division/modulo guarded against a zero divisor and against the overflowing quotient min()/-1", floor=8)

    short_circuit(prog, R, "C14-R1")

    # ---- R2 / R3 / R5 ----------------------------------------------------------------------
    for name in BINOPS + UNOPS:
        fs = prog.fns(P + name)
        if len(fs) != 1:
            raise AnalysisBroken("primitive::%s vanished (%d)" % (name, len(fs)))
        f = fs[0]
        sws = [n for n in f.walk() if n["k"] == "SwitchStmt"]
        if not sws:
            # no table of its own: the operator delegates to other operator functions. A delegation that applies a unary operator to one
            # operand BEFORE the binary operator converts both to the common type computes that unary in the operand's own type
            # (a - b as a + (-b): an unsigned int b is negated modulo 2^32 and only then widened to long / double) - not what C++ computes
            inner = [c for c in f.walk() if is_call(c) and (callee(c) or "").startswith(P) and callee(c)[len(P):] in UNOPS
                     and any(is_call(o) and (callee(o) or "").startswith(P) and callee(o)[len(P):] in BINOPS and any(x["i"] == c["i"] for a in call_args(o) for x in walk(a)) for o in f.walk())]
            if inner and name in BINOPS:
                R.ob("C14-R2", False, f.q, "table:operator computed in the common type of its operands", f.site(inner[0]),
                     "%s(a, b) is computed as another operator applied to %s(operand): the inner operator acts in the operand's own type before the conversion to the common type "
                     "(`10L - 3u` folds to 4294967303, C++: 7)" % (name, callee(inner[0])[len(P):]))
                continue
            raise AnalysisBroken("primitive::%s: no per-type table and no recognised delegation" % name)
        if len(sws) != 1:
            raise AnalysisBroken("primitive::%s: expected one switch" % name)
        sw = sws[0]
        binary = name in BINOPS
        arms = arms_of(sw)
        tags = [t for t, _ in arms if t in SCALARS]
        missing = [t for t in SCALARS if t not in tags]
        R.ob("C14-R2", not missing, f.q, "table:exhaustive", f.site(sw), "all 11 scalar tags handled" if not missing else "no arm for %s: folding such an operand yields an empty primitive" % missing)
        pnames = [p["n"] for p in f.d["params"]]
        for tag, sts in arms:
            if tag not in SCALARS:
                continue
            for st in sts:
                for x in walk(st):
                    if is_call(x) and callee(x) == P + "to":
                        rt = x.get("csig", "").split("(")[0].strip()
                        got = CTYPE.get(rt, rt)
                        if "Shift" in name and binary and render(call_object(x), False) == pnames[1]:
                            # the count of a shift is only promoted: any integer type at least as wide as int, never the left operand's type
                            okc = got in ("int32_", "uint32_", "int64_", "uint64_")
                            R.ob("C14-R3", okc, f.q, "arm:%s count to<%s>" % (tag, rt), f.site(x),
                                 "the count is converted to an integer type of at least int width" if okc else
                                 "the shift count is converted to %s: with a bool / narrow left operand the count is truncated (`true << 3` folds to 2)" % rt)
                            continue
                        R.ob("C14-R2", got == tag, f.q, "arm:%s to<%s> on %s" % (tag, rt, render(call_object(x), False)), f.site(x),
                             "operand converted to the arm's type" if got == tag else "the %s arm converts an operand to %s: the operation is done in the wrong type" % (tag, rt))
            # the arm applies the C++ operator the function stands for, and refuses only what C++ refuses
            want_op = CXX_OP.get(name)
            if want_op is not None:
                errs = any(is_call(x) and callee(x) == "occa::error" for st in sts for x in walk(st))
                invalid = (want_op, "float" if tag in ("float_", "double_") else "bool" if tag == "bool_" else "int") in CXX_ILL_FORMED
                applied = set()
                for st in sts:
                    for x in walk(st):
                        if x["k"] in ("BinaryOperator", "CompoundAssignOperator", "UnaryOperator") and x.get("op") and x.get("op") not in ("=",) and not x.get("mac"):
                            if any(is_call(y) and callee(y) == P + "to" or (y["k"] == "MemberExpr" and "anonymous" in y.get("n", "")) for y in walk(x)):
                                applied.add(x["op"])
                key = "arm:%s applies %s" % (tag, want_op)
                if errs:
                    R.ob("C14-R2", invalid, f.q, key + " (refused)", f.site(sts[0]),
                         "C++ rejects `%s` on this operand type as well" % want_op if invalid else
                         "the %s arm refuses operator `%s`, which C++ defines for this operand type (bool is promoted to int, floating operands of ! && || are converted to bool): a defined constant expression cannot be folded" % (tag, want_op))
                else:
                    acceptable = CXX_EQUIV.get(want_op, {want_op})
                    okop = bool(applied) and (applied <= acceptable or
                                             (want_op == "==" and applied == {"<=", ">=", "&&"}) or        # a <= b && a >= b: value equality without -Wfloat-equal
                                             (want_op == "!=" and applied == {"<=", ">=", "&&", "!"}))
                    if want_op in ("==", "!=") and any(is_call(x) and "areBitwiseEqual" in callee(x) for st in sts for x in walk(st)):
                        okop = False
                        applied = applied | {"areBitwiseEqual"}
                    if want_op == "~" and "!" in applied and "~" not in applied:
                        okop = False
                    R.ob("C14-R2", okop, f.q, key, f.site(sts[0]),
                         "computed with the host operator on operands of the arm's type (promotions are the host compiler's)" if okop else
                         "the %s arm computes `%s` with %s: not what C++ computes for this operand type (e.g. ~true is -2, 0.0 == -0.0 is true)" % (tag, want_op, sorted(applied) or "nothing"))
                    if x["k"] == "MemberExpr" and x.get("n", "").split("::")[-1] in SCALARS and "anonymous" in x.get("n", ""):
                        mem = x["n"].split("::")[-1]
                        if binary:
                            R.ob("C14-R2", False, f.q, "arm:%s raw %s" % (tag, render(x, False)), f.site(x),
                                 "reads the raw union member %s of an operand whose own tag may be narrower than the result type %s (e.g. an integer compared with a float): the bits are reinterpreted" % (mem, tag))
                        else:
                            R.ob("C14-R2", mem == tag, f.q, "arm:%s member %s" % (tag, mem), f.site(x),
                                 "reads the member of its own tag" if mem == tag else "the %s arm reads union member %s" % (tag, mem))
            if binary and "Shift" not in name:
                # both operands appear converted in the arm
                used = {render(call_object(x), False) for st in sts for x in walk(st) if is_call(x) and callee(x) == P + "to"}
                errs = any(is_call(x) and callee(x) == "occa::error" for st in sts for x in walk(st))
                if not errs:
                    R.ob("C14-R2", set(pnames[:2]) <= used, f.q, "arm:%s both operands" % tag, f.site(sts[0]), "both operands take part: %s" % sorted(used))
        if binary:
            # how the result type is chosen
            cond = strip(kids(sw)[0])
            rt_def = None
            if cond["k"] == "DeclRefExpr":
                ds = f.local_defs().get(cond["d"], [])
                if len(ds) == 1 and kids(ds[0]):
                    rt_def = kids(ds[0])[0]
            mentions = {render(x, False) for x in walk(rt_def)} if rt_def else set()
            if "Shift" in name:
                ok = any(m == pnames[0] + ".type" for m in mentions) and not any(m == pnames[1] + ".type" for m in mentions)
                R.ob("C14-R3", ok, f.q, "shift:result type from left operand", f.site(sw),
                     "result type is the left operand's" if ok else "the shift's result type depends on the right operand (C++ uses the promoted left operand only)")
            else:
                ok = any(m == pnames[0] + ".type" for m in mentions) and any(m == pnames[1] + ".type" for m in mentions)
                R.ob("C14-R2", ok, f.q, "table:result type = wider operand", f.site(sw), "result type computed from both operand tags")
        if name in ("div", "mod", "divEq", "modEq"):
            c = f.cfg
            fs_ = c.facts_at(kids(sw)[0])
            ok = any(pol and pnames[1] in k and ("isFloat" in k or "!= 0" in k or "to()" in k or "to" in k) for (k, pol) in fs_)
            R.ob("C14-R5", ok, f.q, "guard:zero divisor", f.site(sw), "a guard on the divisor dominates the division" if ok else "integer division by a zero constant raises SIGFPE inside the translator")
            # the other trapping case: most negative value / -1 in the 32- and 64-bit signed arms
            def covers(node, depth=0):
                """set of widths {int, long} for which `node` (or a helper it calls) tests  x == numeric_limits<T>::min() && y == -1"""
                got = set()
                for x in walk(node):
                    if x["k"] == "BinaryOperator" and x.get("op") == "&&":
                        l, r = [strip(y) for y in kids(x)]
                        for a_, b_ in ((l, r), (r, l)):
                            mins = [callee(y) for y in walk(a_) if is_call(y) and callee(y).startswith("std::numeric_limits<") and callee(y).endswith("::min")]
                            neg1 = any(y["k"] == "UnaryOperator" and y.get("op") == "-" and literal(kids(y)[0]) == 1 for y in walk(b_)) and b_.get("op") == "=="
                            if mins and a_.get("op") == "==" and neg1:
                                got.add(mins[0].split("<")[1].split(">")[0])
                    if is_call(x) and depth < 2 and callee(x).startswith("occa::") and not callee(x).startswith(P + "to"):
                        for g in prog.fns(callee(x)):
                            if g.d.get("body") is not None:
                                got |= covers(g.d["body"], depth + 1)
                return got
            widths = set()
            for (k, pol) in fs_:
                if not pol:
                    widths |= covers(c.fact_node((k, pol))) if (k, pol) in c._factnode else set()
            ok5 = {"int", "long"} <= widths
            R.ob("C14-R5", ok5, f.q, "guard:most negative value / -1", f.site(sw),
                 "a guard excluding min()/-1 for the 32- and 64-bit signed arms dominates the division" if ok5 else
                 "INT_MIN / -1 (or %% -1) is not excluded before the division (widths guarded: %s): the hardware division traps, `#if (-2147483647-1) / -1` kills the translator with SIGFPE" % sorted(widths))

    # ---- R2 (cont.): the conversion every arm relies on, primitive::to<T>() ---------------------------------------
    tos = [f for f in prog.fns(P + "to", tmpl="pattern")]
    if len(tos) != 1:
        raise AnalysisBroken("primitive::to<T> pattern vanished")
    tf = tos[0]
    sw = [n for n in tf.walk() if n["k"] == "SwitchStmt"]
    arms = arms_of(sw[0]) if sw else []
    tags = [t for t, _ in arms if t in SCALARS]
    missing = [t for t in SCALARS if t not in tags]
    R.ob("C14-R2", not missing, tf.q, "to<T>:exhaustive", tf.site(sw[0]) if sw else tf.relfile, "all 11 scalar tags convertible" if not missing else "to<T>() has no arm for %s" % missing)
    for tag, sts in arms:
        if tag not in SCALARS:
            continue
        mem = [x["n"].split("::")[-1] for st in sts for x in walk(st) if x["k"] == "MemberExpr" and x.get("n", "").split("::")[-1] in SCALARS]
        R.ob("C14-R2", mem == [tag], tf.q, "to<T>:%s reads member %s" % (tag, mem), tf.site(sts[0]), "reads the member of its own tag" if mem == [tag] else "the %s arm of to<T>() reads union member %s: every conversion of such a value is wrong" % (tag, mem))

    # ---- R6: the operator table against the C++ grammar ----------------------------------------------------------------------------------
    from vlib.paren import operator_table
    tab = operator_table(prog)
    binprec = {sp: pr for (sp, pr, t) in tab.values() if "binaryOperator_t" in t and sp in CXX_PREC}
    missing = sorted(set(CXX_PREC) - set(binprec))
    if missing:
        raise AnalysisBroken("operator table: binary operators %s not found" % missing)
    ops_ = sorted(CXX_PREC)
    for i, a_ in enumerate(ops_):
        for b_ in ops_[i + 1:]:
            want = (CXX_PREC[a_] > CXX_PREC[b_]) - (CXX_PREC[a_] < CXX_PREC[b_])
            got = (binprec[a_] > binprec[b_]) - (binprec[a_] < binprec[b_])
            if want != got:
                R.ob("C14-R6", False, "occa::lang::op", "precedence:%s vs %s" % (a_, b_), "src/occa/internal/lang/operator.cpp",
                     "`%s` and `%s` are ordered differently than in C++: `x %s y %s z` groups the other way" % (a_, b_, a_, b_))
    R.ob("C14-R6", True, "occa::lang::op", "precedence:153 pairs of the 18 binary operators compared", "src/occa/internal/lang/operator.cpp", "relative binding strength as in [expr]", nontrivial=False)
    assoc = prog.globals.get("occa::lang::op::associativity")
    if assoc is None or "init" not in assoc:
        raise AnalysisBroken("op::associativity vanished")
    levels = [x.get("n", "").split("::")[-1] for x in walk(assoc["init"]) if x["k"] == "DeclRefExpr" and x.get("n", "").endswith("Associative")]
    if len(levels) < 18:
        raise AnalysisBroken("op::associativity: %d entries" % len(levels))
    tern = [pr for (sp, pr, t) in tab.values() if sp in ("?", ":", "?:")]
    asg = [pr for (sp, pr, t) in tab.values() if sp in ("=", "+=", "-=", "*=", "/=", "%=", "<<=", ">>=", "&=", "|=", "^=")]
    un = [pr for (sp, pr, t) in tab.values() if sp in ("!", "~") ]
    for lvl in sorted(set(binprec.values())):
        ok = levels[lvl] == "leftAssociative"
        R.ob("C14-R6", ok, "occa::lang::op::associativity", "level %d (%s) groups left to right" % (lvl, " ".join(sorted(o for o in binprec if binprec[o] == lvl))), "src/occa/internal/lang/operator.cpp",
             "a - b - c is (a - b) - c")
    for lvl, what in [(x, "assignment") for x in sorted(set(asg))] + [(x, "prefix operators") for x in sorted(set(un))] + [(x, "conditional operator ?:") for x in sorted(set(tern))]:
        ok = levels[lvl] == "rightAssociative"
        R.ob("C14-R6", ok, "occa::lang::op::associativity", "level %d (%s) groups right to left" % (lvl, what), "src/occa/internal/lang/operator.cpp",
             "as in C++" if ok else
             "level %d (%s) is declared %s; C++ groups it right to left: `1 ? 2 : 0 ? 3 : 4` is folded as `(1 ? 2 : 0) ? 3 : 4` = 3 instead of 2, and `1 ? 0 ? 5 : 6 : 7` does not parse" % (lvl, what, levels[lvl]))

    # ---- R7: the type of a conditional expression -------------------------------------------------------------------------------------
    te = prog.fn("occa::lang::ternaryOpNode::evaluate")
    rets = [r for r in te.walk() if r["k"] == "ReturnStmt" and kids(r)]
    bare = [r for r in rets if strip(kids(r)[0])["k"] == "CXXMemberCallExpr" and callee(strip(kids(r)[0])).endswith("::evaluate")]
    R.ob("C14-R7", not bare and bool(rets), te.q, "?: result converted to the common type of both branches", te.site(bare[0]) if bare else te.relfile,
         "the selected value is converted before it is returned" if not bare else
         "the value of the selected branch is returned as it is: `(true ? 1 : 2.0) / 2` folds to int 0 instead of 0.5, `(true ? -1 : 0u) < 0` to true instead of false "
         "(C++ applies the usual arithmetic conversions of both branches; the unselected branch contributes its type although it is not evaluated)")

    # ---- R8: controlling expressions are evaluated in intmax_t / uintmax_t ([cpp.cond]) -----------------------------------------------------
    pp = ctx.program(["src/occa/internal/lang/preprocessor.cpp"], thorough_all=False)
    lt = pp.fn("occa::lang::preprocessor_t::lineIsTrue")
    parse = [c_ for c_ in lt.walk() if is_call(c_) and callee(c_).endswith("expressionParser::parse")]
    if len(parse) != 1:
        raise AnalysisBroken("lineIsTrue: expressionParser::parse call not found")
    lcfg = lt.cfg
    LIN = lcfg.facts_in()
    for want_t, flag in (("uint64_", "isUnsigned"), ("int64_", "isSigned"), ("int64_", "isBool")):
        conv = []
        for x in lt.walk():
            if is_call(x) and callee(x) == P + "to" and CTYPE.get(x.get("csig", "").split("(")[0].strip()) == want_t:
                par = [a for a in lt.ancestors(x) if a["k"] in ("ForStmt", "WhileStmt", "CXXForRangeStmt")]
                fs_ = {(noid_(k), pol) for (k, pol) in lcfg.facts_at(x, LIN)}
                if par and lcfg.before(par[0], parse[0]) and any(pol and flag in k for (k, pol) in fs_):
                    conv.append(x)
        R.ob("C14-R8", bool(conv), lt.q, "%s literals widened to %s before the condition is parsed" % ({"isUnsigned": "unsigned", "isSigned": "signed", "isBool": "bool (the value of defined())"}[flag], want_t.rstrip("_")),
             lt.site(conv[0]) if conv else lt.relfile,
             "every primitive token of the line is converted under %s()" % flag if conv else
             "the value of `defined(X)` reaches the folder as a bool: `#if ~defined(A)` computes !value instead of the complement in intmax_t (cpp: ~1 is -2, true)" if flag == "isBool" else
             "the line is handed to the typed folder as it is: `#if 0xFFFFFFFF + 1` and `#if (1 << 31) > 0` are false, `#if -1 == 0xFFFFFFFF` is true (cpp: the opposite)")

    # ---- R4 --------------------------------------------------------------------------
    ld = [f for f in prog.fns(P + "load") if "const char *&" in f.d["sig"]]
    if len(ld) != 1:
        raise AnalysisBroken("primitive::load(const char*&) vanished")
    ld = ld[0]
    c = ld.cfg
    IN = c.facts_in()
    sites = []
    for n in ld.walk():
        if n["k"] == "CStyleCastExpr" and ld.tname(n.get("tw")) in ("int32_t", "uint32_t") and strip(kids(n)[0])["k"] == "DeclRefExpr":
            sites.append((n, strip(kids(n)[0])))
        if is_call(n) and callee(n) == P + "to" and n.get("csig", "").split("(")[0].strip() in ("int32_t", "uint32_t", "int", "unsigned int"):
            sites.append((n, strip(call_object(n))))
    for n, var in sites:
        fs = c.facts_at(n, IN)
        toks = set()
        if var["k"] == "DeclRefExpr":
            toks.add("d%d" % var["d"])
            # locals computed from the narrowed variable (e.g. its magnitude or its signed reading)
            for d, ds in ld.local_defs().items():
                if len(ds) == 1 and ds[0]["k"] == "VarDecl" and any(x["k"] == "DeclRefExpr" and x.get("d") == var["d"] for x in walk(ds[0])):
                    toks.add("d%d" % d)
        ok = False
        for k in fs:
            a = c.fact_node(k)
            if a["k"] == "BinaryOperator" and a.get("op") in ("<", "<=", ">", ">=") and (toks & c._mention[k]):
                ok = True
        R.ob("C14-R4", ok, ld.q, "narrow:%s" % render(n, False), ld.site(n),
             "narrowing happens only under a magnitude test on the value" if ok else
             "a suffix-less literal is forced into 32 bits whatever its magnitude (2147483648 becomes int32_t -2147483648, 0xFFFFFFFF becomes -1); C++ picks the first type that fits")
    if len(sites) < 2:
        raise AnalysisBroken("primitive::load: narrowing sites not found")
    # literals written in base 8, 16 or 2 may become unsigned without a u suffix ([lex.icon] table): in both digit branches an unsigned type is
    # assigned on a path where the u suffix is not known to be present
    uns = []
    for n in ld.walk():
        tgt = None
        if n["k"] == "CStyleCastExpr" and CTYPE.get(ld.tname(n.get("tw"))) in ("uint32_", "uint64_"):
            tgt = n
        if is_call(n) and callee(n) == P + "to" and CTYPE.get(n.get("csig", "").split("(")[0].strip()) in ("uint32_", "uint64_"):
            tgt = n
        if tgt is None:
            continue
        fs = {(noid_(k), pol) for (k, pol) in c.facts_at(tgt, IN)}
        if not any(pol and k == "unsigned_" for (k, pol) in fs):
            branch = "0x/0b" if any(pol and "loadedFormattedValue" in k for (k, pol) in fs) else "plain digits (octal)" if any((not pol) and "loadedFormattedValue" in k for (k, pol) in fs) else "?"
            uns.append((tgt, branch))
    for br in ("0x/0b", "plain digits (octal)"):
        hit = [t for (t, b_) in uns if b_ == br]
        R.ob("C14-R4", bool(hit), ld.q, "unsigned candidate without u suffix: %s literals" % br, ld.site(hit[0]) if hit else ld.relfile,
             "int, unsigned int, long, unsigned long - first that fits" if hit else
             "a %s literal can only become unsigned with a u suffix: 037777777777 is typed long (C++: unsigned int), so 037777777777 + 1 folds to 4294967296 instead of 0u" % br)
    # an f-suffixed literal is converted from text to float in one rounding
    fl = [n for n in ld.walk() if n["k"] in ("CStyleCastExpr", "CXXStaticCastExpr", "CXXFunctionalCastExpr") and ld.tname(n.get("tw")) == "float" and
          any(is_call(x) and (callee(x).split("::")[-1] in ("parseFloat", "parseDouble", "atof", "strtod")) for x in walk(n))]
    direct = [n for n in ld.walk() if is_call(n) and callee(n).split("::")[-1] in ("strtof", "stof")]
    R.ob("C14-R4", bool(direct) and not fl, ld.q, "f-suffixed literal rounded once (text -> float)", ld.site((fl or direct or [kids(ld.d["body"])[0]])[0]),
         "parsed with strtof" if direct and not fl else
         "the text is parsed to double and the double narrowed to float: just above a float half-way point the two roundings differ from the compiler's single rounding (1.00000005960464478f folds to 1.0f)")

    # ---- R9: + - * & after an operand are binary -------------------------------------------------------------------------------------
    ep = ctx.program(["src/occa/internal/lang/expr/expressionParser.cpp"], thorough_all=False)
    ou = ep.fn("occa::lang::expressionParser::operatorIsLeftUnary")
    ocfg = ou.cfg
    bools = {}
    for v in ou.walk():
        if v["k"] == "VarDecl" and "bool" in ou.tname(v.get("t")) and kids(v):
            t_ = noid_(render(kids(v)[0], False))
            if "increment" in t_ and "decrement" in t_ and "unary" not in t_:
                bools["only_unary"] = v
            elif "prev" in t_.lower() and "unary" in t_ and "binary" in t_:
                bools["prev_is_op"] = v
    if len(bools) != 2:
        raise AnalysisBroken("operatorIsLeftUnary: the flags for `++/--` and `previous token is an operator` were not found")

    def peval(e, env):
        e = strip(e)
        while e["k"] in ("ParenExpr", "ExprWithCleanups"):
            e = strip(kids(e)[0])
        lit = literal(e)
        if isinstance(lit, bool):
            return lit
        if e["k"] == "DeclRefExpr" and e.get("d") in env:
            return env[e["d"]]
        if e["k"] == "UnaryOperator" and e.get("op") == "!":
            v = peval(kids(e)[0], env)
            return None if v is None else (not v)
        if e["k"] == "ConditionalOperator":
            cnd = peval(kids(e)[0], env)
            if cnd is None:
                a_, b_ = peval(kids(e)[1], env), peval(kids(e)[2], env)
                return a_ if a_ == b_ else None
            return peval(kids(e)[1] if cnd else kids(e)[2], env)
        return None
    env = {bools["only_unary"]["d"]: False, bools["prev_is_op"]["d"]: False}
    n9 = 0
    for r in ou.walk():
        if r["k"] != "ReturnStmt" or not kids(r) or not ocfg.before(bools["prev_is_op"], r):
            continue
        fs = {(noid_(k), pol) for (k, pol) in ocfg.facts_at(r, ocfg.facts_in())}
        # only the returns that can be reached with an operand on the left and an ambiguous (not ++/--) operator
        def holds(v, fs=fs):
            names = {v["n"], noid_(render(kids(v)[0], False)), noid_(render(strip(kids(v)[0]), False))}
            return any(pol and (k in names or k.strip("()") in {x.strip("()") for x in names}) for (k, pol) in fs)
        if holds(bools["prev_is_op"]) or holds(bools["only_unary"]):
            continue
        env_r = dict(env)
        # equalities between flags taken on the way here extend the environment: (a == b) false and a false  =>  b true
        fin = ocfg.facts_in()
        for (k, pol) in ocfg.facts_at(r, fin):
            fnode = ocfg.fact_node((k, pol)) if (k, pol) in ocfg._factnode else None
            if fnode is not None and fnode["k"] == "BinaryOperator" and fnode.get("op") == "==":
                l_, r_ = strip(kids(fnode)[0]), strip(kids(fnode)[1])
                for x_, y_ in ((l_, r_), (r_, l_)):
                    if x_["k"] == "DeclRefExpr" and x_.get("d") in env_r and y_["k"] == "DeclRefExpr" and y_.get("d") not in env_r:
                        env_r[y_["d"]] = env_r[x_["d"]] if pol else (not env_r[x_["d"]])
        v = peval(kids(r)[0], env_r)
        if v is None:
            # a return whose value depends on something else: acceptable only if it is not reached in this situation
            txt = noid_(render(kids(r)[0], False))
            if "chainable" in txt or "prevOpType" in txt:
                continue      # reached only with an operator on the left (prevOpType describes an operator)
            raise AnalysisBroken("operatorIsLeftUnary: cannot decide `return %s` for an operand on the left" % txt)
        n9 += 1
        R.ob("C14-R9", v is False, ou.q, "operand on the left: `%s` answers binary" % noid_(render(kids(r)[0], False))[:50], ou.site(r),
             "+ - * & after an operand are binary" if v is False else
             "with an operand on the left and an operator on the right, + - * & are classified as prefix operators: `6 & ~2`, `2 * -3`, `1 - -2` do not parse (`#if (6 & ~2) == 4` takes the #else branch)")
    if n9 < 1:
        raise AnalysisBroken("operatorIsLeftUnary: no return decided for an operand on the left")


META = {
    "technique": "control dependence on the CFG of the evaluators; sibling/table agreement over the 36 operator switch tables (case label vs to<T>() / union member per arm, exhaustiveness); data-flow of the result-type variable; guard dominance (zero divisor, and min()/-1 through the helper the guard calls)",
    "level": "Static decision of the evaluation rules visible in code shape: the right operand of && / || and the untaken arm of ?: are not evaluated; in each of the 28 binary and 8 unary operator tables every arm "
             "operates in the type of its tag on converted operands (no raw reinterpretation of an operand of another tag) and all 11 tags are handled; shifts are typed by the left operand; integer / and % have a "
             "zero-divisor guard; suffix-less literals are narrowed only under a magnitude test. Holds for all operand values and type pairs (121 pairs per operator), which tests sample thinly.",
    "note": "Does not decide numeric equality with a C++ compiler (value-level), integer promotion subtleties inside an arm (left to the C++ expression written there), or parseInt/parseFloat precision.",
}
