"""C18 - @tile covers the original loop's iterations exactly once (structural clauses).

 R1  PAREN: tile size and increment enter built operator nodes only parenthesised
 R2  agreement: the inner loop's bound offset is the block loop's own step (data flow from the block update's right-hand side)
 R3  the bounds check is applied unless `check` evaluates to false, and re-uses the original comparison operator, bound and iterator
"""
from vlib.facts import kids, strip, walk, is_call, call_args, call_object, callee, render, literal, noid
from vlib.paren import Paren, ANY, CLEAN
from vlib.cfg import write_target
from vlib.work import AnalysisBroken

UNITS = ["src/occa/internal/lang/builtins/attributes/tile.cpp", "src/occa/internal/lang/operator.cpp", "src/occa/internal/lang/expr/expr.cpp"]
T = "occa::lang::attributes::tile::"


def tile_sources(f, e):
    if e["k"] == "DeclRefExpr" and e.get("n") == "tileSize":
        return ANY
    if e["k"] == "MemberExpr" and e.get("n", "").endswith("binaryOpNode::rightValue") or e["k"] == "MemberExpr" and e.get("n", "").endswith("binaryOpNode::leftValue"):
        base = strip(kids(e)[0]) if kids(e) else None
        if base is not None and base["k"] == "DeclRefExpr" and base.get("n") == "checkExpr":
            return frozenset(["OPERAND:checkExpr"])
        return ANY
    if e["k"] == "MemberExpr" and e.get("n", "").endswith("::expr") and "attributeArg" in e.get("n", ""):
        return ANY
    return None


def run(ctx):
    R = ctx.R
    prog = ctx.program(UNITS, thorough_all=False)
    R.explanation = ("Decides the embedding discipline of the three @tile builders, that the inner loop's extent is derived from the block loop's own step expression, and that the remainder check re-uses the user's comparison. "
                     "Does not decide the iteration arithmetic itself.")
    R.rule("C18-R1", "tile size / increment embedded only parenthesised or tighter-binding", floor=10)
    R.rule("C18-R2", "inner loop bound offset = block loop step", floor=3)
    R.rule("C18-R3", "bounds check applied by default with the original operator/bound/iterator", floor=4)
    R.rule("C18-R4", "inner loop comparison is strict whenever the original comparison is inclusive, for both operand orders", floor=2)

    for name in ("setupBlockForStatement", "setupInnerForStatement", "setupCheckStatement"):
        f = prog.fn(T + name)

        def rep(ok, node, key, detail, f=f):
            R.ob("C18-R1", ok, f.q, key, f.site(node), detail)
        Paren(prog, f, tile_sources, rep).run()

    # ---- R2 --------------------------------------------------------------------------
    si = prog.fn(T + "setupInnerForStatement")
    bounds = [n for n in si.walk() if n["k"] == "VarDecl" and n["n"] == "bounds"]
    if len(bounds) != 1:
        raise AnalysisBroken("setupInnerForStatement: `bounds` not found")
    ue = [n for n in si.walk() if n["k"] == "VarDecl" and n["n"] == "updateExpr"]
    ok_ue = len(ue) == 1 and "blockForSmnt.update" in noid(render(ue[0], False)) or (len(ue) == 1 and "updateSmnt" in noid(render(ue[0], False)))
    us = [n for n in si.walk() if n["k"] == "VarDecl" and n["n"] == "updateSmnt"]
    ok_ue = ok_ue and len(us) == 1 and "blockForSmnt.update" in noid(render(us[0], False))
    R.ob("C18-R2", ok_ue, si.q, "updateExpr is the block loop's update expression", si.site(ue[0]) if ue else si.relfile, "updateExpr <- *blockForSmnt.update")
    # operands added to / subtracted from blockIterator in `bounds` must derive from updateExpr.rightValue
    derived = set()
    defs = si.local_defs()
    changed = True
    while changed:
        changed = False
        for d, ds in defs.items():
            if d in derived:
                continue
            for dn in ds:
                if dn["k"] == "VarDecl" and kids(dn):
                    txt = noid(render(kids(dn)[0], False))
                    if "updateExpr.rightValue" in txt or any(x["k"] == "DeclRefExpr" and x.get("d") in derived for x in walk(dn)):
                        derived.add(d)
                        changed = True
    addends = []
    for n in walk(bounds[0]):
        if n["k"] == "CXXOperatorCallExpr" and n.get("op") in ("+", "-") and callee(n).startswith("occa::lang::operator"):
            l, r = strip(kids(n)[1]), strip(kids(n)[2])
            addends.append((n, l, r))
    okb = bool(addends)
    for n, l, r in addends:
        lname = noid(render(l, False))
        rd = r.get("d") if r["k"] == "DeclRefExpr" else None
        good = lname == "blockIterator" and (rd in derived or "updateExpr.rightValue" in noid(render(r, False)))
        okb &= good
        R.ob("C18-R2", good, si.q, "bounds: blockIterator %s %s" % (n.get("op"), noid(render(r, False))), si.site(n),
             "the inner loop spans one block step (offset derives from the block update's right-hand side)" if good else
             "the inner loop's extent is built from the tile size independently of the block loop's step: with `x += 2` and @tile(4) the block advances by 8 but the inner loop covers 4, so iterations are skipped")
    sel = noid(render(bounds[0], False))
    R.ob("C18-R2", "updateExpr.opType()" in sel and "addEq" in sel, si.q, "bounds: + for +=, - for -=", si.site(bounds[0]), "direction follows the block update operator")
    sb = prog.fn(T + "setupBlockForStatement")
    mult = [n for n in sb.walk() if n["k"] == "CXXOperatorCallExpr" and n.get("op") == "*" and callee(n).startswith("occa::lang::operator")]
    ok = len(mult) == 1 and "tileSizeExpr" in noid(render(mult[0], False)) and "increment" in noid(render(mult[0], False))
    R.ob("C18-R2", ok, sb.q, "block step = (TILE) * (INC) for += / -=", sb.site(mult[0]) if mult else sb.relfile, "the block loop advances by tile size times the original increment")

    # ---- R4 --------------------------------------------------------------------------
    # the inner loop runs over [blockIterator, blockIterator + step): its comparison against `bounds` must be strict. The original
    # operator may be re-used only where it is known not to be <= / >=.
    cfgi = si.cfg
    INi = cfgi.facts_in()
    INCL = ("lessThanEq", "greaterThanEq")

    def op_cases(e, excluded):
        """[(operator description, set of inclusive flags known false)] for an operator-valued expression"""
        e = strip(e)
        if e["k"] == "ConditionalOperator":
            cond = noid(render(kids(e)[0], False))
            tested = {f_ for f_ in INCL if f_ in cond}
            return op_cases(kids(e)[1], excluded) + op_cases(kids(e)[2], excluded | tested)
        if e["k"] == "DeclRefExpr" and e.get("loc"):
            out = []
            for dn in si.local_defs().get(e["d"], []):
                if dn["k"] == "VarDecl" and kids(dn):
                    init = strip(kids(dn)[0])
                    if init["k"] in ("ConditionalOperator",) or (init["k"] == "DeclRefExpr" and init.get("n", "").startswith("occa::lang::op::")):
                        out += op_cases(init, excluded)
                    else:
                        out.append((noid(render(init, False)), excluded))
            return out or [(noid(render(e, False)), excluded)]
        return [(noid(render(e, False)), excluded)]
    inner_checks = [c for c in si.walk() if is_call(c) and callee(c) == "occa::lang::expr::binaryOpExpr" and any("bounds" == noid(render(a, False)) for a in call_args(c)[1:])]
    if len(inner_checks) < 2:
        raise AnalysisBroken("setupInnerForStatement: inner check constructions not found")
    for c in inner_checks:
        fs = {(noid(k), pol) for (k, pol) in cfgi.facts_at(c, INi)}
        known_false = set()
        for (k, pol) in fs:
            if not pol and "checkOpType" in k and any(f_ in k for f_ in INCL):
                known_false |= {f_ for f_ in INCL if f_ in k}
        bad = []
        for desc, excl in op_cases(call_args(c)[0], set()):
            strict_const = desc in ("occa::lang::op::lessThan", "occa::lang::op::greaterThan")
            if strict_const:
                continue
            if (excl | known_false) >= set(INCL):
                continue      # the original operator, known not to be inclusive here
            bad.append(desc)
        R.ob("C18-R4", not bad, si.q, "inner check operator: %s" % noid(render(call_args(c)[0], False))[:50], si.site(c),
             "strict operator, or the original one where it is known to be strict" if not bad else
             "the inner loop may be compared with the original inclusive operator (%s): each tile then covers one value more than the block step and neighbouring tiles overlap" % bad)

    # ---- R3 --------------------------------------------------------------------------
    sc = prog.fn(T + "setupCheckStatement")
    cfg = sc.cfg
    IN = cfg.facts_in()
    req = [n for n in sc.walk() if n["k"] == "VarDecl" and n["n"] == "requiresBoundsCheck"]
    ok = len(req) == 1 and literal(kids(req[0])[0]) is True
    R.ob("C18-R3", ok, sc.q, "check defaults to true", sc.site(req[0]) if req else sc.relfile, "bounds check required unless told otherwise")
    early = [n for n in sc.walk() if n["k"] == "ReturnStmt"]
    ok = len(early) == 1 and any((not pol) and noid(k) == "requiresBoundsCheck" for (k, pol) in cfg.facts_at(early[0], IN))
    R.ob("C18-R3", ok, sc.q, "skipped only when check evaluates to false", sc.site(early[0]) if early else sc.relfile, "the only early return is under !requiresBoundsCheck")
    be = [c for c in sc.walk() if is_call(c) and callee(c) == "occa::lang::expr::binaryOpExpr"]
    ok = len(be) == 2
    for c in be:
        a = call_args(c)
        txt = [noid(render(x, False)) for x in a]
        ok = ok and txt[0] == "checkOp" and (("iterator" == txt[1] and "checkExpr.rightValue" in txt[2]) or ("checkExpr.leftValue" in txt[1] and txt[2] == "iterator"))
    R.ob("C18-R3", ok, sc.q, "guard re-uses the original operator and bound with the original iterator", sc.site(be[0]) if be else sc.relfile, "if (iterator <op> bound) with the user's own operator and operand")
    co = [n for n in sc.walk() if n["k"] == "VarDecl" and n["n"] == "checkOp"]
    ce = [n for n in sc.walk() if n["k"] == "VarDecl" and n["n"] == "checkExpr"]
    ok = len(co) == 1 and "checkExpr.op" in noid(render(co[0], False)) and len(ce) == 1 and "checkSmnt" in noid(render(ce[0], False))
    R.ob("C18-R3", ok, sc.q, "operator and bound come from the block loop's check", sc.site(co[0]) if co else sc.relfile, "checkExpr <- *blockForSmnt.check")
    sel = [n for n in sc.walk() if n["k"] == "ConditionalOperator" and "checkValueOnRight" in noid(render(kids(n)[0], False))]
    R.ob("C18-R3", len(sel) == 1, sc.q, "operand order follows checkValueOnRight", sc.site(sel[0]) if sel else sc.relfile, "iterator stays on the side it was written on")
    ac = prog.fn(T + "applyCodeTransformations")
    lam = [prog.funcs[n["lam"]] for n in ac.walk() if n["k"] == "LambdaExpr" and n["lam"] in prog.funcs]
    order = []
    for l in lam:
        for c in l.walk():
            if c["k"] == "CallExpr" and callee(c).startswith(T + "setup"):
                order.append(callee(c).split("::")[-1])
    ok = order == ["setupNewForStatements", "setupBlockForStatement", "setupInnerForStatement", "setupCheckStatement"]
    R.ob("C18-R3", ok, ac.q, "pipeline order", "%s:%d" % (ac.relfile, ac.d["line"]), "new loops, block step, inner extent, then the remainder check: %s" % order)


META = {
    "technique": "PAREN abstract interpretation over the three @tile builders (operator-top sets, repository precedence table); data-flow agreement between the block loop's step and the inner loop's extent; guard/default facts for the remainder check",
    "level": "Static decision that the tile size, the increment and the block step are embedded parenthesised wherever the @tile transform builds an operator node, that the inner loop's bound offset is derived from the block loop's own update "
             "right-hand side (so the inner loops tile the range the block loop steps over, for every step size and direction), and that the remainder check is on by default and re-uses the user's comparison operator, bound and iterator.",
    "note": "Does not decide the arithmetic identity (exactly-once coverage for all T, step, direction), which is value-level; check=false is only structurally the omission of the guard.",
}
