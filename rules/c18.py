"""C18 - @tile covers the original loop's iterations exactly once (structural clauses).

 R1  PAREN: tile size and increment enter built operator nodes only parenthesised
 R2  agreement: the inner loop's bound offset is the block loop's own step (data flow from the block update's right-hand side)
 R3  the bounds check is applied unless `check` evaluates to false, and re-uses the original comparison operator, bound and iterator
"""
from vlib.facts import kids, strip, walk, is_call, call_args, call_object, callee, render, literal, noid
from vlib.paren import Paren, ANY, CLEAN
from vlib.cfg import write_target
from vlib.work import AnalysisBroken
from vlib.exprterm import Builder, TermError, NF, Poly, nf_deep, show, member_chain

UNITS = ["src/occa/internal/lang/parser.cpp", "src/occa/internal/lang/builtins/attributes/tile.cpp", "src/occa/internal/lang/operator.cpp", "src/occa/internal/lang/expr/expr.cpp"]
T = "occa::lang::attributes::tile::"


def tile_sources(f, e):
    if e["k"] == "DeclRefExpr" and e.get("n") == "tileSize":
        return ANY
    if e["k"] == "MemberExpr" and e.get("n", "").endswith("binaryOpNode::rightValue") or e["k"] == "MemberExpr" and e.get("n", "").endswith("binaryOpNode::leftValue"):
        base = strip(kids(e)[0]) if kids(e) else None
        if base is not None and base["k"] == "DeclRefExpr" and base.get("n") == "checkExpr":
            return frozenset(["OPERAND:checkExpr"])
        return ANY
    if e["k"] == "MemberExpr" and e.get("n", "").endswith("::expr") and "attributeArg" in e.get("n", ""):
        return ANY
    return None


def run(ctx):
    R = ctx.R
    prog = ctx.program(UNITS, thorough_all=False)
    R.explanation = ("Decides the embedding discipline of the three @tile builders, that the inner loop's extent is derived from the block loop's own step expression, and that the remainder check re-uses the user's comparison. "
                     "The stored loop headers are derived as closed forms per configuration (TERM).")
    R.rule("C18-R1", "tile size / increment embedded only parenthesised or tighter-binding", floor=10)
    R.rule("C18-R2", "inner loop bound offset = block loop step", floor=3)
    R.rule("C18-R3", "bounds check applied by default with the original operator/bound/iterator", floor=4)
    R.rule("C18-R5", "the expression DSL the tile builders are written in builds what its operators say (a + b -> `+` node, parens -> wrapInParentheses)", floor=15)
    R.rule("C18-R4", "inner loop comparison is strict whenever the original comparison is inclusive, for both operand orders", floor=2)

    from vlib.exprterm import dsl_soundness
    dsl_soundness(prog, lambda ok, fn, key, site, detail: R.ob("C18-R5", ok, fn, key, site, detail))

    # ---- the rewrite is part of every backend's pipeline: parser_t::parseTokens runs it between loading and the backend's afterParsing() ----
    from vlib.flow import must_pass_through
    R.rule("C18-R6", "every parse runs the @tile rewrite between loading the statements and the backend transformations, and its failure stops the parse", floor=3)
    pt = prog.fn("occa::lang::parser_t::parseTokens")
    load = [c for c in pt.calls() if callee(c).endswith("parser_t::loadAllStatements")]
    if len(load) != 1:
        raise AnalysisBroken("parser_t::parseTokens: loadAllStatements call not found")
    r = must_pass_through(pt, load[0], lambda c: callee(c).endswith("::afterParsing"), lambda c: callee(c) == "occa::lang::attributes::tile::applyCodeTransformations")
    if r is None:
        raise AnalysisBroken("parser_t::parseTokens: afterParsing not reachable from loadAllStatements")
    R.ob("C18-R6", r, pt.q, "pipeline:loadAllStatements -> @tile rewrite -> afterParsing", pt.site(load[0]),
         "no path reaches the backend transformations without the rewrite" if r else "a path from loadAllStatements reaches afterParsing() without the @tile rewrite: the backend sees the untransformed code")
    vc = [c for c in pt.calls() if callee(c) == "occa::lang::attributes::tile::applyCodeTransformations"]
    kept = bool(vc) and all(any(write_target(a) is not None and noid(render(strip(write_target(a)), False)).endswith("success") and any(x["i"] == c["i"] for x in walk(a)) for a in pt.walk()) for c in vc)
    R.ob("C18-R6", kept, pt.q, "pipeline:rewrite result folded into `success`", pt.site(vc[0]) if vc else pt.relfile, "a failed rewrite fails the parse" if kept else "the result of the rewrite is dropped")
    ov = [o.q for o in prog.overriders("occa::lang::parser_t::parseTokens") if o.q != pt.q]
    R.ob("C18-R6", not ov, pt.q, "pipeline:not overridden", "%s:%d" % (pt.relfile, pt.d["line"]), "one pipeline for all backends" if not ov else "overridden by %s" % ov)
    for name in ("setupBlockForStatement", "setupInnerForStatement", "setupCheckStatement"):
        f = prog.fn(T + name)

        def rep(ok, node, key, detail, f=f):
            R.ob("C18-R1", ok, f.q, key, f.site(node), detail)
        Paren(prog, f, tile_sources, rep).run()

    # ---- R2 / R3 / R4: closed forms of what the three builders store (TERM) -------------------------------------------------------
    sb = prog.fn(T + "setupBlockForStatement")
    si = prog.fn(T + "setupInnerForStatement")
    sc = prog.fn(T + "setupCheckStatement")
    pidx = {f.q: {p["n"]: i for i, p in enumerate(f.d["params"])} for f in (sb, si, sc)}
    # the remainder guard may be left out only on the user's word (check = false): every return of setupCheckStatement that builds nothing
    # is decided by the `check` keyword argument alone - never by the loop header or the tile size
    sdefs = sc.local_defs()
    spar = {p["d"]: p["n"] for p in sc.d["params"]}
    def roots_of(e, depth=0, seen=None):
        seen = seen if seen is not None else set()
        out = set()
        for x in walk(e):
            if x["k"] == "MemberExpr" and x.get("n", "").split("::")[-1] in ("args",):
                out.add("attr.args")
            if x["k"] == "DeclRefExpr" and x.get("d") in spar:
                out.add(spar[x["d"]])
            elif x["k"] == "DeclRefExpr" and x.get("loc") and x.get("d") not in seen and depth < 4:
                seen.add(x["d"])
                for dn in sdefs.get(x["d"], []):
                    src_ = kids(dn)[0] if dn["k"] == "VarDecl" and kids(dn) else (kids(dn)[1] if len(kids(dn)) > 1 else None)
                    if src_ is not None:
                        out |= roots_of(src_, depth + 1, seen)
        return out
    attr_name = sc.d["params"][0]["n"]
    n_drop = 0
    guard_drop_violated = False
    for ifs in [n for n in sc.walk() if n["k"] == "IfStmt" and not n.get("mac")]:
        then = kids(ifs)[1]
        if not any(x["k"] == "ReturnStmt" for x in walk(then)) or any(x["k"] == "CXXNewExpr" for x in walk(then)):
            continue
        n_drop += 1
        rs = roots_of(kids(ifs)[0])
        extra = sorted(r for r in rs if r != attr_name)
        guard_drop_violated = guard_drop_violated or bool(extra)
        R.ob("C18-R3", not extra, sc.q, "guard dropped only on check=: `%s`" % noid(render(kids(ifs)[0], False))[:60], sc.site(ifs),
             "decided by the check keyword argument alone" if not extra else
             "the remainder guard is also left out depending on %s: a tile count that is not a whole number of blocks (extent divisible by TILE, trip count not: `i < 8; i += 3; @tile(4)`) runs iterations beyond the bound" % ", ".join(extra))
    if n_drop < 1:
        raise AnalysisBroken("setupCheckStatement: the check=false exit was not found")
    for f in (sb, si, sc):
        kinds = [f.tname(p.get("t")) for p in f.d["params"]]
        if sum("forStatement" in k_ and "okl" not in k_ for k_ in kinds) != 2 or sum("variable_t" in k_ for k_ in kinds) != 1:
            raise AnalysisBroken("%s: parameter list changed (%s)" % (f.q, kinds))
    def roles(f):
        """parameter indices: (block iterator variable, block for statement, inner for statement) - by type and order"""
        fs = [i for i, p in enumerate(f.d["params"]) if "forStatement" in f.tname(p.get("t")) and "okl" not in f.tname(p.get("t"))]
        v = [i for i, p in enumerate(f.d["params"]) if "variable_t" in f.tname(p.get("t"))]
        return v[0], fs[0], fs[1]

    def sources_for(f):
        vi, bi, ii = roles(f)
        bname = f.d["params"][vi]["n"]

        def src(e):
            if e["k"] == "DeclRefExpr" and e.get("d") == f.d["params"][vi]["d"]:
                return ("s", "B")
            if e["k"] == "DeclRefExpr" and "exprNode" in f.type(e) and e.get("d") in [p["d"] for p in f.d["params"]]:
                return ("s", "TILE")
            if e["k"] == "MemberExpr" and e.get("n", "").endswith("oklForStatement::iterator"):
                return ("s", "X")
            if e["k"] == "MemberExpr" and e.get("n", "").split("::")[-1] in ("rightValue", "leftValue"):
                root, ch = member_chain(f, e)
                side = "R" if e["n"].endswith("rightValue") else "L"
                if root == ii and any(c.endswith("forStatement::update") for c in ch):
                    return ("s", "INC") if side == "R" else None
                if root == bi and any(c.endswith("forStatement::update") for c in ch):
                    return ("s", "STEP") if side == "R" else None
                if root == bi and any(c.endswith("forStatement::check") for c in ch):
                    return ("s", "BOUND_" + side)
                return ("s", "?%s:%s" % (root, "/".join(c.split("::")[-1] for c in ch)))
            return None

        def ops(e):
            if e["k"] == "MemberExpr" and e.get("n", "").endswith("::op"):
                root, ch = member_chain(f, e)
                if root == bi and any(c.endswith("forStatement::check") for c in ch):
                    return "OP:check"
                return "OP:?%s" % root
            return None

        def fallback(e):
            # `it != attr.kwargs.end()`: the configuration "no check= argument given"
            if e["k"] in ("CXXOperatorCallExpr", "BinaryOperator") and e.get("op") in ("!=", "==") and ".end()" in noid(render(e, False)):
                return e["op"] == "=="
            return None
        return src, ops, fallback

    def stores(f, cfgd):
        src, ops, fb = sources_for(f)
        try:
            b = Builder(prog, f, {}, cfgd, {}, sym_sources=src, op_sources=ops, cond_fallback=fb)
            caps = b.effects()
        except TermError as e:
            if f.q == sc.q and guard_drop_violated:
                return None       # already reported: the builder has an exit the header facts do not decide
            raise AnalysisBroken("%s %s: builder not reducible to closed forms: %s" % (f.q, cfgd, e))
        out = {}
        for kind, node, term in caps:
            if kind == "assign":
                root, ch = member_chain(f, node)
                key = ("assign", root, ch[-1].split("::")[-1] if ch else "?")
            elif kind == "push":
                key = ("push",)
            else:
                key = ("call", callee(node).split("::")[-1])
            out.setdefault(key, []).append(term)
        return out

    def nf(t):
        try:
            return nf_deep(t)
        except TermError as e:
            return ("unknown", str(e))
    B_, TILE, INC, STEP, X_ = (NF(Poly.sym(x)) for x in ("B", "TILE", "INC", "STEP", "X"))
    vi, bi, ii = roles(sb)
    for flag, op_, step_ in (("increment", "+=", TILE), ("decrement", "-=", TILE), ("addEq", "+=", NF(Poly.sym("TILE") * Poly.sym("INC"))), ("subEq", "-=", NF(Poly.sym("TILE") * Poly.sym("INC")))):
        cfgd = {"flag:" + x: (x == flag) for x in ("increment", "decrement", "addEq", "subEq")}
        st = stores(sb, cfgd).get(("assign", bi, "update"), [])
        got = nf(st[0]) if len(st) == 1 else None
        want = (op_, B_, step_)
        ok = got == want
        R.ob("C18-R2", ok, sb.q, "block update[%s]" % flag, "%s:%d" % (sb.relfile, sb.d["line"]),
             ("block loop advances by %s" % (st and show(st[0]))) if ok else
             "the block loop's update is built as %s, expected xTile %s %r: the block loop must advance by a whole number of original steps (TILE of them), in the original direction"
             % ([show(t) for t in st] or "nothing", op_, step_))
    vi, bi, ii = roles(si)
    n_in = 0
    for add in (True, False):
        for kind in ("lessThanEq", "greaterThanEq", "strict"):
            for right in (True, False):
                cfgd = {"flag:addEq": add, "flag:subEq": not add, "flag:lessThanEq": kind == "lessThanEq", "flag:greaterThanEq": kind == "greaterThanEq", "member:checkValueOnRight": right}
                st = stores(si, cfgd)
                tag = "%s, %s, bound on the %s" % ("+=" if add else "-=", kind, "right" if right else "left")
                if n_in == 0:
                    d0 = st.get(("push",), [])
                    ok = len(d0) == 1 and nf(d0[0]) == ("decl", X_, B_)
                    R.ob("C18-R2", ok, si.q, "inner init: x = xTile", "%s:%d" % (si.relfile, si.d["line"]),
                         "the inner loop starts at the block iterator" if ok else "the inner loop's iterator is declared as %s, expected x = xTile" % [show(t) for t in d0])
                n_in += 1
                ck = st.get(("assign", ii, "check"), [])
                off = NF(Poly.sym("B") + Poly.sym("STEP")) if add else NF(Poly.sym("B") - Poly.sym("STEP"))
                o = {"lessThanEq": "<", "greaterThanEq": ">", "strict": "OP:check"}[kind]
                want = (o, X_, off) if right else (o, off, X_)
                got = nf(ck[0]) if len(ck) == 1 else None
                ok = got == want
                rid = "C18-R4" if kind != "strict" else "C18-R2"
                R.ob(rid, ok, si.q, "inner check[%s]" % tag, "%s:%d" % (si.relfile, si.d["line"]),
                     ("inner loop runs while %s: one block step, strict comparison" % show(ck[0])) if ok else
                     "the inner loop's check is built as %s; it must compare the iterator strictly against xTile %s STEP where STEP is the block loop's own step (%s): otherwise tiles overlap, leave gaps or run the wrong way"
                     % ([show(t) for t in ck] or "nothing", "+" if add else "-", "right operand of the block update"))
    vi, bi, ii = roles(sc)
    for right in (True, False):
        st = stores(sc, {"member:checkValueOnRight": right})
        if st is None:
            continue
        cond = st.get(("call", "setCondition"), [])
        want = ("OP:check", X_, NF(Poly.sym("BOUND_R"))) if right else ("OP:check", NF(Poly.sym("BOUND_L")), X_)
        got = nf(cond[0]) if len(cond) == 1 else None
        ok = got == want
        R.ob("C18-R3", ok, sc.q, "remainder guard[bound on the %s]" % ("right" if right else "left"), "%s:%d" % (sc.relfile, sc.d["line"]),
             ("if (%s): the user's own operator, bound and iterator (check= not given)" % show(cond[0])) if ok else
             "with no check= argument the guard is built as %s; expected the original comparison between the iterator and the original bound" % ([show(t) for t in cond] or "nothing: the body runs past the original bound in the last tile"))
    # check=false is the only way to drop the guard
    cfg = sc.cfg
    IN = cfg.facts_in()
    early = [n for n in sc.walk() if n["k"] == "ReturnStmt"]
    flags = [n for n in sc.walk() if n["k"] == "VarDecl" and sc.tname(n.get("t")) in ("bool", "_Bool") and kids(n) and literal(kids(n)[0]) is True]
    ok = len(early) == 1 and len(flags) == 1 and any((not pol) and noid(k) == flags[0]["n"] for (k, pol) in cfg.facts_at(early[0], IN))
    R.ob("C18-R3", ok, sc.q, "guard skipped only when check evaluates to false", sc.site(early[0]) if early else sc.relfile, "the flag starts true and the only early return is under its negation")
    ws = [n for n in sc.walk() if n["k"] == "BinaryOperator" and n.get("op") == "=" and flags and strip(kids(n)[0]).get("d") == flags[0]["d"]]
    ok = len(ws) == 1 and "evaluate" in noid(render(kids(ws[0])[1], False)) and "check" in [literal(x) for x in sc.walk() if isinstance(literal(x), str)]
    R.ob("C18-R3", ok, sc.q, "flag is only overwritten by the value of the check= argument", sc.site(ws[0]) if ws else sc.relfile, "kwargs[\"check\"] evaluated")
    ac = prog.fn(T + "applyCodeTransformations")
    lam = [prog.funcs[n["lam"]] for n in ac.walk() if n["k"] == "LambdaExpr" and n["lam"] in prog.funcs]
    order = []
    for l in lam:
        for c in l.walk():
            if c["k"] == "CallExpr" and callee(c).startswith(T + "setup"):
                order.append(callee(c).split("::")[-1])
    ok = order == ["setupNewForStatements", "setupBlockForStatement", "setupInnerForStatement", "setupCheckStatement"]
    R.ob("C18-R3", ok, ac.q, "pipeline order", "%s:%d" % (ac.relfile, ac.d["line"]), "new loops, block step, inner extent, then the remainder check: %s" % order)


META = {
    "technique": "PAREN abstract interpretation over the three @tile builders (operator-top sets, repository precedence table); TERM: abstract execution of the three builders per header configuration (update operator x comparison kind x operand side) to the terms they store into the block/inner loops and the guard, compared in polynomial normal form with the required loop nest; access-path provenance of every header operand (block update, block check); guard/default facts for check=",
    "level": "Static decision that the tile size, the increment and the block step are embedded parenthesised wherever the @tile transform builds an operator node; that for every update operator (++ -- += -=) the block loop advances by TILE resp. TILE*INC in the original direction; "
             "that for all 12 combinations of direction, comparison kind and operand side the inner loop starts at the block iterator and runs strictly up to (down to) block iterator +/- the block loop's own step; and that with no check= argument the guard "
             "is the user's own comparison between the iterator and the original bound, dropped only when check= evaluates to false. Together these are the loop-nest shape under which the tiles partition the original iteration sequence. The trusted base of TERM is re-verified (the expr operators build the node their spelling says), and the rewrite is on every path of parser_t::parseTokens between loading and the backend transformations.",
    "note": "The final step from that loop-nest shape to exactly-once coverage is the textbook strip-mining argument and is not mechanised; overflow of xTile + STEP and non-positive tile sizes are not decided; check=false is only structurally the omission of the guard.",
}
