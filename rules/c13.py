"""C13 - preprocessing agrees with the C preprocessor on the supported subset (structural clauses).

 R1  conditions C never evaluates are not evaluated: #elif evaluates its line only for a candidate group (no group taken yet, not inside an
     ignored region); #if inside an ignored region is not evaluated
 R2  && / || / ?: skip the operand C skips (shared with C14-R1)
 R3  the conditional stack is balanced: one push per #if/#ifdef/#ifndef on every path, pop only in #endif, #elif/#else never push
 R4  literals in #if get C's types (shared with C14-R4) - magnitude-tested narrowing
"""
from vlib.facts import kids, strip, walk, is_call, call_args, call_object, callee, render, literal, noid
from vlib.cfg import write_target
from vlib.work import AnalysisBroken
from rules import c14

UNITS = ["src/occa/internal/lang/preprocessor.cpp", "src/occa/internal/lang/expr/binaryOpNode.cpp", "src/occa/internal/lang/expr/ternaryOpNode.cpp", "src/types/primitive.cpp"]
PP = "occa::lang::preprocessor_t::"
PUSHERS = {PP + "processIf", PP + "processIfdef", PP + "processIfndef", PP + "getIfdef"}
# functions that push and pop a temporary status around a sub-task (balanced inside the function)
INITIAL = {PP + "init": "the bottom-of-stack `reading` status pushed once when the preprocessor is set up"}
TEMPORARY = {PP + "processAttributeOperator": "@directive handling pushes a reading status while it fetches three tokens and pops it on every exit"}


def run(ctx):
    R = ctx.R
    prog = ctx.program(UNITS, thorough_all=False)
    R.explanation = ("Decides that #elif / nested #if conditions which C does not evaluate are not evaluated here either (guard dominance on lineIsTrue), that skipped operands of && || ?: are not evaluated, and that the "
                     "conditional status stack is pushed exactly once per opening directive and popped only by #endif. Agreement of macro expansion with cpp is not decided (oracle comparison).")
    R.rule("C13-R1", "condition evaluation is control dependent on the group being a candidate", floor=4)
    R.rule("C13-R2", "(shared with C14) skipped operands are not evaluated", floor=3)
    R.rule("C13-R3", "conditional stack: push once per opening directive, pop only in #endif", floor=10)
    R.rule("C13-R6", "__VA_ARGS__ expands to the variable arguments separated by commas", floor=1)
    R.rule("C13-R4", "(shared with C14) #if literals narrowed only under a magnitude test", floor=2)
    R.rule("C13-R5", "kept lines: a conditional opened inside a skipped group is inert (pushed with ignoring|finishedIf), a group is entered from #elif/#else only while no group was taken, and leaving the taken group marks the #if finished", floor=8)

    el = prog.fn(PP + "processElif")
    cfg = el.cfg
    IN = cfg.facts_in()
    ev = [c for c in el.walk() if c["k"] == "CXXMemberCallExpr" and callee(c) == PP + "lineIsTrue"]
    if len(ev) != 1:
        raise AnalysisBroken("processElif: lineIsTrue call not found")
    fs = {(noid(k), pol) for (k, pol) in cfg.facts_at(ev[0], IN)}
    for flag, why in (("finishedIf", "a group of this #if was already taken (or the whole #if lies in an ignored region)"), ("reading", "the group being read ends at this #elif")):
        ok = any((not pol) and k.replace(" ", "") == "(this->status&occa::lang::ppStatus::%s)" % flag for (k, pol) in fs)
        R.ob("C13-R1", ok, el.q, "#elif evaluated only if !(status & %s)" % flag, el.site(ev[0]),
             "the condition is evaluated only for a candidate group" if ok else
             "the #elif condition is evaluated although %s: `#if 1 / #elif 1/0` evaluates 1/0, which C never does" % why)
    # the non-candidate paths consume the line
    for n in el.walk():
        if n["k"] == "IfStmt" and not n.get("mac"):
            c = noid(render(kids(n)[0], False)).replace(" ", "")
            if c in ("(this->status&occa::lang::ppStatus::finishedIf)", "(this->status&occa::lang::ppStatus::reading)"):
                ok = any(is_call(x) and callee(x) == PP + "skipToNewline" for x in walk(kids(n)[1])) and any(x["k"] == "ReturnStmt" for x in walk(kids(n)[1]))
                R.ob("C13-R1", ok, el.q, "non-candidate #elif skips its line: %s" % c.split("::")[-1].rstrip(")"), el.site(n), "line discarded and function returns without evaluating")
    pi = prog.fn(PP + "processIf")
    ev2 = [c for c in pi.walk() if c["k"] == "CXXMemberCallExpr" and callee(c) == PP + "lineIsTrue"]
    if len(ev2) != 1:
        raise AnalysisBroken("processIf: lineIsTrue call not found")
    fs = {(noid(k), pol) for (k, pol) in pi.cfg.facts_at(ev2[0])}
    ok = any((not pol) and k.replace(" ", "") == "(this->status&occa::lang::ppStatus::ignoring)" for (k, pol) in fs)
    R.ob("C13-R1", ok, pi.q, "#if evaluated only if !(status & ignoring)", pi.site(ev2[0]), "a nested #if inside a skipped region is not evaluated")
    callers = {f.q for f in prog.funcs.values() for c in f.walk() if c["k"] == "CXXMemberCallExpr" and callee(c) == PP + "lineIsTrue"}
    R.ob("C13-R1", callers == {PP + "processIf", PP + "processElif"}, PP + "lineIsTrue", "who-calls", "", "conditions are evaluated only from #if and #elif: %s" % sorted(callers))

    # ---- R2 / R4 shared -----------------------------------------------------------------
    c14.short_circuit(prog, R, "C13-R2")
    ld = [f for f in prog.fns("occa::primitive::load") if "const char *&" in f.d["sig"]][0]
    c = ld.cfg
    IN2 = c.facts_in()
    n4 = 0
    for n in ld.walk():
        var = None
        if n["k"] == "CStyleCastExpr" and ld.tname(n.get("tw")) in ("int32_t", "uint32_t") and strip(kids(n)[0])["k"] == "DeclRefExpr":
            var = strip(kids(n)[0])
        if is_call(n) and callee(n) == "occa::primitive::to" and n.get("csig", "").split("(")[0].strip() in ("int32_t", "uint32_t", "int", "unsigned int"):
            var = strip(call_object(n))
        if var is None or var["k"] != "DeclRefExpr":
            continue
        toks = {"d%d" % var["d"]}
        for d, ds in ld.local_defs().items():
            if len(ds) == 1 and ds[0]["k"] == "VarDecl" and any(x["k"] == "DeclRefExpr" and x.get("d") == var["d"] for x in walk(ds[0])):
                toks.add("d%d" % d)
        ok = any(c.fact_node(k)["k"] == "BinaryOperator" and c.fact_node(k).get("op") in ("<", "<=", ">", ">=") and (toks & c._mention[k]) for k in c.facts_at(n, IN2))
        n4 += 1
        R.ob("C13-R4", ok, ld.q, "narrow:%s" % noid(render(n, False)), ld.site(n), "32-bit narrowing only under a magnitude test" if ok else "`#if 2147483648 > 0` is folded with a 32-bit literal and disagrees with cpp")

    # ---- R3 --------------------------------------------------------------------------
    pushers = {}
    poppers = {}
    for f in prog.funcs.values():
        if f.d.get("tmpl") == "inst":
            continue
        for cc in f.walk():
            if cc["k"] == "CXXMemberCallExpr" and callee(cc) == PP + "pushStatus":
                pushers.setdefault(f.q, []).append(cc)
            if cc["k"] == "CXXMemberCallExpr" and callee(cc) == PP + "popStatus":
                poppers.setdefault(f.q, []).append(cc)
    for q, cs in sorted(pushers.items()):
        ok = q in PUSHERS or q in TEMPORARY or q in INITIAL
        R.ob("C13-R3", ok, q, "who-calls:pushStatus (%d)" % len(cs), prog.fn(q).site(cs[0]) if len(prog.fns(q)) == 1 else "",
             ("opening directive" if q in PUSHERS else TEMPORARY.get(q) or INITIAL.get(q)) if ok else
             "a status is pushed outside #if/#ifdef/#ifndef: #elif/#else or an error path that pushes unbalances the conditional stack")
    for q, cs in sorted(poppers.items()):
        ok = q == PP + "processEndif" or q in TEMPORARY
        R.ob("C13-R3", ok, q, "who-calls:popStatus (%d)" % len(cs), "", "closing directive" if q == PP + "processEndif" else TEMPORARY.get(q, "popStatus outside #endif"))
    for q in TEMPORARY:
        fq = prog.fns(q)
        if fq:
            f = fq[0]
            cf = f.cfg
            for pc in pushers.get(q, []):
                p = cf.find_path(cf.position(pc), "exit", lambda b, i, e: any(e == x["i"] for x in poppers.get(q, [])))
                R.ob("C13-R3", p is None, q, "temporary push is popped on every exit", f.site(pc), "balanced inside the function" if p is None else "a path returns with the temporary status still pushed", path=p)
    # exactly one push on every path of the three opening directives
    gi = prog.fn(PP + "getIfdef")
    gcfg = gi.cfg
    gpush = pushers.get(gi.q, [])
    for r in (n for n in gi.walk() if n["k"] == "ReturnStmt"):
        v = literal(kids(r)[0])
        npush = [pc for pc in gpush if gcfg.before(pc, r)]
        ok = (v is False and len(npush) == 1) or (v is True and not npush)
        R.ob("C13-R3", ok, gi.q, "getIfdef: return %s with %d push" % (str(v).lower(), len(npush)), gi.site(r), "pushes exactly when it reports failure (the caller then returns)")
    for q in (PP + "processIf", PP + "processIfdef", PP + "processIfndef"):
        f = prog.fn(q)
        cf = f.cfg
        events = list(pushers.get(q, []))
        helper_fail = [c_ for c_ in f.walk() if c_["k"] == "CXXMemberCallExpr" and callee(c_) == PP + "getIfdef"]
        # a path without any push event: allowed only through getIfdef's failing return
        def is_event(b, i, e):
            return any(e == x["i"] for x in events)
        p = cf.find_path((cf.entry, -1), "exit", is_event)
        ok = p is None
        if p is not None and helper_fail:
            pf = cf.path_edge_facts(p)
            ok = any((not pol) and "getIfdef" in k for (k, pol) in pf)
        R.ob("C13-R3", ok, q, "every path pushes one status", "%s:%d" % (f.relfile, f.d["line"]), "each opening directive pushes on all paths, including its error paths" if ok else "a path leaves the opening directive without pushing: the matching #endif pops an outer status", path=None if ok else p)
        # never two pushes on one path
        twice = None
        for a in events:
            for b_ in events:
                if a is not b_ and cf.find_path(cf.position(a), lambda bb, i, e, b_=b_: e == b_["i"], lambda bb, i, e: False) is not None:
                    twice = (a, b_)
        R.ob("C13-R3", twice is None, q, "no path pushes twice", "%s:%d" % (f.relfile, f.d["line"]), "at most one push per directive")
    for q in (PP + "processElif", PP + "processElse"):
        f = prog.fn(q)
        reach = prog.callgraph_from([f], depth=3, virtual=False)
        bad = [g.q for (g, d, v) in reach.values() if g.q in pushers and g.q not in TEMPORARY and g.key != f.key and g.q in (PP + "lineIsTrue",)]
        bad += [q] if q in pushers else []
        R.ob("C13-R3", not bad, q, "#elif/#else never push", "%s:%d" % (f.relfile, f.d["line"]), "only mutates the top of the stack" if not bad else "pushes a status via %s" % bad)
    en = prog.fn(PP + "processEndif")
    fs_ = en.cfg
    pc = poppers.get(en.q, [])
    ok = len(pc) == 1 and any(pol and noid(k).replace(" ", "") == "(this->status&occa::lang::ppStatus::foundIf)" for (k, pol) in fs_.facts_at(pc[0]))
    R.ob("C13-R3", ok, en.q, "#endif pops iff inside an #if", en.site(pc[0]) if pc else en.relfile, "pop guarded by foundIf")
    kept_lines(prog, R, pushers)
    # controlling expressions are evaluated in intmax_t / uintmax_t, the value of defined() included (shared with C14)
    from vlib.refile import refile
    refile(ctx, c14, {"C14-R8": "C13-R7"}, "C14")
    mp = ctx.program(["src/occa/internal/lang/macro.cpp"], thorough_all=False)
    me = mp.fn("occa::lang::macroArgument::expand")
    loops = [n for n in me.walk() if n["k"] in ("ForStmt", "WhileStmt") and not n.get("mac") and any(is_call(c) and callee(c).endswith("macroArgument::expandArg") for c in walk(n))]
    if len(loops) != 1:
        raise AnalysisBroken("macroArgument::expand: the loop over the variable arguments was not found")
    commas = [c for c in walk(loops[0]) if is_call(c) and callee(c).endswith("::push_back") and
              any(x["k"] == "DeclRefExpr" and x.get("n") == "occa::lang::op::comma" for x in walk(c))]
    okc = False
    for c in commas:
        fs = {noid(k).replace(" ", "") for (k, pol) in me.cfg.facts_at(c) if pol}
        # between arguments only: guarded by `i > first` (not emitted before the first variable argument)
        if any((">" in k or "!=" in k) and "argc" in k for k in fs):
            okc = True
    R.ob("C13-R6", okc, me.q, "a comma token is emitted between consecutive variable arguments", me.site(commas[0]) if commas else me.site(loops[0]),
         "the separators consumed while the arguments were collected are re-inserted" if okc else
         "the variable arguments are concatenated: `#define V(a, ...) a + __VA_ARGS__` turns V(1, 2, 3) into `1 + 2 3`")


def _flags(e):
    return {x.get("n", "").split("::")[-1] for x in walk(e) if x["k"] == "DeclRefExpr" and x.get("n", "").startswith("occa::lang::ppStatus::")}


def _status_fact(facts, flag):
    """polarity of `status & ppStatus::<flag>` among branch facts, or None"""
    want = "(this->status&occa::lang::ppStatus::%s)" % flag
    for (k, pol) in facts:
        if noid(k).replace(" ", "") == want:
            return pol
    return None


def kept_lines(prog, R, pushers):
    # (a) what is pushed, in which context
    gi = prog.fn(PP + "getIfdef")
    inherited = {}
    for q in (PP + "processIfdef", PP + "processIfndef"):
        f = prog.fn(q)
        IN = f.cfg.facts_in()
        for c_ in f.walk():
            if c_["k"] == "CXXMemberCallExpr" and callee(c_) == gi.q:
                inherited[(q, c_["i"])] = _status_fact(f.cfg.facts_at(c_, IN), "ignoring")
    other_callers = [f.q for f in prog.funcs.values() for c_ in f.walk() if c_["k"] == "CXXMemberCallExpr" and callee(c_) == gi.q and f.q not in (PP + "processIfdef", PP + "processIfndef")]
    if not inherited:
        raise AnalysisBroken("getIfdef has no call site in processIfdef/processIfndef")
    gi_ctx = False if (all(v is False for v in inherited.values()) and not other_callers) else None
    for q in sorted(PUSHERS):
        f = prog.fn(q)
        IN = f.cfg.facts_in()
        for pc in pushers.get(q, []):
            fl = _flags(call_args(pc)[0])
            ctx = _status_fact(f.cfg.facts_at(pc, IN), "ignoring")
            if ctx is None and q == gi.q:
                ctx = gi_ctx
            if ctx is None and q != gi.q and any(pol and "getIfdef(" in noid(k) and not noid(k).lstrip("(").startswith("!") for (k, pol) in f.cfg.facts_at(pc, IN)):
                # reached only after getIfdef() returned true: inherit what holds at its `return true` statements
                GIN = gi.cfg.facts_in()
                rets = [r for r in gi.walk() if r["k"] == "ReturnStmt" and literal(kids(r)[0]) is True]
                if rets and all(_status_fact(gi.cfg.facts_at(r, GIN), "ignoring") is False for r in rets):
                    ctx = False
            if ctx is False:
                ok = "foundIf" in fl and ("reading" in fl or "ignoring" in fl)
                why = "opened in a kept group: pushes foundIf with reading/ignoring" if ok else "the pushed status lacks foundIf (the matching #endif would not pop it) or a reading/ignoring state"
            else:
                ok = {"foundIf", "ignoring", "finishedIf"} <= fl and "reading" not in fl
                why = ("opened inside a skipped group: pushed inert (ignoring|finishedIf), so its own #elif/#else cannot re-enable reading" if ok else
                       "a conditional opened while the enclosing group is skipped%s is pushed without ignoring|finishedIf: `#if 0 / #ifdef X / #else / kept? / #endif / #endif` keeps a line C drops"
                       % ("" if ctx else " (not excluded at this site)"))
            R.ob("C13-R5", ok, q, "push@%s flags=%s" % ("skipped" if ctx is not False else "kept", "|".join(sorted(fl))), f.site(pc), why)
    # (b) entering / (c) leaving a group from #elif / #else
    for q in (PP + "processElif", PP + "processElse"):
        f = prog.fn(q)
        cf = f.cfg
        IN = cf.facts_in()
        n_ev = 0
        for n in f.walk():
            enters = leaves = False
            if n["k"] == "CXXMemberCallExpr" and callee(n) == PP + "swapReadingStatus":
                rd = _status_fact(cf.facts_at(n, IN), "reading")
                leaves = rd is True
                enters = not leaves
            elif n["k"] == "BinaryOperator" and n.get("op") == "=" and noid(render(kids(n)[0], False)).replace(" ", "") == "this->status" and "reading" in _flags(kids(n)[1]):
                enters = True
            elif n["k"] == "CompoundAssignOperator" and n.get("op") == "|=" and noid(render(kids(n)[0], False)).replace(" ", "") == "this->status" and "reading" in _flags(kids(n)[1]):
                enters = True
            if enters:
                n_ev += 1
                fs = cf.facts_at(n, IN)
                ok = _status_fact(fs, "finishedIf") is False
                R.ob("C13-R5", ok, q, "enter group only if !(status & finishedIf): %s" % noid(render(n, False))[:50], f.site(n),
                     "reading is switched on only while no group of this #if has been taken and the #if is not inside a skipped group" if ok else
                     "reading is switched on without excluding finishedIf: a second group of one #if (or a group of an #if nested in a skipped region) is kept")
            if leaves:
                n_ev += 1
                marks = [m for m in f.walk() if m["k"] == "CompoundAssignOperator" and m.get("op") == "|=" and "finishedIf" in _flags(kids(m)[1])]
                p = cf.find_path(cf.position(n), "exit", lambda b, i, e: any(e == m["i"] for m in marks))
                R.ob("C13-R5", p is None, q, "leaving the taken group sets finishedIf", f.site(n),
                     "every path after the taken group ends marks the #if finished" if p is None else "the taken group ends without finishedIf: a later #elif/#else of the same #if can be taken as well", path=p)
        if n_ev == 0:
            raise AnalysisBroken("%s: no reading-state transition found" % q)


META = {
    "technique": "guard dominance (branch-fact dataflow) on the evaluation call in #elif / #if and on every reading-state transition; flag-set check of every pushed status against its context; who-may-call and path counting for pushStatus / popStatus; re-use of the C14 control-dependence and narrowing checks",
    "level": "Static all-paths decision that #elif and nested #if conditions are evaluated exactly when C evaluates them (candidate group, not in an ignored region), that skipped operands of && || ?: are not evaluated, "
             "that #if literals get C's types, that the line-keeping state machine cannot re-enable reading inside a skipped group or after a taken group (pushed flags and #elif/#else transitions), and that the conditional stack is pushed exactly once per opening directive on every path (error paths included) and popped only by #endif. These are the clauses of the statement "
             "about 'expressions that C never evaluates'; agreement of macro expansion with cpp is an oracle comparison and is not claimed.",
    "note": "Macro expansion (object-like, function-like, variadic, #undef) is not decided here: it would need the C preprocessor as an oracle or a semantic model of rescanning, neither of which is static analysis of this code base. An outside dynamic probe (DESIGN 10.9, probes/P13) confirms macro expansion disagrees with cpp in several ways no rule here reports (arguments expanded while they are collected, __VA_ARGS__ loses its commas, painted-blue tokens re-expanded after substitution, `defined X`).",
}
