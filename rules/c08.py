"""C08 - a crash at any point of a kernel build never poisons the cache.

Structural clauses decided (DESIGN.md 4/C08):
 R1  every file write reachable from the build entry points goes to a staged temp name
 R2  io::stageFiles publishes only after the writer callback returned true; temp names are unique, same directory
 R3  io::moveStagedTempFile publishes with rename and checks the result
 R4  every name used as a completion test is one that the same function publishes through staging
 R5  in the Serial build the source and the build file are published before the binary
"""
import re

from vlib.facts import kids, strip, walk, is_call, call_args, callee, render, literal
from vlib.flow import path_derived, derive_locals, stream_chain, plus_chain
from vlib.work import AnalysisBroken

UNITS = [
    "src/core/device.cpp", "src/occa/internal/core/device.cpp", "src/occa/internal/io/utils.cpp",
    "src/occa/internal/io/cache.cpp", "src/occa/internal/modes/serial/device.cpp",
    "src/occa/internal/modes/openmp/device.cpp", "src/occa/internal/modes/openmp/utils.cpp",
    "src/occa/internal/utils/sys.cpp", "src/occa/internal/lang/parser.cpp", "src/types/json.cpp",
    "src/occa/internal/lang/modes/withLauncher.cpp", "src/occa/internal/core/launchedDevice.cpp",
    "src/core/kernel.cpp",
]

ENTRY = ["occa::device::buildKernel", "occa::device::buildKernelFromString", "occa::sys::compilerVendor",
         "occa::openmp::compilerFlag", "occa::io::cacheFile", "occa::io::writeBuildFile",
         "occa::modeDevice_t::writeKernelBuildFile", "occa::serial::device::buildKernel",
         "occa::openmp::device::buildKernel"]

STAGERS = {"occa::io::stageFile", "occa::io::stageFiles"}
SPAWN = {"system", "popen", "occa::sys::call"}
COMPLETION = {"occa::io::isFile", "occa::io::exists", "occa::io::cachedFileIsComplete"}
OUTFLAG = re.compile(r"(?:^|\s)(?:-o|>>?|/OUT:|/Fe:?)\s*$")
INLINE_REDIRECT = re.compile(r"(?<![0-9&])>>?\s*([^\s>]+)")


def prim_writer_path(fn, n):
    """path argument of a primitive file-creating call, else None"""
    cq = callee(n)
    a = call_args(n)
    if cq == "fopen" and len(a) >= 2:
        mode = literal(a[1])
        if isinstance(mode, str) and any(ch in mode for ch in "wa+"):
            return a[0]
        return None
    if cq in ("std::basic_ofstream<char>::basic_ofstream", "std::basic_ofstream<char>::open",
              "std::basic_fstream<char>::basic_fstream", "std::basic_fstream<char>::open") and a:
        return a[0]
    if cq == "creat" and a:
        return a[0]
    if cq == "open" and len(a) >= 2:
        v, known = 0, True
        for x in walk(a[1]):
            if x["k"] == "IntegerLiteral":
                v |= int(x["v"])
            elif x["k"] in ("DeclRefExpr", "CallExpr"):
                known = False
        if not known or (v & (0o1 | 0o2 | 0o100 | 0o1000)):
            return a[0]
        return None
    return None


def spawn_group(prog, f):
    """does f, its enclosing function or one of its lambdas run a command line?"""
    group = [f]
    if f.d.get("lambdaOf") in prog.funcs:
        group.append(prog.funcs[f.d["lambdaOf"]])
    group += [prog.funcs[x["lam"]] for x in f.walk() if x["k"] == "LambdaExpr" and x["lam"] in prog.funcs]
    return any(any(True for _ in g.calls(SPAWN)) for g in group)


def chains_of(f):
    """[(operands, node)] of every maximal stream << chain and std::string + chain"""
    out = []
    for n in f.walk():
        if n["k"] == "CXXOperatorCallExpr" and n.get("op") == "<<":
            par = f.parent.get(n["i"])
            if par is not None and par["k"] == "CXXOperatorCallExpr" and par.get("op") == "<<" and strip(kids(par)[1]) is n:
                continue
            ch = stream_chain(n)
            if ch:
                out.append((ch[1:], n))
        elif n["k"] == "CXXOperatorCallExpr" and n.get("op") == "+" and "basic_string" in f.type(n):
            par = f.parent.get(n["i"])
            if par is not None and par["k"] == "CXXOperatorCallExpr" and par.get("op") == "+":
                continue
            out.append((plus_chain(n), n))
    return out


def outflag_operands(f):
    """operands that follow an output flag (-o, >, /OUT:) in a command line built by f"""
    res = []
    for ops, n in chains_of(f):
        for i, o in enumerate(ops):
            lit = literal(o)
            if isinstance(lit, str) and OUTFLAG.search(lit) and i + 1 < len(ops):
                res.append((lit, ops[i + 1]))
    return res


def wrapper_summaries(prog):
    """{function key: set(param index)} : parameters that flow (as names) into a file-creating call"""
    summ = {}
    changed = True
    rounds = 0
    while changed and rounds < 6:
        changed = False
        rounds += 1
        for f in prog.funcs.values():
            if f.d.get("tmpl") == "inst" or not f.d["params"] or f.d["kind"] == "lambda":
                continue
            pids = [p["d"] for p in f.d["params"]]
            for n in f.walk():
                if not is_call(n):
                    continue
                paths = []
                p = prim_writer_path(f, n)
                if p is not None:
                    paths.append(p)
                for g in prog.resolve_call(n, virtual=False):
                    for idx in summ.get(g.key, ()):
                        a = call_args(n)
                        if idx < len(a):
                            paths.append(a[idx])
                for p in paths:
                    for i, pid in enumerate(pids):
                        if i in summ.get(f.key, ()):
                            continue
                        if path_derived(p, derive_locals(f, {pid})):
                            summ.setdefault(f.key, set()).add(i)
                            changed = True
            # a parameter that names the output of a command line run by this function
            if rounds == 1 and spawn_group(prog, f):
                for lit, opnd in outflag_operands(f):
                    for i, pid in enumerate(pids):
                        if path_derived(opnd, derive_locals(f, {pid})):
                            if i not in summ.get(f.key, ()):
                                summ.setdefault(f.key, set()).add(i)
                                changed = True
    return summ


def staging_lambdas(prog):
    """{lambda key: (owner Func, staging call node)} for lambdas passed as the writer callback"""
    out = {}
    for f in prog.funcs.values():
        for n in f.calls(STAGERS):
            a = call_args(n)
            if len(a) < 3:
                continue
            for x in walk(a[2]):
                if x["k"] == "LambdaExpr":
                    out[x["lam"]] = (f, n)
    return out


def run(ctx):
    R = ctx.R
    prog = ctx.program(UNITS)
    R.explanation = (
        "Decides the structural clause 'every file whose existence is used as a completion test is created only by "
        "atomic publication': all file-creating calls reachable from the kernel-build entry points write to the "
        "temp name handed out by io::stageFile(s); stageFiles renames only after the writer succeeded; completion "
        "tests look only at staged names; source and build file precede the binary. Kill points are covered because "
        "the rule is over every write site on every path, not over sampled executions. Does not decide fsync/power-loss durability.")
    R.assumptions += ["process kill, not power loss (rename atomicity of the file system is trusted)",
                      "file names are passed as std::string / const char* values; name flow through containers other than the staged strVector is not tracked"]
    R.rule("C08-R1", "file-creating call reachable from a build entry point writes to a staged temp name", floor=8)
    R.rule("C08-R1c", "compiler command line: every output flag (-o, >, /OUT:) is followed by a staged temp name", floor=3)
    R.rule("C08-R2", "io::stageFiles: publish only after func() returned true; unique same-directory temp names; skipExisting semantics", floor=6)
    R.rule("C08-R3", "io::moveStagedTempFile publishes by rename(temp, final) and checks the result", floor=3)
    R.rule("C08-R4", "a name tested for completion (reuse instead of rebuild) is published by staging in the same function", floor=3)
    R.rule("C08-R5", "Serial build: cached source and build file are written before the binary is staged", floor=3)

    summ = wrapper_summaries(prog)
    lambdas = staging_lambdas(prog)
    roots = []
    for q in ENTRY:
        roots += prog.fns(q)
    if len(roots) < 8:
        raise AnalysisBroken("build entry points vanished: found %d of %s" % (len(roots), ENTRY))
    reach = prog.callgraph_from(roots)
    R.analysed["reachable_functions"] = len(reach)
    R.analysed["writer_wrappers"] = sorted(prog.funcs[k].q for k in summ)
    R.analysed["staging_call_sites"] = len(lambdas)
    if len(lambdas) < 8:
        raise AnalysisBroken("only %d staging call sites found, floor 8" % len(lambdas))

    # ---------------- R1: writes ------------------------------------------------
    for key, (f, depth, via) in sorted(reach.items()):
        if f.d.get("tmpl") == "inst":
            continue
        pids = [p["d"] for p in f.d["params"]]
        own_wrapper = summ.get(f.key, set())
        temp_seed = set()
        if f.key in lambdas and pids:
            temp_seed = {pids[0]}
        temp_derived = derive_locals(f, temp_seed) if temp_seed else set()
        for n in f.walk():
            if not is_call(n):
                continue
            sinks = []
            p = prim_writer_path(f, n)
            if p is not None:
                sinks.append((callee(n), p))
            for g in prog.resolve_call(n, virtual=False):
                a = call_args(n)
                for idx in summ.get(g.key, ()):
                    if idx < len(a):
                        sinks.append((g.q, a[idx]))
            for name, pexpr in sinks:
                # obligation shifts to callers when the name is this function's own path parameter
                shifted = False
                for i in own_wrapper:
                    if path_derived(pexpr, derive_locals(f, {pids[i]})):
                        shifted = True
                if shifted:
                    continue
                ok = bool(temp_derived) and path_derived(pexpr, temp_derived)
                ckey = "call:%s path=%s" % (name, render(pexpr, ids=False))
                R.ob("C08-R1", ok, f.q if f.d["kind"] != "lambda" else "lambda in " + prog.funcs[f.d["lambdaOf"]].q,
                     ckey, f.site(n),
                     "writes the staged temp name" if ok else
                     "creates/truncates a file under its final name (not the temp name of an enclosing io::stageFile(s) callback); a kill during the write leaves a partial file that later runs treat as complete")
        # ---------------- R1c: command lines ---------------------------------------
        if not spawn_group(prog, f):
            continue
        for ops, n in chains_of(f):
            for i, o in enumerate(ops):
                lit = literal(o)
                if not isinstance(lit, str):
                    continue
                for m in INLINE_REDIRECT.finditer(lit):
                    tgt = m.group(1)
                    ok = tgt in ("/dev/null", "&1", "&2")
                    R.ob("C08-R1c", ok, _fname(prog, f), "redirect:%s" % tgt, f.site(o),
                         "inline redirect target %r" % tgt + ("" if ok else " is a fixed final file name"))
                if OUTFLAG.search(lit) and i + 1 < len(ops):
                    nxt = ops[i + 1]
                    ok = bool(temp_derived) and path_derived(nxt, temp_derived)
                    # the output is this function's own path parameter: obligation shifts to the callers (checked by R1)
                    shifted = any(path_derived(nxt, derive_locals(f, {pids[j]})) for j in own_wrapper if j < len(pids))
                    if shifted:
                        continue
                    R.ob("C08-R1c", ok, _fname(prog, f), "outflag:%s -> %s" % (lit.strip(), render(nxt, ids=False)), f.site(nxt),
                         "output operand is the staged temp name" if ok else
                         "the compiler/command output goes to a final name instead of the staged temp name")

    # ---------------- R2: stageFiles ---------------------------------------------
    sf = prog.fn("occa::io::stageFiles")
    cfg = sf.cfg
    IN = cfg.facts_in()
    params = {p["n"]: p for p in sf.d["params"]}
    if len(sf.d["params"]) != 3:
        raise AnalysisBroken("io::stageFiles signature changed")
    p_names, p_skip, p_func = [p["d"] for p in sf.d["params"]]
    moves = list(sf.calls("occa::io::moveStagedTempFile"))
    all_moves = [(f, n) for f in prog.funcs.values() for n in f.calls("occa::io::moveStagedTempFile")]
    R.ob("C08-R2", len(all_moves) == len(moves) and len(moves) >= 1, "occa::io::stageFiles", "who-calls:moveStagedTempFile",
         sf.site(moves[0]) if moves else sf.relfile,
         "moveStagedTempFile is called only from stageFiles (%d of %d call sites)" % (len(moves), len(all_moves)))
    func_calls = [n for n in sf.walk() if n["k"] == "CXXOperatorCallExpr" and n.get("op") == "()" and
                  strip(kids(n)[1])["k"] == "DeclRefExpr" and strip(kids(n)[1]).get("d") == p_func]
    R.ob("C08-R2", len(func_calls) == 1, "occa::io::stageFiles", "call:func", sf.relfile, "writer callback invoked exactly once (%d)" % len(func_calls))
    temp_vec = None
    for mv in moves:
        facts = cfg.facts_at(mv, IN)
        ok = any(pol and cfg.fact_node(k)["k"] == "CXXOperatorCallExpr" and cfg.fact_node(k).get("op") == "()" and
                 strip(kids(cfg.fact_node(k))[1]).get("d") == p_func for k in [kk for kk in facts] for pol in [k[1]])
        R.ob("C08-R2", ok, "occa::io::stageFiles", "guard:func()==true before moveStagedTempFile", sf.site(mv),
             "branch facts at the publish call: %s" % sorted(k[0] + ("" if k[1] else " [false]") for k in facts))
        a = call_args(mv)
        # temp / final pairing by the same index
        t, fin = strip(a[0]), strip(a[1])
        same = False
        if t["k"] == "CXXOperatorCallExpr" and t.get("op") == "[]":
            tv, ti = strip(kids(t)[1]), render(kids(t)[2])
            temp_vec = tv.get("d")
            for x in walk(fin):
                if x["k"] == "CXXOperatorCallExpr" and x.get("op") == "[]" and strip(kids(x)[1]).get("d") == p_names and render(kids(x)[2]) == ti:
                    same = True
        R.ob("C08-R2", same, "occa::io::stageFiles", "pair:temp[i]->filenames[i]", sf.site(mv),
             "moveStagedTempFile(%s, %s)" % (render(a[0], False), render(a[1], False)))
    # the callback receives the temp-name vector, which is filled only from getStagedTempFilename
    for fc in func_calls:
        a = kids(fc)[2:]
        okarg = len(a) == 1 and strip(a[0])["k"] == "DeclRefExpr" and strip(a[0]).get("d") == temp_vec
        R.ob("C08-R2", okarg, "occa::io::stageFiles", "arg:func(tempFilenames)", sf.site(fc), "callback argument is %s" % render(a[0], False))
        # doNothing guard: the callback is reached only with doNothing false
        facts = cfg.facts_at(fc, IN)
        dn = [k for k in facts if not k[1] and cfg.fact_node(k)["k"] == "DeclRefExpr"]
        ok = False
        for k in dn:
            d = cfg.fact_node(k)["d"]
            defs = sf.local_defs().get(d, [])
            good = len(defs) >= 2
            for dn_ in defs:
                if dn_["k"] == "VarDecl":
                    i0 = strip(kids(dn_)[0]) if kids(dn_) else None
                    good &= i0 is not None and i0["k"] == "DeclRefExpr" and i0.get("d") == p_skip
                elif dn_["k"] == "CompoundAssignOperator" and dn_.get("op") == "&=":
                    rhs = strip(kids(dn_)[1])
                    good &= is_call(rhs) and callee(rhs) == "occa::io::isFile"
                else:
                    good = False
            ok |= good
        R.ob("C08-R2", ok, "occa::io::stageFiles", "skipExisting:all-files-exist", sf.site(fc),
             "work is skipped only when skipExisting and every requested file exists (flag initialised from skipExisting, only and-accumulated with isFile)")
    pushes = [n for n in sf.walk() if n["k"] == "CXXMemberCallExpr" and callee(n).endswith("::push_back") and
              strip(kids(kids(n)[0])[0]).get("d") == temp_vec]
    for pb in pushes:
        arg = strip(call_args(pb)[0])
        ok = is_call(arg) and callee(arg) == "occa::io::getStagedTempFilename"
        R.ob("C08-R2", ok, "occa::io::stageFiles", "fill:tempFilenames<-getStagedTempFilename", sf.site(pb), render(arg, False))
    R.ob("C08-R2", len(pushes) >= 1, "occa::io::stageFiles", "fill:exists", sf.relfile, "%d push_back into the temp-name vector" % len(pushes))
    gt = prog.fn("occa::io::getStagedTempFilename")
    rets = [n for n in gt.walk() if n["k"] == "ReturnStmt"]
    gp = gt.d["params"][0]["d"]
    for r in rets:
        ops = plus_chain(kids(r)[0])
        first = strip(ops[0])
        ok_dir = is_call(first) and callee(first) == "occa::io::dirname" and path_derived(call_args(first)[0], {gp})
        R.ob("C08-R2", ok_dir, "occa::io::getStagedTempFilename", "temp:same-directory", gt.site(r),
             "temp name starts with dirname(final name): rename stays inside one directory / file system")
        has_rand = any(is_call(x) and callee(x) == "occa::hash_t::random" for o in ops for x in walk(o))
        R.ob("C08-R2", has_rand, "occa::io::getStagedTempFilename", "temp:unique", gt.site(r), "temp name contains hash_t::random()")

    # ---------------- R3: moveStagedTempFile ---------------------------------------
    mv = prog.fn("occa::io::moveStagedTempFile")
    ren = [n for n in mv.walk() if is_call(n) and callee(n) in ("rename", "std::rename")]
    mp = [p["d"] for p in mv.d["params"]]
    ok = len(ren) == 1
    R.ob("C08-R3", ok, "occa::io::moveStagedTempFile", "publish:rename", mv.relfile, "%d rename call(s)" % len(ren))
    if ok:
        a = call_args(ren[0])
        R.ob("C08-R3", path_derived(a[0], {mp[0]}) and path_derived(a[1], {mp[1]}), "occa::io::moveStagedTempFile",
             "rename(temp, final)", mv.site(ren[0]), "rename(%s, %s)" % (render(a[0], False), render(a[1], False)))
        # result checked: at the normal exit after the rename a branch fact mentions the status variable
        par = mv.parent.get(ren[0]["i"])
        while par is not None and par["k"] not in ("VarDecl", "BinaryOperator"):
            par = mv.parent.get(par["i"])
        status = par.get("d") if par is not None and par["k"] == "VarDecl" else None
        cfg2 = mv.cfg
        IN2 = cfg2.facts_in()
        exit_facts = IN2.get(cfg2.exit) or set()
        chk = False
        for b in cfg2.blocks.values():
            if cfg2.exit in b.succs and not b.noret and b.id in cfg2.reach:
                pos = cfg2.position(ren[0])
                if pos and (pos[0] == b.id or pos[0] in cfg2.dom.get(b.id, ())):
                    fs = IN2.get(b.id) or set()
                    chk = any(status is not None and ("d%d" % status) in cfg2._mention[k] for k in fs)
        R.ob("C08-R3", chk, "occa::io::moveStagedTempFile", "check:rename-status", mv.site(ren[0]),
             "every normal exit after the rename is guarded by a condition on its result")
    others = [n for n in mv.walk() if is_call(n) and (prim_writer_path(mv, n) is not None or any(summ.get(g.key) for g in prog.resolve_call(n, False)))]
    R.ob("C08-R3", not others, "occa::io::moveStagedTempFile", "no-copy", mv.relfile, "no file-creating call besides rename")

    # ---------------- R4: completion tests -------------------------------------------
    for key, (f, depth, via) in sorted(reach.items()):
        if f.d.get("tmpl") == "inst" or f.q in ("occa::io::stageFiles", "occa::io::moveStagedTempFile", "occa::io::cachedFileIsComplete"):
            continue
        tests = [n for n in f.calls(COMPLETION)]
        if not tests:
            continue
        staged = set()
        produced = set()
        for s in f.calls(STAGERS):
            a0 = call_args(s)[0]
            for x in walk(a0):
                if x["k"] == "DeclRefExpr" and x.get("loc"):
                    staged.add(x["d"])
        for n in f.walk():
            if not is_call(n):
                continue
            pp = prim_writer_path(f, n)
            paths = [pp] if pp is not None else []
            for g in prog.resolve_call(n, virtual=False):
                a = call_args(n)
                paths += [a[i] for i in summ.get(g.key, ()) if i < len(a)]
            for pe in paths:
                for x in walk(pe):
                    if x["k"] == "DeclRefExpr" and x.get("loc"):
                        produced.add(x["d"])
        produced |= staged
        for t in tests:
            # only tests that select reuse: the tested name is later opened/loaded; tests on temp names or params are skipped
            a = call_args(t)
            arg = strip(a[-1]) if callee(t) != "occa::io::cachedFileIsComplete" else None
            if callee(t) == "occa::io::cachedFileIsComplete":
                # (dir, "name"): find the local whose definition ends with the same literal
                lit = literal(a[1])
                cand = None
                for d, ds in f.local_defs().items():
                    for dn in ds:
                        if dn["k"] == "VarDecl" and kids(dn):
                            ops = plus_chain(kids(dn)[0])
                            if len(ops) >= 2 and literal(ops[-1]) == lit:
                                cand = d
                if cand not in produced:
                    continue
                okk = cand in staged
                R.ob("C08-R4", okk, _fname(prog, f), "test:cachedFileIsComplete(%s)" % lit, f.site(t),
                     "the completion marker %r is %s" % (lit, "published through staging here" if okk else "not published through io::stageFile(s) in this function"))
                continue
            if arg is None or arg["k"] != "DeclRefExpr" or not arg.get("loc"):
                continue
            if arg["d"] in {p["d"] for p in f.d["params"]}:
                continue
            if f.key in lambdas:
                continue  # tests inside a writer callback look at temp names
            if arg["d"] not in produced:
                continue  # a name this function never creates: not a completion test of its own product
            okk = arg["d"] in staged
            # a test that only guards reading an optional file (not reuse) is accepted when the name is never written here
            R.ob("C08-R4", okk, _fname(prog, f), "test:%s(%s)" % (callee(t).split("::")[-1], arg["n"]), f.site(t),
                 "tested name is published by a staging call in this function" if okk else
                 "the name whose existence selects reuse is not produced by io::stageFile(s) in this function")

    # ---------------- R5: ordering in the serial build ----------------------------------
    bk = [f for f in prog.fns("occa::serial::device::buildKernel") if len(f.d["params"]) == 5]
    if len(bk) != 1:
        raise AnalysisBroken("serial::device::buildKernel(5 params) vanished")
    bk = bk[0]
    c = bk.cfg
    compile_stage = None
    for s in bk.calls(STAGERS):
        for x in walk(call_args(s)[2]):
            if x["k"] == "LambdaExpr":
                lam = prog.funcs.get(x["lam"])
                if lam and any(True for _ in lam.calls(SPAWN)):
                    compile_stage = s
    if compile_stage is None:
        raise AnalysisBroken("serial buildKernel: staged compiler invocation not found")
    for name in ("occa::io::cacheFile", "occa::serial::device::parseFile", "occa::modeDevice_t::writeKernelBuildFile"):
        cs = list(bk.calls(name))
        if not cs:
            raise AnalysisBroken("serial buildKernel no longer calls " + name)
        for call in cs:
            # not after the binary
            late = c.find_path(c.position(compile_stage), lambda b, i, e: e == call["i"], lambda b, i, e: False)
            R.ob("C08-R5", late is None, bk.q, "order:%s before binary" % name.split("::")[-1], bk.site(call),
                 "no path from the staged compile back to this call", path=late)
    pf = list(bk.calls("occa::serial::device::parseFile"))[0]
    wk = [n["i"] for n in bk.calls("occa::modeDevice_t::writeKernelBuildFile")]
    skip = c.find_path(c.position(pf), lambda b, i, e: e == compile_stage["i"], lambda b, i, e: e in wk)
    R.ob("C08-R5", skip is None, bk.q, "mpt:parseFile->writeKernelBuildFile->binary", bk.site(pf),
         "every path from the OKL parse to the staged compile passes writeKernelBuildFile", path=skip)


def _fname(prog, f):
    if f.d["kind"] == "lambda" and f.d.get("lambdaOf") in prog.funcs:
        return "lambda in " + prog.funcs[f.d["lambdaOf"]].q
    return f.q


META = {
    "technique": "who-may-write + name-flow taint over the resolved call graph from the build entry points; must-pass-through and branch-fact dominance on the CFGs of io::stageFiles / moveStagedTempFile / serial buildKernel",
    "level": "Static, all-paths decision of the structural clause behind crash safety: every file-creating call reachable from the "
             "Serial/OpenMP build entry points (fopen/ofstream/open, the wrappers io::write, json::write, parser_t::writeToFile computed as summaries, "
             "and compiler command lines' -o/> operands) writes the temp name handed to an io::stageFile(s) callback; stageFiles publishes only "
             "after the callback returned true, with unique same-directory temp names, by rename with a checked result; every completion test "
             "looks at a staged name; source and build file precede the binary. A kill at any point therefore cannot leave a partial file under a "
             "name that later runs treat as complete. This covers every write site on every path, which no finite set of kill points in a test can.",
    "note": "Decides the structural clause, not the behaviour after power loss (fsync ordering) and not the correctness of rename(2). Trusted: clang 14 AST/CFG, the "
            "extractor, the name-derivation whitelist (expandFilename, c_str, suffix concatenation, element of the staged strVector). Launched (GPU) modes' compile "
            "steps are outside the pinned configuration.",
}
