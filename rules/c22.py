"""C22 - every backend enforces the same OKL rules.

 R1  per backend parser: every transform in the final afterParsing overrider is reached only through the validation gate
     (success = kernelsAreValid(root), default-on) and with success known true
 R2  okl/validate is switched off only for the launcher clone inside withLauncher
 R3  rule inventory: kernelsAreValid applies kernelIsValid to every kernel; kernelIsValid is the conjunction of the four rule
     functions; each rule function reports and then returns the failing value on every path (error discipline), with floors per rule
 R4  every backend registers the OKL attributes
"""
from vlib.facts import noid, kids, strip, walk, is_call, call_args, call_object, callee, render, literal
from vlib.cfg import write_target
from vlib.work import AnalysisBroken

UNITS = ["src/occa/internal/lang/modes/okl.cpp", "src/occa/internal/lang/modes/oklForStatement.cpp",
         "src/occa/internal/lang/modes/withLauncher.cpp", "src/occa/internal/lang/modes/serial.cpp",
         "src/occa/internal/lang/modes/openmp.cpp", "src/occa/internal/lang/modes/cuda.cpp",
         "src/occa/internal/lang/modes/hip.cpp", "src/occa/internal/lang/modes/opencl.cpp",
         "src/occa/internal/lang/modes/metal.cpp", "src/occa/internal/lang/modes/dpcpp.cpp",
         "src/occa/internal/lang/parser.cpp"]

NS = "occa::lang::okl::"
BACKENDS = ["serialParser", "openmpParser", "cudaParser", "hipParser", "openclParser", "metalParser", "dpcppParser"]

# rule of the statement -> (function, minimum number of error reports, value returned on error)
RULES = [
    ("non-void return type", NS + "kernelHasValidReturnType", 1, False),
    ("no @outer / no @inner / mismatched nesting across branches", NS + "kernelHasValidOklLoops", 4, False),
    ("@inner outside @outer, @outer inside @inner, no @inner under an @outer, nesting deeper than 3", NS + "pathHasValidOklLoopOrdering", 5, False),
    ("invalid loop header: init", NS + "oklForStatement::hasValidInit", 6, False),
    ("invalid loop header: check", NS + "oklForStatement::hasValidCheck", 4, False),
    ("invalid loop header: update", NS + "oklForStatement::hasValidUpdate", 4, False),
    ("@shared must be a constant-size array", NS + "hasProperSharedArrayDeclaration", 2, False),
    ("@shared / @exclusive declared or used in the wrong place", NS + "hasProperSharedOrExclusiveUsage", 3, False),
]


def final_overrider(prog, cls, name):
    """nearest definition of virtual `name` walking up from cls"""
    work = [cls]
    while work:
        c = work.pop(0)
        fs = prog.fns(c + "::" + name)
        if fs:
            return fs[0]
        r = prog.record(c)
        work += [b["q"] for b in r["bases"] if b.get("q")]
    return None


def run(ctx):
    R = ctx.R
    prog = ctx.program(UNITS)
    R.explanation = (
        "Decides that no backend transform can run on an unvalidated kernel (must-pass-through on each backend's final afterParsing overrider, all paths), "
        "that validation is only ever disabled for the launcher clone, that the validator is the conjunction of the rule functions applied to every kernel and "
        "that each rule function returns its failing value after every error report. Does not decide that the rule functions accept exactly the valid kernels.")
    R.rule("C22-R1", "transform call in a backend's afterParsing is dominated by the validation gate and by `success` being true", floor=25)
    R.rule("C22-R2", "okl/validate is written false only for withLauncher's launcher parser", floor=1)
    R.rule("C22-R5", "a verdict computed in a loop over several items is accumulated: no item's failure is overwritten by a later item", floor=5)
    R.rule("C22-R3", "validator structure and error discipline of the rule functions", floor=35)
    R.rule("C22-R4", "each backend parser registers the OKL attributes on construction", floor=7)

    gated = {}   # afterParsing definitions proven gated

    def check_after_parsing(f):
        if f.key in gated:
            return gated[f.key]
        cfg = f.cfg
        IN = cfg.facts_in()
        gate_nodes = set()
        validate_blocks = {}
        for n in f.walk():
            t = write_target(n)
            if t is not None and render(strip(t), False) == "this->success":
                rhs = strip(kids(n)[1])
                if is_call(rhs) and callee(rhs) == NS + "kernelsAreValid":
                    gate_nodes.add(n["i"])
            if n["k"] == "CXXMemberCallExpr" and callee(n).endswith("::afterParsing") and n is not f.body:
                g = prog.resolve_call(n, virtual=False)
                if g and all(check_after_parsing(x) for x in g):
                    gate_nodes.add(n["i"])
        # blocks whose terminator is the okl/validate test: the false edge is not a way around the gate
        for b in cfg.blocks.values():
            if b.tc is not None:
                c = f.nodes.get(b.tc)
                if c is not None and any(is_call(x) and callee(x).startswith("occa::json::get") and literal(call_args(x)[0]) == "okl/validate" for x in walk(c)):
                    dflt = [literal(call_args(x)[1]) for x in walk(c) if is_call(x) and callee(x).startswith("occa::json::get") and len(call_args(x)) > 1]
                    validate_blocks[b.id] = dflt
        fname = f.q
        R.ob("C22-R1", bool(gate_nodes), fname, "gate:exists", "%s:%d" % (f.relfile, f.d["line"]),
             "validation gate present (success = kernelsAreValid(root) or a gated base afterParsing)" if gate_nodes else "no validation gate in this afterParsing")
        for b, dflt in validate_blocks.items():
            R.ob("C22-R1", dflt == [True], fname, "gate:default-on", "%s:%d" % (f.relfile, f.d["line"]), "okl/validate defaults to %s" % dflt)
        ok_all = bool(gate_nodes)
        transforms = [n for n in f.walk() if is_call(n) and n["i"] not in gate_nodes and
                      (n["k"] == "CXXMemberCallExpr" and (call_object(n) is None or strip(call_object(n))["k"] == "CXXThisExpr") and not n.get("cconst")
                       or (n["k"] == "CallExpr" and callee(n).startswith("occa::lang") and callee(n) != NS + "kernelsAreValid"))]
        for t in transforms:
            # (a) every path entry -> t passes a gate, not counting the okl/validate==false shortcut
            pos = cfg.position(t)
            seen = set()
            work = [(cfg.entry, [cfg.entry])]
            bad = None
            while work and bad is None:
                b, pth = work.pop()
                blk = cfg.blocks[b]
                stop = False
                for idx, e in enumerate(blk.elems):
                    if e in gate_nodes:
                        stop = True
                        break
                    if (b, idx) == pos:
                        bad = pth
                        stop = True
                        break
                if stop:
                    continue
                succs = list(blk.succs)
                if b in validate_blocks and len(succs) == 2:
                    succs = succs[:1]  # only the validating edge counts
                for s in succs:
                    if s is not None and s not in seen:
                        seen.add(s)
                        work.append((s, pth + [s]))
            ok_a = bad is None
            # (b) success known true at the call
            fs = cfg.facts_at(t, IN)
            ok_b = ("this->success", True) in fs
            ok_all &= ok_a and ok_b
            R.ob("C22-R1", ok_a and ok_b, fname, "transform:%s" % callee(t).split("::")[-1], f.site(t),
                 "reached only through the validation gate with success == true" if ok_a and ok_b else
                 ("a path reaches this transform without passing kernelsAreValid" if not ok_a else "transform runs although validation (or an earlier step) may have failed: no `if (!success) return;` between"), path=bad)
        gated[f.key] = ok_all
        return ok_all

    for b in BACKENDS:
        cls = NS + b
        prog.record(cls)
        f = final_overrider(prog, cls, "afterParsing")
        if f is None or f.q == "occa::lang::parser_t::afterParsing":
            R.ob("C22-R1", False, cls, "afterParsing:final-overrider", "", "backend does not override afterParsing: nothing validates")
            continue
        ok = check_after_parsing(f)
        R.ob("C22-R1", ok, cls, "backend:gated via %s" % f.q.split("::")[-2], "%s:%d" % (f.relfile, f.d["line"]), "final overrider of afterParsing for this backend is %s" % f.q)
        # hooks the gated driver calls virtually must not be reachable from elsewhere before validation: they are only called from afterParsing
    HOOKS = ("beforeKernelSplit", "afterKernelSplit", "setupKernels", "splitKernels", "setupLauncherParser", "setOklLoopIndices")
    for hook in HOOKS:
        callers = {f.q for f in prog.funcs.values() for n in f.walk() if n["k"] == "CXXMemberCallExpr" and callee(n).endswith("::" + hook) and callee(n).startswith(NS)}
        bad = {c for c in callers if not (c.endswith("::afterParsing") or any(c.endswith("::" + h) for h in HOOKS))}
        R.ob("C22-R1", not bad, NS + "withLauncher", "who-calls:%s" % hook, "", "called only from the gated drivers: %s" % sorted(callers) if not bad else "also called from %s (outside the validation gate)" % sorted(bad))

    # ---- R2 ---------------------------------------------------------------------
    n_writes = 0
    for f in prog.funcs.values():
        if f.d.get("tmpl") == "inst":
            continue
        for n in f.walk():
            if n["k"] == "CXXOperatorCallExpr" and n.get("op") == "=" and len(kids(n)) == 3:
                lhs = strip(kids(n)[1])
                if lhs["k"] == "CXXOperatorCallExpr" and lhs.get("op") == "[]" and literal(kids(lhs)[2]) == "okl/validate":
                    n_writes += 1
                    ok = f.q == NS + "withLauncher::withLauncher" and "launcherParser" in render(kids(lhs)[1], False)
                    R.ob("C22-R2", ok, f.q, "write:%s = %s" % (render(lhs, False), render(kids(n)[2], False)), f.site(n),
                         "validation disabled only for the launcher clone (validated as part of the device source)" if ok else "okl/validate is overridden outside withLauncher's launcher parser")
    # ---- R3 ---------------------------------------------------------------------
    kav = prog.fn(NS + "kernelsAreValid")
    lam = [prog.funcs[n["lam"]] for n in kav.walk() if n["k"] == "LambdaExpr" and n["lam"] in prog.funcs]
    ok = False
    for l in lam:
        for r in (n for n in l.walk() if n["k"] == "ReturnStmt"):
            e = strip(kids(r)[0])
            if e["k"] == "UnaryOperator" and e.get("op") == "!" and is_call(strip(kids(e)[0])) and callee(strip(kids(e)[0])) == NS + "kernelIsValid":
                ok = True
    rets = [n for n in kav.walk() if n["k"] == "ReturnStmt"]
    uses_filter_empty = any("filter" in render(r, False) and "isEmpty" in render(r, False) for r in rets)
    uses_all = any(is_call(n) and callee(n).endswith("getKernelStatements") for n in kav.walk())
    R.ob("C22-R3", ok and uses_filter_empty and uses_all, kav.q, "applies kernelIsValid to every kernel", "%s:%d" % (kav.relfile, kav.d["line"]),
         "valid iff the set of kernels failing kernelIsValid is empty, over getKernelStatements()")
    kiv = prog.fn(NS + "kernelIsValid")
    want = [NS + x for x in ("kernelHasValidReturnType", "kernelHasValidOklLoops", "kernelHasValidSharedAndExclusiveDeclarations", "kernelHasValidLoopBreakAndContinue")]
    rets = [n for n in kiv.walk() if n["k"] == "ReturnStmt"]

    def conj(e, out):
        e = strip(e)
        if e["k"] == "BinaryOperator" and e.get("op") == "&&":
            conj(kids(e)[0], out)
            conj(kids(e)[1], out)
        else:
            out.append(e)
        return out
    for w in want:
        ok = len(rets) == 1 and any(is_call(x) and callee(x) == w for x in conj(kids(rets[0])[0], []))
        R.ob("C22-R3", ok, kiv.q, "conjunct:%s" % w.split("::")[-1], "%s:%d" % (kiv.relfile, kiv.d["line"]), "kernelIsValid requires this rule (&&-conjunct of its single return)")
    reach = prog.callgraph_from([kav])
    reachq = {f.q for (f, d, v) in reach.values()}

    def error_discipline(f, errval, fname):
        """after every printError call the next return yields errval"""
        cfg = f.cfg
        n_err = 0
        for c in f.walk():
            if not (is_call(c) and callee(c).endswith("::printError")):
                continue
            n_err += 1
            pos = cfg.position(c)
            seen = set()
            work = [(pos[0], pos[1] + 1)]
            ok = True
            found = 0
            while work:
                b, i0 = work.pop()
                blk = cfg.blocks[b]
                hit = False
                for idx in range(i0, len(blk.elems)):
                    x = cfg.elem_node(blk.elems[idx])
                    if x is not None and x["k"] == "ReturnStmt":
                        found += 1
                        v = literal(kids(x)[0]) if kids(x) else None
                        if v is not errval:
                            ok = False
                        hit = True
                        break
                if hit:
                    continue
                for s in blk.succs:
                    if s is not None and s not in seen:
                        seen.add(s)
                        work.append((s, 0))
            R.ob("C22-R3", ok and found > 0, fname, "error-exit:%s" % render(call_args(c)[0], False)[:60], f.site(c),
                 "error report is followed by `return %s` on every path" % str(errval).lower() if ok and found else "after reporting the error a path returns the accepting value: the kernel is reported but not rejected")
        return n_err

    for (what, q, floor, errval) in RULES:
        f = prog.fn(q)
        inreach = q in reachq or q.startswith(NS + "oklForStatement::")
        R.ob("C22-R3", inreach, q, "reachable-from:kernelsAreValid", "%s:%d" % (f.relfile, f.d["line"]), "rule '%s' is part of the validator's call graph" % what, nontrivial=True)
        n_err = error_discipline(f, errval, q)
        R.ob("C22-R3", n_err >= floor, q, "inventory:%s" % what, "%s:%d" % (f.relfile, f.d["line"]), "%d error reports (floor %d)" % (n_err, floor))
    # the per-path rules, identified by the condition under which each one rejects (counts are the reference parameters of the function)
    po = prog.fn(NS + "pathHasValidOklLoopOrdering")
    pn = [p["n"] for p in po.d["params"]]
    if len(pn) != 3:
        raise AnalysisBroken("pathHasValidOklLoopOrdering: parameter list changed")
    inner_n, outer_n = pn[1], pn[2]
    WANT = [("@outer inside @inner", (inner_n, True)), ("@inner outside of every @outer", (outer_n, False)), ("@outer path without any @inner", (inner_n, False)),
            ("more than 3 nested @outer", ("(%s > 3)" % outer_n, True)), ("more than 3 nested @inner", ("(%s > 3)" % inner_n, True))]
    pcfg = po.cfg
    PIN = pcfg.facts_in()
    reports = [c for c in po.walk() if is_call(c) and callee(c).endswith("::printError")]
    sigs = []
    for c in reports:
        # the rule's own guards: the conditions of the if statements whose then-branch encloses the report (structural nesting, so that
        # an earlier sibling `if (...) return` does not count)
        sig = set()
        prev = c
        for a in po.ancestors(c):
            if a["k"] == "IfStmt" and len(kids(a)) >= 2 and any(x["i"] == prev["i"] for x in walk(kids(a)[1])):
                sig |= {(noid(render(n_, True)), pol) for (n_, pol) in pcfg.atoms(kids(a)[0], True, po.local_defs())}
            prev = a
        sigs.append(sig)
    for what, fact in WANT:
        # the rule's own guard is the innermost one: it must hold at the report, and no other wanted guard of the same variable with the same polarity may shadow it
        ok = any(fact in s_ for s_ in sigs)
        R.ob("C22-R3", ok, po.q, "rule:%s" % what, "%s:%d" % (po.relfile, po.d["line"]),
             "rejected with an error under `%s%s`" % ("" if fact[1] else "!", fact[0]) if ok else
             "no error is reported under `%s%s`: the shared validator accepts %s, and only some back ends catch it later on their own" % ("" if fact[1] else "!", fact[0], what))
    # the loop-header rule about the comparison: exactly < <= > >= are accepted (group constants such as operatorType::comparison are expanded
    # through the operator-type table)
    def flag_leaves(e, depth=0):
        out = set()
        for x in walk(e):
            if x["k"] == "DeclRefExpr" and x.get("n", "").startswith(NS.replace("okl::", "") + "operatorType::"):
                g = prog.globals.get(x["n"])
                init = g.get("init") if g else None
                sub = {y.get("n") for y in walk(init) if y["k"] == "DeclRefExpr" and y.get("n", "").startswith(NS.replace("okl::", "") + "operatorType::")} if init is not None else set()
                if sub and depth < 4:
                    for y in walk(init):
                        if y["k"] == "DeclRefExpr" and y.get("n", "").startswith(NS.replace("okl::", "") + "operatorType::"):
                            out |= flag_leaves(y, depth + 1)
                else:
                    out.add(x["n"].split("::")[-1])
        return out
    hvc = prog.fn(NS + "oklForStatement::hasValidCheck")
    hcfg = hvc.cfg
    HIN = hcfg.facts_in()
    rejs = [c for c in hvc.walk() if is_call(c) and callee(c).endswith("::printError") and any("operators" in (literal(x) or "") for x in walk(c) if x["k"] == "StringLiteral")]
    accepted = None
    for c in rejs:
        for (k, pol) in hcfg.facts_at(c, HIN):
            fn_ = hcfg.fact_node((k, pol)) if (k, pol) in hcfg._factnode else None
            if fn_ is not None and not pol and "operatorType::" in noid(k) and "&" in noid(k):
                accepted = flag_leaves(fn_)
    WANT_OPS = {"lessThan", "lessThanEq", "greaterThan", "greaterThanEq"}
    R.ob("C22-R3", accepted == WANT_OPS, hvc.q, "loop check operator: exactly < <= > >= accepted", "%s:%d" % (hvc.relfile, hvc.d["line"]),
         "every other comparison is rejected for all back ends" if accepted == WANT_OPS else
         "the accepted operators are %s: a loop such as `i != n` / `i == n` passes the shared validator, and the launch size is still computed as bound - init" % (sorted(accepted) if accepted else "not determined"))
    # loop header rule is wired: kernelHasValidOklLoops -> oklForStatement::isValid -> ctor computes hasValidInit && hasValidCheck && hasValidUpdate
    khl = prog.fn(NS + "kernelHasValidOklLoops")
    iv = [c for c in khl.walk() if is_call(c) and callee(c) == NS + "oklForStatement::isValid"]
    cfg = khl.cfg
    okiv = len(iv) >= 2
    for c in iv:
        # a failing isValid leads to return false
        par = khl.parent.get(c["i"])
        okc = False
        while par is not None and par["k"] != "IfStmt":
            par = khl.parent.get(par["i"])
        if par is not None:
            thn = kids(par)[1]
            okc = any(x["k"] == "ReturnStmt" and literal(kids(x)[0]) is False for x in walk(thn)) and render(kids(par)[0], False).startswith("(!")
        okiv &= okc
    R.ob("C22-R3", okiv, khl.q, "loop-header:isValid checked for outer and inner loops", "%s:%d" % (khl.relfile, khl.d["line"]), "%d isValid checks, each rejecting on failure" % len(iv))
    ctor = prog.fn(NS + "oklForStatement::oklForStatement")
    okc = False
    for n in ctor.walk():
        t = write_target(n)
        if t is not None and render(strip(t), False) == "this->valid":
            cs = {callee(x).split("::")[-1] for x in conj(kids(n)[1], []) if is_call(x)}
            if {"hasValidInit", "hasValidCheck", "hasValidUpdate"} <= cs:
                okc = True
    R.ob("C22-R3", okc, ctor.q, "loop-header:valid = init && check && update", "%s:%d" % (ctor.relfile, ctor.d["line"]), "the header verdict is the conjunction of the three header rules")
    # shared/exclusive accumulation and break/continue filter
    ks = prog.fn(NS + "kernelHasValidSharedAndExclusiveDeclarations")
    lams = [prog.funcs[n["lam"]] for n in ks.walk() if n["k"] == "LambdaExpr" and n["lam"] in prog.funcs]
    acc = set()
    for l in lams:
        for n in l.walk():
            if n["k"] == "CompoundAssignOperator" and n.get("op") == "&=":
                r = strip(kids(n)[1])
                if is_call(r):
                    acc.add(callee(r).split("::")[-1])
    rets = [n for n in ks.walk() if n["k"] == "ReturnStmt"]
    ok = {"hasProperSharedArrayDeclaration", "hasProperSharedOrExclusiveUsage"} <= acc and len(rets) == 1 and strip(kids(rets[0])[0])["k"] == "DeclRefExpr"
    R.ob("C22-R3", ok, ks.q, "accumulate:isValid &= rule(...)", "%s:%d" % (ks.relfile, ks.d["line"]), "both shared/exclusive rules are and-accumulated into the returned flag: %s" % sorted(acc))
    kb = prog.fn(NS + "kernelHasValidLoopBreakAndContinue")
    lams = [prog.funcs[n["lam"]] for n in kb.walk() if n["k"] == "LambdaExpr" and n["lam"] in prog.funcs]
    n_err = 0
    for l in lams:
        n_err += error_discipline(l, True, kb.q)
    rets = [n for n in kb.walk() if n["k"] == "ReturnStmt"]
    ok = n_err >= 2 and len(rets) == 1 and "isEmpty" in render(rets[0], False) and "filter" in render(rets[0], False)
    R.ob("C22-R3", ok, kb.q, "inventory:break/continue directly in an OKL loop", "%s:%d" % (kb.relfile, kb.d["line"]), "%d error reports in the filter; valid iff the filtered set is empty" % n_err)

    # ---- a constant-foldable iteration count is accepted only when it is positive ------------------------------------------------------
    oc = [f for f in prog.funcs.values() if f.q == "occa::lang::okl::oklForStatement::oklForStatement" and f.d.get("tmpl") != "inst"]
    reps = []
    for f in oc:
        for c in f.walk():
            if is_call(c) and callee(c).endswith("printError") and any(x["k"] == "StringLiteral" and "range is empty" in str(literal(x)) for x in walk(c)):
                reps.append((f, c))
    if len(reps) != 1:
        raise AnalysisBroken("oklForStatement: the empty-range report was not found (%d)" % len(reps))
    f, c = reps[0]
    g = [a_ for a_ in f.ancestors(c) if a_["k"] == "IfStmt" and any(write_target(x) is not None and noid(render(strip(write_target(x)), False)).endswith("valid") for x in walk(kids(a_)[1]))]
    ctext = noid(render(kids(g[0])[0], False)).replace(" ", "") if g else ""
    okc = ctext in ("(!(0<loop_range))", "(loop_range<=0)", "(loop_range<1)", "(!(loop_range>0))", "(0>=loop_range)", "(1>loop_range)", "(!(loop_range>=1))")
    R.ob("C22-R3", okc, f.q, "inventory:constant loop range must be positive", f.site(g[0]) if g else f.site(c),
         "rejected iff the folded iteration count is <= 0" if okc else
         "the rejecting test is `%s`: some non-positive constant iteration count is accepted - `for (int i = 0; i < 0; ++i; @inner)` passes every backend" % ctext)

    # ---- R5 ---------------------------------------------------------------------
    n_loops = 0
    for f in prog.funcs.values():
        if f.d.get("tmpl") == "inst" or not f.relfile.endswith("lang/modes/okl.cpp"):
            continue
        for lp in [n for n in f.walk() if n["k"] in ("ForStmt", "WhileStmt", "DoStmt", "CXXForRangeStmt") and not n.get("mac")]:
            n_loops += 1
            inside = {x["i"] for x in walk(lp)}
            declared_in = {x.get("d") for x in walk(lp) if x["k"] == "VarDecl"}
            for w in walk(lp):
                t = write_target(w)
                if t is None or w["k"] != "BinaryOperator" or w.get("op") != "=":
                    continue
                tv = strip(t)
                if tv["k"] != "DeclRefExpr" or not tv.get("loc") or tv.get("d") in declared_in or f.type(tv).replace("const ", "").strip() != "bool":
                    continue
                rhs = strip(kids(w)[1])
                if literal(rhs) in (True, False) or any(x["k"] == "DeclRefExpr" and x.get("d") == tv["d"] for x in walk(rhs)):
                    continue
                # `ok = check(item); if (!ok) break;` (or V in the loop condition) is an accumulation too: the loop ends at the first failure
                stops = any(x["k"] == "IfStmt" and any(y["k"] == "DeclRefExpr" and y.get("d") == tv["d"] for y in walk(kids(x)[0])) and
                            any(y["k"] in ("BreakStmt", "ReturnStmt") for y in walk(kids(x)[1])) for x in walk(lp)) or \
                    (lp["k"] in ("ForStmt", "WhileStmt", "DoStmt") and any(y["k"] == "DeclRefExpr" and y.get("d") == tv["d"]
                                                                           for c_ in kids(lp)[:-1] if c_ is not None and c_["k"] not in ("DeclStmt", "CompoundStmt") for y in walk(c_)))
                if stops:
                    continue
                used_after = any(x["k"] == "DeclRefExpr" and x.get("d") == tv["d"] and x["i"] not in inside and f.cfg.position(x) and f.cfg.position(w) and
                                 f.cfg.find_path(f.cfg.position(w), lambda b, i, e, x=x: e == x["i"], lambda b, i, e: False) is not None for x in f.walk())
                R.ob("C22-R5", not used_after, f.q, "verdict:`%s` assigned in a loop and read after it" % tv.get("n", "?"), f.site(w),
                     "per-item value only" if not used_after else
                     "the verdict is overwritten on every pass (`%s`): only the last item decides, an earlier item that breaks the rule is accepted - by every backend, since the validators are shared" % noid(render(w, False))[:80])
    R.ob("C22-R5", n_loops >= 5, NS + "*", "verdict:%d validator loops scanned" % n_loops, "src/occa/internal/lang/modes/okl.cpp", "loops of the shared validators", nontrivial=False)
    for f in prog.funcs.values():
        if f.d.get("tmpl") == "inst" or not f.relfile.endswith("lang/modes/okl.cpp"):
            continue
        for w in f.walk():
            if w["k"] == "CompoundAssignOperator" and w.get("op") in ("&=", "|=") and f.type(strip(kids(w)[0])).replace("const ", "").strip() == "bool":
                R.ob("C22-R5", True, f.q, "verdict:accumulated with %s" % w["op"], f.site(w), noid(render(w, False))[:80])

    # ---- R4 ---------------------------------------------------------------------
    for b in BACKENDS:
        cls = NS + b
        chain = [cls] + prog.bases(cls)
        ok = False
        for c in chain:
            for f in prog.methods_of(c):
                if f.d["kind"] == "ctor" and any(is_call(n) and callee(n) == NS + "addOklAttributes" for n in f.walk()):
                    ok = True
        R.ob("C22-R4", ok, cls, "ctor:addOklAttributes", "", "a constructor in %s registers the OKL attributes" % " / ".join(x.split("::")[-1] for x in chain if x.startswith(NS)))


META = {
    "technique": "must-pass-through and branch-fact dominance on each backend's final afterParsing overrider (virtual overriders resolved from class facts); who-may-write for okl/validate; call-graph inventory (exact counts; the per-path rules identified by the guard structure that encloses each error report) and return-after-error path check for the rule functions",
    "level": "Static all-paths decision, for all seven backend parsers including those compiled but not buildable into devices here (CUDA, HIP, OpenCL, Metal, DPC++), that no transform runs on a kernel that "
             "did not pass kernelsAreValid (gate default-on, success tested before every transform), that validation is disabled only for the launcher clone, that the validator is the conjunction "
             "of the rule functions over every kernel, that every error report in a rule function is followed by the rejecting return on every path, and that a verdict computed in a loop over several items is accumulated, not overwritten. The tests reject a handful of kernels on a few backends; "
             "this covers every backend and every error site.",
    "note": "Does not decide that the rule predicates themselves accept exactly the valid kernels (value-level over ASTs). Trusted: clang AST/CFG, extractor, class-hierarchy resolution of final overriders.",
}
