"""C02 - device memory behaves like an aliased byte array; misuse raises errors (structural clauses).

 R1  null discipline: every dereference of a memory handle's mode pointer in the user-facing operations is guarded on that same object
 R2  bounds/sign binding: every call that finally addresses bytes is dominated by  sign(offset), sign(bytes), bytes+offset <= size  guards bound to the very variables passed
 R4  the memory->memory byte mover tolerates overlap (slices alias): memmove, not memcpy
 R5  aliasing structure: slice forwards to the same buffer at offset+offset_, Serial slices point into the buffer; clone allocates a fresh buffer
 R6  Serial byte movers move exactly `bytes` between ptr+offset operands with the right roles
"""
from vlib.facts import noid, kids, strip, walk, is_call, call_args, call_object, callee, render, is_null_const
from vlib.work import AnalysisBroken

UNITS = ["src/core/memory.cpp", "src/occa/internal/core/memory.cpp", "src/occa/internal/modes/serial/memory.cpp",
         "src/occa/internal/modes/serial/buffer.cpp", "src/occa/internal/modes/serial/device.cpp", "src/core/device.cpp"]

FLD = "occa::memory::modeMemory"
OPS = ["slice", "operator+", "operator+=", "cast", "clone", "copyFrom", "copyTo", "setDtype", "unwrap"]
CMP = {"<", "<=", ">", ">=", "==", "!="}
NEG = {"<": ">=", "<=": ">", ">": "<=", ">=": "<", "==": "!=", "!=": "=="}
FLIP = {"<": ">", "<=": ">=", ">": "<", ">=": "<=", "==": "==", "!=": "!="}


import re as _re


def noid_(s):
    return _re.sub(r"#\d+", "", s)


def rel(cfg, key):
    """normalised relation (op, lhs, rhs) asserted by a branch fact, or None"""
    n = cfg.fact_node(key)
    pol = key[1]
    if n["k"] == "BinaryOperator" and n.get("op") in CMP:
        op = n["op"] if pol else NEG[n["op"]]
        return op, strip(kids(n)[0]), strip(kids(n)[1])
    return None


def const_of(n):
    n = strip(n)
    if n["k"] == "IntegerLiteral":
        return int(n["v"])
    if n["k"] == "UnaryOperator" and n.get("op") == "-" and strip(kids(n)[0])["k"] == "IntegerLiteral":
        return -int(strip(kids(n)[0])["v"])
    return None


def nonnull_objects(cfg, f, node, IN, prog):
    """render()s of memory objects X whose X.modeMemory is known non-null just before `node`"""
    out = set()
    for key in cfg.facts_at(node, IN):
        a = cfg.fact_node(key)
        pol = key[1]
        x = strip(a)
        if x["k"] == "MemberExpr" and x.get("n") == FLD and pol:
            out.add(render(kids(x)[0]) if kids(x) else "this")
        elif x["k"] == "BinaryOperator" and x.get("op") in ("!=", "=="):
            l, r = strip(kids(x)[0]), strip(kids(x)[1])
            for p, q in ((l, r), (r, l)):
                if p["k"] == "MemberExpr" and p.get("n") == FLD and is_null_const(q) and ((x["op"] == "!=") == pol):
                    out.add(render(kids(p)[0]) if kids(p) else "this")
        elif x["k"] == "CXXMemberCallExpr" and callee(x) == "occa::memory::isInitialized" and pol:
            o = call_object(x)
            out.add(render(o) if o is not None else "this")
    # dominating assertInitialized() on the same object
    for c in f.calls("occa::memory::assertInitialized"):
        if cfg.before(c, node):
            o = call_object(c)
            out.add(render(o) if o is not None else "this")
    return {("this" if s in ("this", "(*this)") else s) for s in out}


def root_var(f, d, defs):
    """user parameter a scaled local derives from:  v = k * p   or   v = k * (c ? .. : p)"""
    ds = defs.get(d, ())
    if len(ds) != 1 or ds[0]["k"] != "VarDecl" or not kids(ds[0]):
        return None
    e = strip(kids(ds[0])[0])
    if e["k"] != "BinaryOperator" or e.get("op") != "*":
        return None
    params = f.param_ids()
    for x in kids(e):
        x = strip(x)
        if x["k"] == "DeclRefExpr" and x.get("d") in params:
            return x["d"]
        if x["k"] == "ConditionalOperator":
            for arm in kids(x)[1:]:
                arm = strip(arm)
                if arm["k"] == "DeclRefExpr" and arm.get("d") in params:
                    return arm["d"]
    return None


def run(ctx):
    R = ctx.R
    prog = ctx.program(UNITS)
    R.explanation = (
        "Decides the structural clauses of C02 on every path of the user-facing memory operations: null discipline bound to the dereferenced object, "
        "sign and range guards bound by data flow to the variables actually passed to the byte movers, overlap-tolerant mover for aliased operands, "
        "and the aliasing structure of slice / clone. Does not decide equality of read values with a byte-array model (value-level).")
    R.assumptions += ["dtypeSize * count does not overflow dim_t", "OCCA_ERROR guards are compiled in (OCCA_UNSAFE 0, the pinned configuration)"]
    R.rule("C02-R1", "dereference of X.modeMemory in a user-facing memory operation is dominated by a non-null guard on the same object X", floor=20)
    R.rule("C02-R2", "byte-addressing call is dominated by sign guards on offset/bytes and by bytes+offset <= size of the addressed object, bound to the passed variables", floor=20)
    R.rule("C02-R7", "an element offset/count is scaled to bytes by the dtype size of the memory object it addresses", floor=10)
    R.rule("C02-R4", "memory-to-memory byte mover (operands may alias through slices) is overlap tolerant", floor=1)
    R.rule("C02-R5", "slices alias their parent's buffer; clones allocate a fresh buffer", floor=5)
    R.rule("C02-R6", "Serial byte movers move exactly `bytes` between ptr+offset operands with the right roles", floor=6)

    # ---- R1 ---------------------------------------------------------------------
    targets = [f for f in prog.methods_of("occa::memory") if f.q.split("::")[-1] in OPS]
    if len(targets) < 14:
        raise AnalysisBroken("memory operations vanished: %d found" % len(targets))
    for f in targets:
        cfg = f.cfg
        IN = cfg.facts_in()
        for n in f.walk():
            if n["k"] != "MemberExpr" or not n.get("arrow") or not kids(n):
                continue
            b = strip(kids(n)[0])
            if b["k"] != "MemberExpr" or b.get("n") != FLD:
                continue
            obj = render(kids(b)[0]) if kids(b) else "this"
            if obj == "(*this)":
                obj = "this"
            known = nonnull_objects(cfg, f, n, IN, prog)
            ok = obj in known
            R.ob("C02-R1", ok, "%s %s" % (f.q, f.d["sig"]), "deref:%s.modeMemory->%s" % (render(kids(b)[0], False) if kids(b) else "this", n.get("n", "").split("::")[-1]),
                 f.site(n), "guarded: non-null known for {%s}" % ", ".join(sorted(x.split("#")[0] for x in known)) if ok else
                 "dereferences the mode pointer of %s, which no guard on that object dominates (uninitialised handle => null dereference instead of occa::exception)" % obj.split("#")[0])

    # ---- R2 ---------------------------------------------------------------------
    # (callee, [(offset arg index, 'recv' | arg index of the addressed memory)], bytes arg index)
    MOVERS = {
        "occa::modeMemory_t::copyFrom": None, "occa::modeMemory_t::copyTo": None, "occa::modeMemory_t::slice": None,
    }
    n_calls = 0
    for f in targets:
        cfg = f.cfg
        IN = cfg.facts_in()
        defs = f.local_defs()
        params = f.param_ids()
        for c in f.walk():
            if c["k"] != "CXXMemberCallExpr" or callee(c) not in MOVERS:
                continue
            a = call_args(c)
            recv = call_object(c)
            name = callee(c).split("::")[-1]
            if name == "slice":
                roles = [(a[0], recv)]
                bytes_arg = a[1]
            elif name == "copyTo":
                roles = [(a[2], recv)]
                bytes_arg = a[1]
            else:
                first_t = f.type(strip(a[0], explicit=False))
                if "modeMemory_t" in first_t and len(a) >= 4:
                    roles = [(a[2], recv), (a[3], a[0])]
                else:
                    roles = [(a[2], recv)]
                bytes_arg = a[1]
            n_calls += 1
            facts = cfg.facts_at(c, IN)
            rels = [r for r in (rel(cfg, k) for k in facts) if r]
            fname = "%s %s" % (f.q, f.d["sig"])

            def var_ids(e):
                e = strip(e)
                if e["k"] == "DeclRefExpr":
                    ids = {e["d"]}
                    r = root_var(f, e["d"], defs)
                    if r is not None:
                        ids.add(r)
                    return ids
                return set()

            def sign_ok(e, allowed):
                ids = var_ids(e)
                for op, l, r in rels:
                    for (x, y, o) in ((l, r, op), (r, l, FLIP[op])):
                        if x["k"] == "DeclRefExpr" and x.get("d") in ids:
                            cst = const_of(y)
                            if cst is None:
                                continue
                            if (o == ">=" and cst in allowed) or (o == ">" and cst + 1 in allowed) or (o == "==" and cst >= 0):
                                return True
                return False

            bv = strip(bytes_arg)
            if bv["k"] == "DeclRefExpr" and "unsigned" not in f.type(bv) and not f.type(bv).startswith("const udim_t") and not f.type(bv).startswith("udim_t") and not f.type(bv).startswith("occa::udim_t"):
                ok = sign_ok(bytes_arg, (0, -1) if name != "slice" else (0,))
                R.ob("C02-R2", ok, fname, "sign:bytes(%s) before %s" % (render(bytes_arg, False), name), f.site(c),
                     "negative byte count is rejected" if ok else "no guard rejects a negative byte count before it reaches the byte mover")
            def scale_of(e):
                """(rendered scale factor object, param) for  v = K * p  with K resolved through a local"""
                e = strip(e)
                if e["k"] != "DeclRefExpr":
                    return None
                ds = defs.get(e["d"], ())
                if len(ds) != 1 or ds[0]["k"] != "VarDecl" or not kids(ds[0]):
                    return None
                m = strip(kids(ds[0])[0])
                if m["k"] != "BinaryOperator" or m.get("op") != "*":
                    return None
                for K in kids(m):
                    K = strip(K)
                    hops = 0
                    while K["k"] == "DeclRefExpr" and K.get("loc") and hops < 3:
                        kd = defs.get(K["d"], ())
                        if len(kd) == 1 and kd[0]["k"] == "VarDecl" and kids(kd[0]):
                            K = strip(kids(kd[0])[0])
                            hops += 1
                        else:
                            break
                    txt = render(K)
                    if txt.endswith("->dtype_->bytes()"):
                        return txt[:-len("->dtype_->bytes()")]
                return None
            for (oarg, mem) in roles + [(bytes_arg, recv if name != "copyFrom" or len(roles) < 2 else None)]:
                if mem is None:
                    # memory->memory copy: the count is in elements of *this
                    mem_txt = "this->modeMemory"
                else:
                    mem_txt = render(mem)
                sc = scale_of(oarg)
                if sc is None:
                    continue
                ok7 = sc == mem_txt or (oarg is bytes_arg and sc == "this->modeMemory")
                R.ob("C02-R7", ok7, fname, "scale:%s by dtype of %s" % (render(oarg, False), noid_(mem_txt)), f.site(c),
                     "element units are converted to bytes with the dtype size of the memory they address" if ok7 else
                     "%s is scaled by the dtype size of %s but addresses %s: with different element sizes the bytes land at the wrong offset and the range check guards the wrong range" % (render(oarg, False), noid_(sc), noid_(mem_txt)))
            for (oarg, mem) in roles:
                ov = strip(oarg)
                if const_of(ov) is not None and const_of(ov) >= 0:
                    continue
                ok = sign_ok(oarg, (0,))
                R.ob("C02-R2", ok, fname, "sign:offset(%s) before %s" % (render(oarg, False), name), f.site(c),
                     "negative offset is rejected" if ok else
                     "no guard rejects a negative offset: a negative offset into a slice reaches back into the parent's bytes")
                # range: bytes + offset <= size(mem)
                msz = render(mem) + "->size"
                oids, bids = var_ids(oarg), var_ids(bytes_arg)
                okr = False
                for op, l, r in rels:
                    for (x, y, o) in ((l, r, op), (r, l, FLIP[op])):
                        if o not in ("<=", "<"):
                            continue
                        if x["k"] != "BinaryOperator" or x.get("op") != "+":
                            continue
                        p, q = strip(kids(x)[0]), strip(kids(x)[1])
                        pi = {p.get("d")} if p["k"] == "DeclRefExpr" else set()
                        qi = {q.get("d")} if q["k"] == "DeclRefExpr" else set()
                        if not ((pi & oids and qi & bids) or (pi & bids and qi & oids)):
                            continue
                        ry = render(y)
                        scaled = (pi | qi) <= ({strip(oarg).get("d"), strip(bytes_arg).get("d")})
                        if ry == msz and scaled:
                            okr = True
                        # element-unit form on the unscaled parameters against this object's element count
                        if not scaled and y["k"] == "CXXMemberCallExpr" and callee(y) in ("occa::memory::size", "occa::memory::length") and (call_object(y) is None or render(call_object(y)) == "this") and render(mem).startswith("this"):
                            okr = True
                R.ob("C02-R2", okr, fname, "range:%s+%s<=%s->size before %s" % (render(bytes_arg, False), render(oarg, False), render(mem, False), name), f.site(c),
                     "range guard bound to the passed offset/bytes and to the addressed object's size" if okr else
                     "no dominating guard bounds bytes+offset by the size of the memory object that is addressed at this offset")
    if n_calls < 5:
        raise AnalysisBroken("only %d byte-addressing calls found in memory operations" % n_calls)
    # allocation sign guards
    for q in ("occa::device::malloc", "occa::device::wrapMemory"):
        for f in prog.fns(q):
            cfg = f.cfg
            for c in f.walk():
                if c["k"] == "CXXMemberCallExpr" and callee(c) in ("occa::modeDevice_t::malloc", "occa::modeDevice_t::wrapMemory"):
                    a = call_args(c)
                    bidx = 0 if callee(c).endswith("malloc") else 1
                    bv = strip(a[bidx])
                    facts = cfg.facts_at(c)
                    ok = False
                    for k in facts:
                        r = rel(cfg, k)
                        if r and r[1]["k"] == "DeclRefExpr" and r[1].get("d") == bv.get("d") and r[0] == ">=" and const_of(r[2]) == 0:
                            ok = True
                    R.ob("C02-R2", ok, "%s %s" % (f.q, f.d["sig"]), "sign:bytes(%s) before %s" % (render(a[bidx], False), callee(c).split("::")[-1]), f.site(c),
                         "negative allocation size is rejected" if ok else "negative size reaches the backend allocator")

    # ---- R4 / R6: Serial byte movers ---------------------------------------------------
    MOVE = {"memcpy", "memmove", "std::memcpy", "std::memmove"}
    movers = [f for f in prog.methods_of("occa::serial::memory") if f.q.split("::")[-1] in ("copyFrom", "copyTo")]
    if len(movers) != 3:
        raise AnalysisBroken("serial::memory byte movers: expected 3, found %d" % len(movers))
    for f in movers:
        fname = "%s %s" % (f.q, f.d["sig"])
        ps = f.d["params"]
        byname = {p["n"]: p["d"] for p in ps}
        calls = [c for c in f.walk() if is_call(c) and callee(c) in MOVE]
        R.ob("C02-R6", len(calls) == 1, fname, "mover:one-call", "%s:%d" % (f.relfile, f.d["line"]), "%d memcpy/memmove call(s)" % len(calls))
        if len(calls) != 1:
            continue
        c = calls[0]
        a = call_args(c)
        defs = f.local_defs()
        mem2mem = "modeMemory_t" in f.tname(ps[0]["t"])
        if mem2mem:
            ok = callee(c).endswith("memmove")
            R.ob("C02-R4", ok, fname, "mover:%s" % callee(c), f.site(c),
                 "overlap-tolerant mover" if ok else "source and destination may be overlapping slices of one buffer; memcpy on overlapping ranges is undefined behaviour")

        def expand(e, depth=0):
            e = strip(e)
            if e["k"] == "DeclRefExpr" and e.get("loc") and depth < 4:
                ds = defs.get(e["d"], ())
                if len(ds) == 1 and ds[0]["k"] == "VarDecl" and kids(ds[0]):
                    return expand(kids(ds[0])[0], depth + 1)
            return e
        sz = strip(a[2])
        R.ob("C02-R6", sz["k"] == "DeclRefExpr" and sz.get("d") == ps[1]["d"], fname, "mover:size=bytes", f.site(c), "size argument is %s" % render(a[2], False))
        dst, src = expand(a[0]), expand(a[1])

        def shape(e):
            """('ptr-of', who, offset-param) for  who->ptr + param"""
            if e["k"] == "BinaryOperator" and e.get("op") == "+":
                l, r = strip(kids(e)[0]), strip(kids(e)[1])
                if l["k"] == "MemberExpr" and l.get("n", "").endswith("::ptr") and r["k"] == "DeclRefExpr":
                    who = render(kids(l)[0], False) if kids(l) else "this"
                    return (who, r.get("d"))
            if e["k"] == "DeclRefExpr":
                return ("param", e.get("d"))
            return (render(e, False), None)
        name = f.q.split("::")[-1]
        if name == "copyTo":
            want_dst, want_src = ("param", ps[0]["d"]), ("this", ps[2]["d"])
        elif mem2mem:
            want_dst, want_src = ("this", ps[2]["d"]), (ps[0]["n"], ps[3]["d"])
        else:
            want_dst, want_src = ("this", ps[2]["d"]), ("param", ps[0]["d"])
        # every call of the mover moves: the only early exit is "nothing to move"
        early = []
        for r in [x for x in f.walk() if x["k"] == "ReturnStmt"]:
            if f.cfg.before(c, r):
                continue
            facts = [(noid(k).replace(" ", ""), pol) for (k, pol) in f.cfg.facts_at(r)]
            nothing = any((k in ("(bytes==0)", "(0==bytes)", "(!bytes)") and pol) or (k in ("bytes", "(bytes!=0)", "(bytes>0)") and not pol) for (k, pol) in facts)
            if mem2mem and len(ps) >= 4:
                o1, o2 = ps[2]["n"], ps[3]["n"]
                # copying a range onto itself: same object and equal offsets
                nothing = nothing or (any(k in ("(%s==%s)" % (o1, o2), "(%s==%s)" % (o2, o1)) and pol for (k, pol) in facts)
                                      and any("this" in k and "==" in k and pol for (k, pol) in facts))
            if not nothing:
                early.append(r)
        fall = f.cfg.find_path((f.cfg.entry, 0), "exit", lambda b, i, e: e == c["i"] or any(e == r["i"] for r in f.walk() if r["k"] == "ReturnStmt"), start_after=False)
        okm = not early and fall is None
        R.ob("C02-R6", okm, fname, "mover:every call moves (early exit only for bytes == 0)", f.site(early[0]) if early else f.site(c),
             "no path skips the move" if okm else
             "a path returns without moving anything although bytes > 0 (%s): the copy is silently dropped - m.copyFrom(m, 4, 0, 4) leaves the destination range unchanged" %
             next((noid(render(kids(a_)[0], False))[:60] for a_ in (f.ancestors(early[0]) if early else []) if a_["k"] == "IfStmt"), "early return"))
        R.ob("C02-R6", shape(dst) == want_dst, fname, "mover:dest", f.site(c), "destination operand is %s" % render(dst, False))
        R.ob("C02-R6", shape(src) == want_src, fname, "mover:src", f.site(c), "source operand is %s" % render(src, False))

    # ---- R5: aliasing structure -----------------------------------------------------------
    sl = prog.fn("occa::modeMemory_t::slice")
    cs = [c for c in sl.walk() if c["k"] == "CXXMemberCallExpr" and callee(c).endswith("modeBuffer_t::slice")]
    ok = False
    if len(cs) == 1:
        a = call_args(cs[0])
        o = strip(a[0])
        recv = strip(call_object(cs[0]))
        ok = (recv["k"] == "MemberExpr" and recv.get("n") == "occa::modeMemory_t::modeBuffer" and o["k"] == "BinaryOperator" and o.get("op") == "+" and
              {render(strip(x), False) for x in kids(o)} == {"this->offset", sl.d["params"][0]["n"]} and strip(a[1]).get("d") == sl.d["params"][1]["d"])
    R.ob("C02-R5", ok, sl.q, "slice:same-buffer at offset+offset_", "%s:%d" % (sl.relfile, sl.d["line"]), "modeMemory_t::slice forwards to its own buffer at the absolute offset with the requested size")
    facts = sl.cfg.facts_at(cs[0]) if cs else set()
    okg = any("modeBuffer" in k[0] and ((k[1] and "==" not in k[0]) or ((not k[1]) and "== NULL" in k[0])) for k in facts) and any((r := rel(sl.cfg, k)) and r[0] == ">=" and const_of(r[2]) == 0 for k in facts)
    R.ob("C02-R5", okg, sl.q, "slice:guards", "%s:%d" % (sl.relfile, sl.d["line"]), "buffer non-null and absolute offset >= 0 guards dominate the forward")
    bs = prog.fn("occa::serial::buffer::slice")
    news = [n for n in bs.walk() if n["k"] == "CXXNewExpr"]
    ok = False
    for n in news:
        for c in walk(n):
            if c["k"] == "CXXConstructExpr" and callee(c) == "occa::serial::memory::memory":
                a = kids(c)
                ok = (strip(a[0])["k"] == "CXXThisExpr" and strip(a[1]).get("d") == bs.d["params"][1]["d"] and strip(a[2]).get("d") == bs.d["params"][0]["d"])
    R.ob("C02-R5", ok, bs.q, "slice:new memory(this, bytes, offset)", "%s:%d" % (bs.relfile, bs.d["line"]), "a Serial slice is a view (this buffer, requested size, requested offset)")
    for f in prog.fns("occa::serial::memory::memory"):
        p0 = f.d["params"][0]
        ok = False
        for n in f.walk():
            from vlib.cfg import write_target
            t = write_target(n)
            if t is not None and render(strip(t), False) == "this->ptr":
                rhs = strip(kids(n)[1])
                if rhs["k"] == "BinaryOperator" and rhs.get("op") == "+":
                    l, r = render(strip(kids(rhs)[0]), False), render(strip(kids(rhs)[1]), False)
                    ok = l.startswith(p0["n"] + "->") and l.endswith("ptr") and r == "this->offset"
        R.ob("C02-R5", ok, "%s %s" % (f.q, f.d["sig"]), "view:ptr = buffer ptr + offset", "%s:%d" % (f.relfile, f.d["line"]), "the view's pointer is the parent's pointer plus the view's offset (no copy)")
    cl = prog.fn("occa::memory::clone")
    ok = any(is_call(c) and callee(c) == "occa::device::malloc" for c in cl.walk()) and not any(is_call(c) and callee(c).endswith("::slice") for c in cl.walk())
    R.ob("C02-R5", ok, cl.q, "clone:fresh allocation", "%s:%d" % (cl.relfile, cl.d["line"]), "clone goes through device::malloc (new buffer), never through slice")
    # ... of exactly the source's byte size: a length in entries loses the tail of a memory whose byte size is no multiple of its dtype
    mcs = [c for c in cl.walk() if is_call(c) and callee(c) == "occa::device::malloc"]
    okb = False
    for c in mcs:
        a = call_args(c)
        size_txt = noid(render(a[0], False)) if a else ""
        in_bytes = any((is_call(x) and (callee(x) or "").endswith("memory::byte_size")) or (x["k"] == "MemberExpr" and x.get("n", "").endswith("modeMemory_t::size")) for x in walk(a[0])) if a else False
        in_entries = any(is_call(x) and (callee(x) or "").split("::")[-1] in ("length", "size") and (callee(x) or "").startswith("occa::memory::") for x in walk(a[0])) if a else False
        typed = len(a) > 1 and "dtype_t" in cl.type(strip(a[1])) and "dtype::byte" not in render(a[1], False)
        okb = okb or (in_bytes and not in_entries and not typed)
    R.ob("C02-R5", okb, cl.q, "clone:allocates the source's size in bytes", cl.site(mcs[0]) if mcs else "%s:%d" % (cl.relfile, cl.d["line"]),
         "device.malloc(byte_size(), *this, ...) as bytes" if okb else
         "the clone is sized in whole entries of the dtype (%s): for a memory whose byte size is no multiple of its dtype size (10 bytes cast to float) the clone is shorter than the original - its last bytes are lost and an in-range read of the clone raises" % (size_txt[:40] if mcs else "?"))
    sm = prog.fn("occa::serial::device::malloc")
    ok = any(n["k"] == "CXXNewExpr" and "serial::buffer" in sm.tname(n.get("nt")) for n in sm.walk())
    R.ob("C02-R5", ok, sm.q, "malloc:new buffer", "%s:%d" % (sm.relfile, sm.d["line"]), "Serial malloc creates its own buffer object")


META = {
    "technique": "guard-dominance (branch-fact dataflow on the CFG) with data-flow binding of guards to the dereferenced object / the variables passed to the byte movers; call-shape facts for aliasing",
    "level": "Static all-paths decision of the structural clauses of C02: in slice, operator+/+=, cast, clone, copyFrom x4, copyTo x4, setDtype, unwrap every dereference of a handle's mode "
             "pointer is dominated by a non-null guard on that very object; every call that addresses bytes (modeMemory_t::copyFrom/copyTo/slice) is dominated by sign guards on offset and "
             "byte count and by bytes+offset<=size of the object addressed at that offset, the guards being bound by data flow to the passed variables; the memory-to-memory mover is overlap "
             "tolerant; slices are views into the parent buffer and clones are fresh allocations; Serial movers copy exactly `bytes` between ptr+offset operands on every call (an early exit only for bytes == 0 or the identical range). Each is a necessary "
             "condition of the byte-array behaviour with a concrete failing request when broken; all requests are covered because guards are checked on every path.",
    "note": "Does not decide that read values equal a byte-array model (value-level), nor dim_t overflow of dtypeSize*count. Trusted: clang AST/CFG, the extractor, the branch-fact engine "
            "(facts killed by direct writes only), OCCA_ERROR guards compiled in (OCCA_UNSAFE=0).",
}
