"""C09 - concurrent builds of the same kernel all succeed and agree (mechanisms present on all paths).

 S*  the atomic-publication rules of C08 (a concurrent reader can never observe a half-written cache file)
 R1  a lost rename race is benign: moveStagedTempFile accepts failure when the target exists; missing temp file is a no-op
 R2  directory creation tolerates a concurrent creator: the result of mkdir is never turned into an error
 R3  temp names are unique per process: hash_t::random() draws on the clock and std::random_device
 R4  a failed build only removes its own cache directory when nothing was produced (rmrf guarded by !isInitialized)
"""
from vlib.facts import kids, strip, walk, is_call, call_args, call_object, callee, render, literal, noid
from vlib.work import AnalysisBroken
from rules import c08

UNITS = c08.UNITS + ["src/utils/hash.cpp"]


class Proxy:
    """re-files the shared C08 obligations under C09 rule ids"""
    def __init__(self, R):
        self.R = R
        self.analysed = R.analysed
        self.assumptions = []
        self.explanation = ""

    def rule(self, rid, desc, floor=1):
        self.R.rule(rid.replace("C08-", "C09-S"), "(shared with C08) " + desc, floor)

    def ob(self, rule, *a, **k):
        return self.R.ob(rule.replace("C08-", "C09-S"), *a, **k)


class ProxyCtx:
    def __init__(self, ctx):
        self.ctx = ctx
        self.R = Proxy(ctx.R)
        self.tier = ctx.tier

    def program(self, units, *a, **k):
        return self.ctx.program(UNITS, *a, **k)


def run(ctx):
    R = ctx.R
    c08.run(ProxyCtx(ctx))
    prog = ctx.program(UNITS)
    R.explanation = ("Decides that the three mechanisms concurrent builders rely on are present on all paths: atomic publication (shared with C08), benign rename races / tolerant directory creation, and per-process unique temp names. "
                     "The schedule-level statement (every process succeeds, later builds do not recompile) is not decided: interleavings are not enumerated by a static rule.")
    R.assumptions += ["rename(2) within one directory is atomic; processes share a POSIX file system"]
    R.rule("C09-R1", "losing the publication race is not an error", floor=3)
    R.rule("C09-R2", "concurrent directory creation is tolerated", floor=3)
    R.rule("C09-R3", "temp names are unique across processes", floor=2)
    R.rule("C09-R4", "cache directory removed only after a failed build of this process", floor=1)

    mv = prog.fn("occa::io::moveStagedTempFile")
    cfg = mv.cfg
    IN = cfg.facts_in()
    ren = [n for n in mv.walk() if is_call(n) and callee(n) in ("rename", "std::rename")]
    if len(ren) != 1:
        raise AnalysisBroken("moveStagedTempFile: rename call not found")
    # the guard after rename: (status == 0) || isFile(expFilename)
    errs = [c for c in mv.walk() if is_call(c) and callee(c) == "occa::error"]
    ok = False
    for c in errs:
        fs = {(noid(k), pol) for (k, pol) in cfg.facts_at(c, IN)}
        # the error is reached only when the rename failed AND the target does not exist
        if any((not pol) and "== 0" in k for (k, pol) in fs) and any((not pol) and k.endswith("isFile(expFilename)") for (k, pol) in fs):
            ok = True
    R.ob("C09-R1", ok, mv.q, "guard:status == 0 || isFile(target)", mv.site(ren[0]), "a failed rename is an error only if the target does not exist (another builder already published it)" if ok else
         "a rename that fails because another process already published the file raises")
    first = None
    for n in mv.walk():
        if n["k"] == "IfStmt" and not n.get("mac"):
            first = n
            break
    ok = first is not None and "isFile(tempFilename)" in noid(render(kids(first)[0], False)) and any(x["k"] == "ReturnStmt" for x in walk(kids(first)[1])) and cfg.before(first, ren[0])
    R.ob("C09-R1", ok, mv.q, "no temp file -> nothing to publish", mv.site(first) if first else mv.relfile, "a callback that produced no file is not an error")
    sf = prog.fn("occa::io::stageFiles")
    calls = [c for c in sf.walk() if is_call(c) and callee(c) == "occa::sys::mkpath"]
    ok = bool(calls) and all("dirname" in render(call_args(c)[0], False) for c in calls)
    R.ob("C09-R1", ok, sf.q, "target directory ensured per file", sf.site(calls[0]) if calls else sf.relfile, "each staged file's directory is created before the temp name is used")

    # ---- R2 --------------------------------------------------------------------------
    n_mk = 0
    for f in prog.funcs.values():
        if f.d.get("tmpl") == "inst":
            continue
        for c in f.walk():
            if is_call(c) and callee(c) in ("occa::sys::mkdir", "mkdir", "occa::sys::mkpath"):
                par = f.parent.get(c["i"])
                while par is not None and par["k"] in ("ImplicitCastExpr",):
                    par = f.parent.get(par["i"])
                used = par is not None and par["k"] not in ("CompoundStmt", "ForStmt", "IfStmt", "WhileStmt", "ReturnStmt")
                if par is not None and par["k"] == "ReturnStmt" and f.q == "occa::sys::mkdir":
                    used = False   # the thin wrapper forwards the status to callers, which are checked here too
                n_mk += 1
                R.ob("C09-R2", not used, f.q, "mkdir result ignored: %s" % render(c, False)[:50], f.site(c),
                     "creation failure (e.g. EEXIST when another process created it first) is not an error" if not used else
                     "the result of mkdir is consumed: a concurrent creator (EEXIST) may be reported as a failure")
    if n_mk < 3:
        raise AnalysisBroken("mkdir/mkpath call sites: %d" % n_mk)
    mp = prog.fn("occa::sys::mkpath")
    ok = not any(is_call(c) and callee(c) == "occa::error" for c in mp.walk())
    R.ob("C09-R2", ok, mp.q, "mkpath never raises", "%s:%d" % (mp.relfile, mp.d["line"]), "no error path in mkpath")

    # ---- R3 --------------------------------------------------------------------------
    rnd = prog.fn("occa::hash_t::random")
    txt = render(rnd.body, False)
    has_rd = any(n["k"] == "VarDecl" and "random_device" in rnd.tname(n.get("t")) for n in rnd.walk()) and any(n["k"] == "CXXOperatorCallExpr" and n.get("op") == "()" and "rd" in render(n, False) for n in rnd.walk())
    R.ob("C09-R3", has_rd, rnd.q, "entropy:std::random_device", "%s:%d" % (rnd.relfile, rnd.d["line"]), "per-call entropy source")
    has_time = any(is_call(c) and callee(c) in ("time", "std::time") for c in rnd.walk())
    R.ob("C09-R3", has_time, rnd.q, "entropy:time", "%s:%d" % (rnd.relfile, rnd.d["line"]), "clock component")
    rets = [n for n in rnd.walk() if n["k"] == "ReturnStmt"]
    ok = len(rets) == 1 and "rd" in render(rets[0], False)
    R.ob("C09-R3", ok, rnd.q, "result depends on the random draw", "%s:%d" % (rnd.relfile, rnd.d["line"]), "the returned hash mixes the random_device value")

    # ---- R4 --------------------------------------------------------------------------
    bk = prog.fn("occa::device::buildKernel")
    cfg = bk.cfg
    rm = [c for c in bk.walk() if is_call(c) and callee(c) == "occa::sys::rmrf"]
    for c in rm:
        fs = {(noid(k), pol) for (k, pol) in cfg.facts_at(c)}
        ok = ("cachedKernel.isInitialized()", False) in fs
        R.ob("C09-R4", ok, bk.q, "rmrf only when the build produced nothing", bk.site(c), "the cache directory is removed only on this process's failed build")
    if not rm:
        R.ob("C09-R4", True, bk.q, "no rmrf", bk.relfile, "the build never removes cache directories", nontrivial=False)


META = {
    "technique": "the C08 who-may-write / name-flow rules re-filed, plus guard-shape and result-usage facts (rename failure tolerated when the target exists, mkdir results unused, entropy sources of temp names)",
    "level": "Static decision that the mechanisms concurrent builders depend on hold on all paths: cache files appear only by atomic rename of per-process temp files (C08 rules), a builder that loses the rename race or finds "
             "the directory already created does not fail, temp names draw on std::random_device, and a process deletes a cache directory only after its own failed build. This is a 'mechanism present' claim.",
    "note": "The schedule-level statement (every process obtains correct code for every interleaving; later builds never recompile) is NOT decided: interleavings are not enumerated by a static rule, and no model checker is used in this family.",
}
