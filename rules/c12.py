"""C12 - the tokenizer never crashes and re-reads its own token spellings (structural clauses).

 R1  typestate "current character known non-NUL": every advance of the tokenizer cursor (++fp.start, fp.start += k) happens in a state where the
     characters stepped over are known not to be the terminating NUL (no overrun for any input)
 R2  no function returning std::string returns a null pointer constant (std::string(nullptr) throws std::logic_error, not occa::exception)
 R3  escape symmetry: whether escape() emits the escape character depends only on the character, never on its position
 R4  printers and the tokenizer agree on the delimiter handed to escape() / unescape(); operators are consumed by longest-match length
"""
from vlib.facts import decl_of, kids, strip, walk, is_call, call_args, call_object, callee, render, literal, noid, is_null_const
from vlib.cfg import write_target
from vlib.work import AnalysisBroken

UNITS = ["src/occa/internal/lang/tokenizer.cpp", "src/occa/internal/utils/string.cpp", "src/occa/internal/lang/token/stringToken.cpp",
         "src/occa/internal/lang/token/charToken.cpp", "src/occa/internal/utils/lex.cpp", "src/occa/internal/lang/expr/stringNode.cpp",
         "src/occa/internal/lang/expr/charNode.cpp"]
TK = "occa::lang::tokenizer_t::"
PEEKS = {TK + x for x in ("peek", "shallowPeek", "peekForIdentifier", "peekForOperator", "peekForHeader", "loadingQuotedHeader", "loadingAngleBracketHeader")}
# advances whose safety rests on an idiom the typestate does not model; each is checked structurally below and named here
EXCEPTIONS = {
    (TK + "getRawString", "chars"): "the `chars` characters stepped over were just compared equal to the non-NUL end pattern `)delim\"` (loop exits only with mi == chars or at NUL, and NUL returns)",
    (TK + "getToken", "unknown-token"): "finishedSource protocol: at this point the source was not finished, i.e. *fp.start != NUL was observed and the cursor has not moved since",
}


def is_cursor(n):
    """expression  this->fp.start"""
    n = strip(n)
    return n is not None and n["k"] == "MemberExpr" and n.get("n", "").endswith("filePosition::start") and kids(n) and strip(kids(n)[0])["k"] == "MemberExpr" and strip(kids(n)[0]).get("n") == "occa::lang::tokenizer_t::fp"


def is_cur_char(n):
    """*fp.start  or  fp.start[0]"""
    n = strip(n)
    if n is None:
        return False
    if n["k"] == "UnaryOperator" and n.get("op") == "*" and is_cursor(kids(n)[0]):
        return True
    if n["k"] == "ArraySubscriptExpr" and is_cursor(kids(n)[0]) and literal(kids(n)[1]) == 0:
        return True
    return False


def is_next_char(n):
    """fp.start[1]"""
    n = strip(n)
    return n is not None and n["k"] == "ArraySubscriptExpr" and is_cursor(kids(n)[0]) and literal(kids(n)[1]) == 1


class State:
    __slots__ = ("K", "P", "S")

    def __init__(self, K=False, P=frozenset(), S=frozenset()):
        self.K, self.P, self.S = K, P, S

    def key(self):
        return (self.K, self.P, self.S)


def meet(a, b):
    if a is None:
        return b
    if b is None:
        return a
    return State(a.K and b.K, a.P & b.P, a.S & b.S)


def run(ctx):
    R = ctx.R
    prog = ctx.program(UNITS)
    R.explanation = ("Decides a cursor typestate over every method of tokenizer_t: an advance is allowed only where branch conditions on every path have shown the character(s) stepped over to be non-NUL "
                     "(direct tests, charset membership, a successful peek()/trie match with the cursor unmoved since), so no input can drive the scanner past the terminator; plus null-return, escape-symmetry and "
                     "delimiter-agreement facts. Does not decide the full print/re-tokenise identity.")
    R.assumptions += ["sources are NUL-terminated buffers (file_t / string sources)", "operator spellings and charsets contain no NUL (C string literals)"]
    R.rule("C12-R1", "cursor advance only in a state where the stepped-over characters are known non-NUL", floor=18)
    R.rule("C12-R2", "functions returning std::string never return a null pointer constant", floor=20)
    R.rule("C12-R3", "escape(): emitting the escape character depends only on the current character", floor=2)
    R.rule("C12-R5", "the scanner does not recurse on its input (literal scanner, tokenizer and lex helpers form no call cycle)", floor=30)
    R.rule("C12-R6", "a line start recorded inside a scanning loop is computed from the pointer that loop advances", floor=8)
    R.rule("C12-R7", "every operator spelling the printer can emit is known to the tokenizer (registered in getOperators)", floor=45)
    R.rule("C12-R9", "a block comment is scanned from behind its opener to the first `*/`, with no escape character", floor=2)
    R.rule("C12-R10", "a literal is not split off an identifier: the character behind it is tested against every identifier character when the literal is spelled like one", floor=1)
    R.rule("C12-R11", "literal suffix loop: a branch that has consumed characters goes round again (exponent, f, l, u may follow each other in any order)", floor=2)
    R.rule("C12-R12", "an identifier is taken for a word operator (sizeof, new, delete, ...) only when the whole identifier is that word", floor=1)
    R.rule("C12-R4", "escape/unescape delimiters agree between printers and tokenizer; operator consumed by match length", floor=6)

    methods = [f for f in prog.methods_of("occa::lang::tokenizer_t")]
    if len(methods) < 40:
        raise AnalysisBroken("tokenizer_t methods: %d" % len(methods))
    byq = {}
    for f in methods:
        byq.setdefault(f.q, []).append(f)

    # ---- mover summary: may a call to the method change the cursor? ------------------------------
    def direct_moves(f):
        """list of (node, condition-param-or-None) writes to fp / origin"""
        out = []
        for n in f.walk():
            t = write_target(n)
            if t is not None:
                s = noid(render(strip(t), False))
                if s in ("this->fp", "this->fp.start", "this->origin") or s.startswith("this->origin.position"):
                    out.append(n)
            if n["k"] == "CXXMemberCallExpr" and call_object(n) is not None and noid(render(call_object(n), False)) == "this->origin" and not n.get("cconst"):
                out.append(n)
        return out
    mover = {}          # q -> 'always' | ('param', index, value) | None
    for q, fs in byq.items():
        f = fs[0]
        dm = direct_moves(f)
        if not dm:
            continue
        # conditional on a bool parameter?
        cond = None
        cfg = f.cfg
        IN = cfg.facts_in()
        pids = {p["d"]: i for i, p in enumerate(f.d["params"])}
        allc = True
        for n in dm:
            fs_ = cfg.facts_at(n, IN)
            got = None
            for (k, pol) in fs_:
                a = cfg.fact_node((k, pol))
                if a["k"] == "DeclRefExpr" and a.get("d") in pids and pol:
                    got = pids[a["d"]]
            if got is None:
                allc = False
            else:
                cond = got
        mover[q] = ("param", cond) if (allc and cond is not None) else "always"
    changed = True
    while changed:
        changed = False
        for q, fs in byq.items():
            if mover.get(q) == "always" or q in PEEKS:
                continue
            for f in fs:
                for c in f.walk():
                    if c["k"] == "CXXMemberCallExpr" and callee(c) in byq and (call_object(c) is None or strip(call_object(c))["k"] == "CXXThisExpr"):
                        m = mover.get(callee(c))
                        if callee(c) in PEEKS:
                            continue
                        if m == "always" or (isinstance(m, tuple) and not call_is_nonmoving(c, m)):
                            if mover.get(q) != "always":
                                mover[q] = "always"
                                changed = True
    R.analysed["cursor_movers"] = sorted(q.split("::")[-1] for q, m in mover.items() if m == "always")
    R.analysed["conditional_movers"] = sorted(q.split("::")[-1] for q, m in mover.items() if isinstance(m, tuple))

    def moves(c):
        q = callee(c)
        if q in PEEKS:
            return False
        m = mover.get(q)
        if m is None:
            return False
        if m == "always":
            return True
        return not call_is_nonmoving(c, m)

    # ---- the typestate ----------------------------------------------------------------------------
    def nn(f, e, pol, st):
        """does (e == pol) imply that the current character is not NUL, in state st?"""
        e = strip(e)
        if e is None:
            return False
        k = e["k"]
        c = kids(e)
        if k == "UnaryOperator" and e.get("op") == "!":
            return nn(f, c[0], not pol, st)
        if k == "BinaryOperator" and e.get("op") == "||":
            return (nn(f, c[0], True, st) and nn(f, c[1], True, st)) if pol else (nn(f, c[0], False, st) or nn(f, c[1], False, st))
        if k == "BinaryOperator" and e.get("op") == "&&":
            return (nn(f, c[0], True, st) or nn(f, c[1], True, st)) if pol else (nn(f, c[0], False, st) and nn(f, c[1], False, st))
        if k == "BinaryOperator" and e.get("op") in ("==", "!="):
            eq = (e["op"] == "==") == pol
            for a, b in ((c[0], c[1]), (c[1], c[0])):
                if is_cur_char(a):
                    v = literal(b)
                    if isinstance(v, int):
                        return (eq and v != 0) or ((not eq) and v == 0)
            return False
        if k == "BinaryOperator" and e.get("op") == "&" and pol:
            return any(strip(x)["k"] == "DeclRefExpr" and strip(x).get("d") in st.P for x in c)
        if k == "DeclRefExpr" and pol:
            return e.get("d") in st.P and "bool" in f.type(e)
        if is_call(e) and callee(e) == "occa::lex::inCharset" and pol:
            return is_cur_char(call_args(e)[0])
        if is_cur_char(e) and pol:
            return True
        return False

    def nn1(f, e, pol):
        """does (e == pol) imply that the character after the current one is not NUL?"""
        e = strip(e)
        if e is None:
            return False
        k = e["k"]
        c = kids(e)
        if k == "UnaryOperator" and e.get("op") == "!":
            return nn1(f, c[0], not pol)
        if k == "BinaryOperator" and e.get("op") == "||":
            return (nn1(f, c[0], True) and nn1(f, c[1], True)) if pol else (nn1(f, c[0], False) or nn1(f, c[1], False))
        if k == "BinaryOperator" and e.get("op") == "&&":
            return (nn1(f, c[0], True) or nn1(f, c[1], True)) if pol else (nn1(f, c[0], False) and nn1(f, c[1], False))
        if k == "BinaryOperator" and e.get("op") in ("==", "!="):
            eq = (e["op"] == "==") == pol
            for a, b in ((c[0], c[1]), (c[1], c[0])):
                if is_next_char(a):
                    v = literal(b)
                    if isinstance(v, int):
                        return (eq and v != 0) or ((not eq) and v == 0)
            return False
        if is_next_char(e) and pol:
            return True
        return False

    def succ_known(f, e, pol, st):
        e = strip(e)
        if e is not None and e["k"] == "CXXMemberCallExpr" and callee(e).endswith("result_t::success") and pol:
            o = strip(call_object(e))
            if o["k"] == "DeclRefExpr" and o.get("d") in st.P:
                return o["d"]
        if e is not None and e["k"] == "UnaryOperator" and e.get("op") == "!":
            return succ_known(f, kids(e)[0], not pol, st)
        return None

    def analyse(f, entryK):
        cfg = f.cfg
        cfg.facts_in()
        whole = getattr(cfg, "_whole", {})
        nodes = f.nodes
        IN = {b: None for b in cfg.reach}
        IN[cfg.entry] = State(entryK)
        advances = {}      # node id -> (node, ok, need)
        calls_state = {}   # call node id -> K at the call
        order = sorted(cfg.reach, reverse=True)
        for _ in range(60):
            changed = False
            for b in order:
                st0 = IN[b]
                if st0 is None:
                    continue
                st = State(st0.K, st0.P, st0.S)
                for (e_, pol) in whole.get(b, ()):
                    if nn(f, e_, pol, st):
                        st.K = True
                    if nn1(f, e_, pol):
                        st.S = st.S | {"K1"}
                blk = cfg.blocks[b]
                for e in blk.elems:
                    n = nodes.get(e) if isinstance(e, int) else None
                    if n is None:
                        continue
                    k = n["k"]
                    if k == "DeclStmt":
                        for vd in kids(n):
                            if vd["k"] != "VarDecl" or not kids(vd):
                                continue
                            init = strip(kids(vd)[0])
                            src_calls = [x for x in walk(init) if is_call(x) and (callee(x) in PEEKS or (callee(x).endswith("::getLongest") and any(is_cursor(a) for a in call_args(x))))]
                            if src_calls and not any(is_call(x) and x["k"] == "CXXMemberCallExpr" and callee(x) in byq and moves(x) for x in walk(init)):
                                st.P = st.P | {vd["d"]}
                        continue
                    if k == "CXXMemberCallExpr" and callee(n) in byq and (call_object(n) is None or strip(call_object(n))["k"] == "CXXThisExpr"):
                        calls_state[n["i"]] = (n, st.K)
                        if callee(n) in PEEKS:
                            st.K = False
                        elif moves(n):
                            st.K, st.P, st.S = False, frozenset(), frozenset()
                        continue
                    t = write_target(n)
                    if t is not None and is_cursor(t):
                        need, ok = None, False
                        if k == "UnaryOperator":
                            need, ok = "1 character", st.K
                        elif k == "CompoundAssignOperator" and n.get("op") == "+=":
                            rhs = strip(kids(n)[1])
                            txt = noid(render(rhs, False)).replace(" ", "")
                            if txt in ("(1+(this->fp.start[1]!='\\x00'))", "(1+(this->fp.start[1]!=0))") or (rhs["k"] == "BinaryOperator" and literal(kids(rhs)[0]) == 1 and "fp.start[1]" in txt and "!=" in txt):
                                need, ok = "1 character (+1 if the next is not NUL)", st.K
                            elif literal(rhs) == 2 and rhs["k"] == "IntegerLiteral":
                                need, ok = "2 characters", st.K and "K1" in st.S
                            elif rhs["k"] == "MemberExpr" and rhs.get("n", "").endswith("result_t::length") and strip(kids(rhs)[0])["k"] == "DeclRefExpr":
                                need, ok = "the matched operator", strip(kids(rhs)[0])["d"] in st.S and strip(kids(rhs)[0])["d"] in st.P
                            else:
                                need = "exception:" + txt
                                ok = (f.q, txt) in EXCEPTIONS and st.K
                        else:
                            need, ok = "not an advance", True
                        prev = advances.get(n["i"])
                        advances[n["i"]] = (n, ok and (prev[1] if prev else True), need, st.K)
                        st.K, st.P, st.S = False, frozenset(), frozenset()
                        continue
                    if t is not None:
                        s = noid(render(strip(t), False))
                        if s in ("this->fp", "this->fp.start", "this->origin") or s.startswith("this->origin.position"):
                            st.K, st.P, st.S = False, frozenset(), frozenset()
                for s in blk.succs:
                    if s is None or s not in IN:
                        continue
                    ns = State(st.K, st.P, st.S)
                    for (a, pol) in cfg._edge_facts.get((b, s), ()):
                        if nn(f, a, pol, ns):
                            ns.K = True
                        d = succ_known(f, a, pol, ns)
                        if d is not None:
                            ns.S = ns.S | {d}
                    m = meet(IN[s], ns) if IN[s] is not None else ns
                    if IN[s] is None or m.key() != IN[s].key():
                        IN[s] = m
                        changed = True
            if not changed:
                break
        return advances, calls_state

    n_adv = 0
    precond = {}
    results = {}
    for f in methods:
        if not f.d.get("cfg"):
            continue
        adv, calls = analyse(f, False)
        bad = [a for a in adv.values() if not a[1]]
        if bad:
            adv2, calls2 = analyse(f, True)
            if not [a for a in adv2.values() if not a[1]]:
                precond[f.q] = True
                adv, calls = adv2, calls2
        results[f.key] = (f, adv, calls)
    for key, (f, adv, calls) in sorted(results.items()):
        for nid, (n, ok, need, K) in sorted(adv.items()):
            if need == "not an advance":
                continue
            n_adv += 1
            label = noid(render(n, False))
            if not ok and f.q == TK + "getToken":
                # the unknown-token fallback: justified by the finishedSource protocol, verified here
                ok = finished_source_protocol(f) and (f.q, "unknown-token") in EXCEPTIONS
                need = "exception:unknown-token (finishedSource protocol)"
            R.ob("C12-R1", ok, f.q + (" [requires a non-NUL current character at entry]" if precond.get(f.q) else ""), "advance:%s needs %s" % (label, need), f.site(n),
                 "all paths reaching this advance have shown the stepped-over character(s) to be non-NUL" if ok else
                 "the cursor can be advanced while it may stand on the terminating NUL (e.g. an unterminated literal at the end of the source): the scanner then runs past the buffer")
    # callers of functions with an entry precondition
    for key, (f, adv, calls) in sorted(results.items()):
        for nid, (c, K) in sorted(calls.items()):
            if precond.get(callee(c)):
                R.ob("C12-R1", K, f.q, "call:%s with a non-NUL current character" % callee(c).split("::")[-1], f.site(c),
                     "the callee's entry requirement holds at this call" if K else "callee advances the cursor immediately but nothing here shows the current character is not NUL")
    if n_adv < 15:
        raise AnalysisBroken("only %d cursor advances found in tokenizer_t" % n_adv)
    ic = prog.fn("occa::lex::inCharset")
    loops = [n for n in ic.walk() if n["k"] == "WhileStmt"]
    ok = len(loops) == 1 and noid(render(kids(loops[0])[0], False)).replace(" ", "") in ("((*charset)!='\\x00')", "((*charset)!=0)") and all(literal(kids(r)[0]) is False for r in ic.walk() if r["k"] == "ReturnStmt" and not any(x is r for x in walk(loops[0])))
    R.ob("C12-R1", ok, ic.q, "idiom:inCharset(c, set) true implies c != NUL", "%s:%d" % (ic.relfile, ic.d["line"]), "the charset is scanned up to, not including, its NUL; false otherwise")

    # ---- R2 --------------------------------------------------------------------------
    n_str = 0
    for f in prog.funcs.values():
        if f.d.get("tmpl") == "inst":
            continue
        rt = f.tname(f.d.get("ret"))
        if rt not in ("std::string", "const std::string", "std::basic_string<char>"):
            continue
        rets = [n for n in f.walk() if n["k"] == "ReturnStmt" and kids(n)]
        if not rets:
            continue
        n_str += 1
        bad = []
        for r in rets:
            e = strip(kids(r)[0])
            while e is not None and e["k"] in ("CXXConstructExpr", "CXXTemporaryObjectExpr") and len(kids(e)) >= 1:
                e = strip(kids(e)[0])
            if e is not None and is_null_const(e) and e["k"] != "IntegerLiteral" or (e is not None and e["k"] == "IntegerLiteral" and e.get("v") == "0"):
                bad.append(r)
        R.ob("C12-R2", not bad, f.q + " " + f.d["sig"][:50], "returns:%d, none is a null pointer" % len(rets), f.site(bad[0]) if bad else "%s:%d" % (f.relfile, f.d["line"]),
             "every return constructs a real string" if not bad else "returns NULL from a function returning std::string: std::string(nullptr) throws std::logic_error, which is not an occa::exception",
             nontrivial=bool(bad) or f.d["file"].endswith("tokenizer.cpp"))
    R.analysed["string_functions_scanned"] = n_str
    if n_str < 20:
        raise AnalysisBroken("only %d std::string-returning functions scanned" % n_str)

    escape_checks(prog, R, "C12-R3", "C12-R4")
    scanner_shape(ctx, R)
    operator_registration(ctx, R)
    bc = prog.fn(TK + "getBlockCommentToken")
    esc = [c for c in bc.walk() if is_call(c) and callee(c) in (TK + "skipTo", TK + "skipFrom")]
    R.ob("C12-R9", not esc, bc.q, "no escape-aware skip inside a comment", bc.site(esc[0]) if esc else "%s:%d" % (bc.relfile, bc.d["line"]),
         "the scan looks at `*` `/` pairs only" if not esc else
         "the comment is scanned with skipTo(), which steps over a backslash and the character behind it: `/* a \\*/ y` swallows the rest of the input as one comment")
    loops = [n for n in bc.walk() if n["k"] in ("WhileStmt", "ForStmt", "DoStmt") and not n.get("mac")]
    adv = [n for n in bc.walk() if write_target(n) is not None and is_cursor(write_target(n)) and n["k"] == "CompoundAssignOperator" and literal(kids(n)[1]) == 2]
    skipped = bool(loops) and any(bc.cfg.before(a, loops[0]) or bc.cfg.find_path(bc.cfg.position(a), lambda b, i, e: e == bc.cfg.blocks[bc.cfg.position(loops[0])[0]].elems[0] if bc.cfg.position(loops[0]) else False, lambda b, i, e: False) is not None
                                  for a in adv if not any(x["i"] == loops[0]["i"] for x in bc.ancestors(a)))
    R.ob("C12-R9", skipped, bc.q, "the opener is stepped over before the scan", bc.site(adv[0]) if adv else "%s:%d" % (bc.relfile, bc.d["line"]),
         "the scan starts behind `/*`" if skipped else "the scan starts on the opener's own `*`: `/*/` is taken for a complete comment and the rest of it becomes live tokens")
    literal_boundary(prog, R)
    pfi = prog.fn(TK + "peekForIdentifier")
    rets = [r for r in pfi.walk() if r["k"] == "ReturnStmt" and "tokenType::op" in render(r, False)]
    if not rets:
        raise AnalysisBroken("peekForIdentifier: `return tokenType::op` not found")
    for r in rets:
        guards = [a_ for a_ in pfi.ancestors(r) if a_["k"] == "IfStmt"]
        ctext = " ".join(noid(render(kids(g_)[0], False)) for g_ in guards)
        lookups = [c for g_ in guards for c in walk(kids(g_)[0]) if is_call(c) and "operators" in noid(render(call_object(c), False) if call_object(c) is not None else "")]
        names = [callee(c).split("::")[-1] for c in lookups]
        exact = bool(lookups) and all(n in ("has", "get") for n in names)
        if not exact and any(n in ("getLongest", "getFirst", "trieGetLongest") for n in names):
            # a prefix lookup is exact only together with a test that the match covers the whole identifier
            exact = ("length" in ctext and ("size()" in ctext or "length()" in ctext)) and "==" in ctext
        R.ob("C12-R12", exact, pfi.q, "word operator:exact match of the identifier (%s)" % ", ".join(names), pfi.site(r),
             "operators.has(identifier)" if exact else
             "the identifier is looked up by PREFIX (%s): `newton`, `deleted`, `sizeof_x` are peeked as operators, getOperatorToken() consumes only the operator part, and one identifier becomes two tokens" % ", ".join(names))
    suffix_loop(ctx.program(UNITS + ["src/types/primitive.cpp"], thorough_all=False), R)
    # operators are split by longest match: the lookup structure is the trie (shared clause with C28)
    from rules import c28
    from vlib.refile import refile
    refile(ctx, c28, {"C28-R6": "C12-R8"}, "C28")


def scanner_shape(ctx, R):
    """R5 / R6"""
    prog = ctx.program(UNITS + ["src/types/primitive.cpp"], thorough_all=False)
    # ---- R5: depth of the call stack must not depend on the length of the input -----------------------------------------------------
    scan = [f for f in prog.funcs.values() if f.d.get("tmpl") != "inst" and (f.q.startswith(TK) or f.q.startswith("occa::lex::") or f.q.startswith("occa::primitive::load"))]
    keys = {f.key: f for f in scan}
    edges = {}
    for f in scan:
        outs = set()
        for c in f.walk():
            if is_call(c):
                for g in prog.resolve_call(c, virtual=False) or ():
                    if g.key in keys:
                        outs.add(g.key)
        edges[f.key] = outs
    # Tarjan-free: a function is on a cycle iff it reaches itself
    def reaches_self(k):
        seen, work = set(), list(edges[k])
        while work:
            x = work.pop()
            if x == k:
                return True
            if x in seen:
                continue
            seen.add(x)
            work.extend(edges.get(x, ()))
        return False
    for f in sorted(scan, key=lambda x: x.q + x.d["sig"]):
        rec = reaches_self(f.key)
        direct = f.key in edges[f.key]
        # overload forwarding (same name, other signature) is not recursion: keys are per definition
        R.ob("C12-R5", not rec, f.q + " " + f.d["sig"][:40], "no call cycle through the scanner", "%s:%d" % (f.relfile, f.d["line"]),
             "iterative" if not rec else
             "%s: the nesting of the input drives the depth of the C++ stack (`1e1e1e...`, 76 KB, overflowed the stack in primitive::load)" % ("calls itself" if direct else "is on a call cycle"),
             nontrivial=rec or f.q.startswith("occa::primitive::load"))
    # ---- R6 ---------------------------------------------------------------------------------------------------------------------
    n6 = 0
    for f in prog.funcs.values():
        if f.d.get("tmpl") == "inst" or not f.q.startswith(TK):
            continue
        for n in f.walk():
            t = write_target(n)
            if t is None or not noid(render(strip(t), False)).endswith("fp.lineStart") or n.get("op") != "=":
                continue
            loops = [a for a in f.ancestors(n) if a["k"] in ("WhileStmt", "ForStmt", "DoStmt") and not a.get("mac")]
            if not loops:
                continue
            rhs = strip(kids(n)[1])
            base = strip(kids(rhs)[0]) if rhs["k"] == "BinaryOperator" and rhs.get("op") in ("+", "-") else rhs
            bt = noid(render(base, False))
            advanced = False
            for w in walk(loops[0]):
                wt = write_target(w)
                if wt is not None and w is not n and noid(render(strip(wt), False)) == bt:
                    advanced = True
                if is_call(w) and any(noid(render(strip(a_), False)) == bt for a_ in kids(w)[1:] if a_["k"] in ("DeclRefExpr", "MemberExpr")):
                    advanced = True        # handed by reference to a helper that moves it
            n6 += 1
            R.ob("C12-R6", advanced, f.q, "lineStart <- %s" % noid(render(rhs, False)), f.site(n),
                 "computed from the pointer the loop advances" if advanced else
                 "the loop walks another pointer; `%s` does not move in it: after a token that contains a newline the line start is recorded past the token, the next token gets a negative column "
                 "and the first diagnostic printed on it throws std::length_error (abort)" % bt)
    if n6 < 6:
        raise AnalysisBroken("tokenizer: only %d line-start updates inside loops found" % n6)


def suffix_loop(prog, R):
    """R11: primitive::load reads the suffixes of a number in a loop; leaving that loop after consuming part of the suffix splits the literal"""
    ld = [f for f in prog.fns("occa::primitive::load") if f.d["params"] and "char" in f.d.get("sig", "") and "&" in f.d.get("sig", "").split(",")[0]]
    if len(ld) != 1:
        raise AnalysisBroken("primitive::load(const char *&, bool) not found")
    f = ld[0]
    cur = f.d["params"][0]["d"]
    loops = [n for n in f.walk() if n["k"] == "WhileStmt" and not n.get("mac") and any(x["k"] == "CharacterLiteral" and x.get("v") in (76, "L", "'L'") or (x["k"] == "CharacterLiteral" and literal(x) in ("L", 76)) for x in walk(n))]
    if len(loops) != 1:
        raise AnalysisBroken("primitive::load: suffix loop not found (%d candidates)" % len(loops))
    lp = loops[0]
    def writes_cursor(n):
        for x in walk(n):
            t = write_target(x)
            if t is not None and strip(t)["k"] == "DeclRefExpr" and strip(t).get("d") == cur:
                return x
        return None
    n_br = 0
    for br in [x for x in walk(kids(lp)[1]) if x["k"] == "BreakStmt"]:
        anc = f.ancestors(br)
        inner_loop = False
        consumed = None
        child = br
        for a in anc:
            if a["i"] == lp["i"]:
                break
            if a["k"] in ("WhileStmt", "ForStmt", "DoStmt") and not a.get("mac"):
                inner_loop = True
                break
            if a["k"] == "CompoundStmt":
                for sib in kids(a):
                    if sib["i"] == child["i"]:
                        break
                    # an unconditional statement of this block that moves the cursor
                    if sib["k"] not in ("IfStmt", "WhileStmt", "ForStmt", "DoStmt", "SwitchStmt") and writes_cursor(sib) is not None:
                        consumed = writes_cursor(sib)
            child = a
        if inner_loop:
            continue
        if consumed is not None:
            # nothing can follow an `f` suffix in a valid literal: leaving after it changes the reading of ill-formed input only
            fs = [(noid(k).replace(" ", ""), pol) for (k, pol) in f.cfg.facts_at(consumed)]
            if any(pol and k in ("(C=='F')", "(C==70)", "('F'==C)") for (k, pol) in fs):
                consumed = None
        n_br += 1
        R.ob("C12-R11", consumed is None, f.q, "suffix-loop:break only before anything of this round was consumed", f.site(br),
             "the loop is left with the cursor where the round found it" if consumed is None else
             "the loop is left right after the cursor was moved (%s): what follows in the same literal is never looked at - `1e5L` / `2.5e-3l` stop at the exponent, and the tokenizer then splits the literal" % noid(render(consumed, False)))
    if n_br < 2:
        raise AnalysisBroken("primitive::load: only %d loop exits analysed" % n_br)


def literal_boundary(prog, R):
    """R10: primitive::load() reads `true` / `false` as literals; shallowPeek() may only classify them as such when the identifier does not go on"""
    sp = prog.fn(TK + "shallowPeek")
    loads = [c for c in sp.calls() if callee(c).endswith("primitive::load")]
    if not loads:
        raise AnalysisBroken("shallowPeek: primitive::load call not found")
    pos = decl_of(call_args(loads[0])[0])
    rets = [n for n in sp.walk() if n["k"] == "ReturnStmt" and "primitive" in render(n, False)]
    if pos is None or not rets:
        raise AnalysisBroken("shallowPeek: literal end pointer / `return tokenType::primitive` not found")
    defs = sp.local_defs()

    def charsets(e, depth=0):
        out = set()
        for x in walk(e):
            if x["k"] == "DeclRefExpr":
                if x.get("loc") and depth < 4:
                    for d in defs.get(x["d"], []):
                        out |= charsets(d, depth + 1) if d["i"] != e.get("i") else set()
                else:
                    r = render(x, False)
                    if "charcodes::" in r:
                        out.add(r.split("charcodes::")[-1])
            elif x["k"] in ("MemberExpr",) and "Charcodes" in render(x, False):
                out.add(noid(render(x, False)))
        return out

    for ret in rets:
        tested = set()
        digit = False
        for c in sp.calls():
            pc = sp.cfg.position(c)
            if not pc or sp.cfg.find_path(pc, lambda b, i, e: e == ret["i"], lambda b, i, e: False) is None:
                continue
            a = call_args(c)
            if callee(c).endswith("lex::inCharset") and len(a) == 2 and any(x["k"] == "DeclRefExpr" and x.get("d") == pos for x in walk(a[0])):
                tested |= charsets(a[1])
            if callee(c).split("::")[-1] in ("isdigit", "isalnum", "isDigit", "isAlphanumeric") and any(x["k"] == "DeclRefExpr" and x.get("d") == pos for x in walk(c)):
                digit = True
        ok = "identifier" in tested or ("identifierStart" in tested and ("number" in tested or "alphanumber" in tested or digit))
        R.ob("C12-R10", ok, sp.q, "behind-literal:tested against {%s}" % ", ".join(sorted(tested)), sp.site(ret),
             "digits and letters behind `true` / `false` keep it an identifier" if ok else
             "only characters that can START an identifier are refused behind a literal; `true1` / `false0` are split into a boolean and a number although they are single identifiers")


def operator_registration(ctx, R):
    """R7: op::X objects are printed by their spelling; the tokenizer only recognises what getOperators() registers"""
    from vlib.paren import operator_table
    prog = ctx.program(["src/occa/internal/lang/operator.cpp"], thorough_all=False)
    tab = operator_table(prog)
    go = prog.fn("occa::lang::getOperators")
    reg = {}
    for c in go.walk():
        if is_call(c) and callee(c).endswith("::add") and len(call_args(c)) == 2:
            objs = [x.get("n") for x in walk(call_args(c)[1]) if x["k"] == "DeclRefExpr" and x.get("n", "").startswith("occa::lang::op::")]
            keyobjs = [x.get("n") for x in walk(call_args(c)[0]) if x["k"] == "DeclRefExpr" and x.get("n", "").startswith("occa::lang::op::")]
            for o in objs:
                if o in tab:
                    reg[tab[o][0]] = o
                    R.ob("C12-R7", keyobjs == [o], go.q, "registered under its own spelling: %s" % o.split("::")[-1], go.site(c), "operators.add(op::X.str, &op::X)", nontrivial=False)
    PSEUDO = {"()": "cast node printed by its own printer", "?:": "printed as `?` and `:`"}
    for q, (sp, pr, t) in sorted(tab.items()):
        if sp in PSEUDO or not sp:
            continue
        ok = sp in reg
        R.ob("C12-R7", ok, "occa::lang::op::" + q.split("::")[-1], "spelling %r registered" % sp, "src/occa/internal/lang/operator.cpp",
             "tokenized as one operator" if ok else
             "the operator object exists (and is printed as %r) but the tokenizer does not know the spelling: it is split into shorter operators when the printed text is read back" % sp)


def escape_checks(prog, R, r3, r4):
    """escape()/unescape() are inverse and position independent; printers and tokenizer agree on delimiters"""
    # ---- R3 --------------------------------------------------------------------------
    es = prog.fn("occa::escape")
    cfg = es.cfg
    IN = cfg.facts_in()
    p_str, p_c, p_esc = [p["d"] for p in es.d["params"]]
    apps = [n for n in es.walk() if n["k"] == "CXXOperatorCallExpr" and n.get("op") == "+=" and strip(kids(n)[2]).get("d") == p_esc]
    if len(apps) != 1:
        raise AnalysisBroken("escape(): append of the escape character not found")
    loops = [n for n in es.walk() if n["k"] == "ForStmt"]
    idx = None
    for n in walk(kids(loops[0])[0]):
        if n["k"] == "VarDecl":
            idx = n["d"]
    bad = []
    for (k, pol) in cfg.facts_at(apps[0], IN):
        a = cfg.fact_node((k, pol))
        mentions_i = any(x["k"] == "DeclRefExpr" and x.get("d") == idx for x in walk(a))
        in_subscript = all(any(y["k"] == "ArraySubscriptExpr" and any(z is x for z in walk(y)) for y in walk(a)) for x in walk(a) if x["k"] == "DeclRefExpr" and x.get("d") == idx)
        bound = a["k"] == "BinaryOperator" and a.get("op") == "<" and strip(kids(a)[0]).get("d") == idx
        if mentions_i and not in_subscript and not bound:
            bad.append(noid(k))
    R.ob(r3, not bad, es.q, "emit-escape condition is position independent", es.site(apps[0]),
         "the escape character is emitted whenever the delimiter is met" if not bad else
         "the decision to escape depends on the position (%s): a delimiter in first position is written unescaped, and unescape() (position independent) cannot invert it" % bad)
    un = prog.fn("occa::unescape")
    conts = [n for n in un.walk() if n["k"] == "ContinueStmt"]
    ok = len(conts) == 1
    if ok:
        fs = {noid(k) for (k, pol) in un.cfg.facts_at(conts[0]) if pol}
        ok = any("cstr[i] == escapeChar" in k for k in fs) and any("cstr[(i + 1)] == c" in k for k in fs)
    R.ob(r3, ok, un.q, "unescape drops escapeChar exactly before the delimiter", un.site(conts[0]) if conts else un.relfile, "inverse of escape()")
    # ... and on nothing else: escape() writes the escape character in front of EVERY delimiter, independent of what precedes it, so the
    # inverse may look at the current character and the next one only
    extra = []
    if conts:
        import re as _re
        for (k, pol) in un.cfg.facts_at(conts[0]):
            t = noid(k)
            subs = set(_re.findall(r"cstr\[([^\]]*)\]", t))
            if subs - {"i", "(i + 1)"}:
                extra.append(t)
    R.ob(r3, not extra, un.q, "the drop depends on the current and the next character only", un.site(conts[0]) if conts else un.relfile,
         "position independent, like escape()" if not extra else
         "the decision to drop the escape character also looks at %s: escape() escapes every delimiter whatever precedes it, so `\\\\\\\"` (escaped backslash, escaped quote) is not inverted and the printed literal is malformed" % extra)

    # ---- R4 --------------------------------------------------------------------------
    def delim_of(f, fname):
        out = []
        for c in f.walk():
            if is_call(c) and callee(c) == fname:
                out.append(literal(call_args(c)[1]))
        return out
    pairs = [("occa::lang::stringToken::print", "occa::escape", TK + "getString", "occa::unescape", ord('"')),
             ("occa::lang::charToken::print", "occa::escape", TK + "getCharToken", "occa::unescape", ord("'")),
             ("occa::lang::stringNode::print", "occa::escape", TK + "getString", "occa::unescape", ord('"')),
             ("occa::lang::charNode::print", "occa::escape", TK + "getCharToken", "occa::unescape", ord("'"))]
    for pq, pe, tq, tu, want in pairs:
        pf, tf = prog.fn(pq), prog.fn(tq)
        a, b = delim_of(pf, pe), delim_of(tf, tu)
        ok = a == [want] and b == [want]
        R.ob(r4, ok, pq, "delimiter:%s escape(%s) vs %s unescape(%s)" % (pq.split("::")[-2], [chr(x) for x in a if isinstance(x, int)], tq.split("::")[-1], [chr(x) for x in b if isinstance(x, int)]),
             "%s:%d" % (pf.relfile, pf.d["line"]), "printer escapes the delimiter the tokenizer unescapes")
        # the printer also surrounds the text with that delimiter
        lits = [literal(x) for x in pf.walk() if x["k"] in ("CharacterLiteral", "StringLiteral")]
        R.ob(r4, lits.count(want) + lits.count(chr(want)) >= 3, pq, "quotes:%s around the escaped text" % chr(want), "%s:%d" % (pf.relfile, pf.d["line"]), "opening and closing delimiter written")
    go = prog.fn(TK + "getOperatorToken")
    adv = [n for n in go.walk() if write_target(n) is not None and is_cursor(write_target(n))]
    ok = len(adv) == 1 and noid(render(kids(adv[0])[1], False)) == "result.length"
    gl = [c for c in go.walk() if is_call(c) and callee(c).endswith("::getLongest")]
    ok = ok and len(gl) == 1 and any(is_cursor(a) for a in call_args(gl[0]))
    R.ob(r4, ok, go.q, "operator consumed by the longest match's length", go.site(adv[0]) if adv else go.relfile, "fp.start += getLongest(fp.start).length (longest-match: C28)")


def call_is_nonmoving(c, m):
    """conditional mover ('param', i): the call does not move when argument i is (default) false"""
    a = call_args(c)
    i = m[1]
    if i is None or i >= len(a):
        return False
    v = literal(a[i])
    return v is False


def finished_source_protocol(f):
    """getToken: finishedSource is initialised from (*fp.start == NUL), only ever set to true afterwards, and a true value returns before peek()"""
    vd = [n for n in f.walk() if n["k"] == "VarDecl" and n["n"] == "finishedSource"]
    if len(vd) != 1 or not kids(vd[0]):
        return False
    init = strip(kids(vd[0])[0])
    if not (init["k"] == "BinaryOperator" and init.get("op") == "==" and is_cur_char(kids(init)[0]) and literal(kids(init)[1]) == 0):
        return False
    d = vd[0]["d"]
    for n in f.walk():
        t = write_target(n)
        if t is not None and strip(t).get("d") == d and literal(kids(n)[1]) is not True:
            return False
    cfg = f.cfg
    IN = cfg.facts_in()
    pk = [c for c in f.walk() if c["k"] == "CXXMemberCallExpr" and callee(c) == TK + "peek"]
    if len(pk) != 1:
        return False
    fs = {(noid(k), pol) for (k, pol) in cfg.facts_at(pk[0], IN)}
    if ("finishedSource", False) not in fs:
        return False
    # the only statements between the declaration and the test that move the cursor are inside the loop guarded by *fp.start == NUL, which sets the flag
    loops = [n for n in f.walk() if n["k"] == "WhileStmt"]
    if len(loops) != 1 or "fp.start) == " not in noid(render(kids(loops[0])[0], False)):
        return False
    body_sets = any(write_target(n) is not None and strip(write_target(n)).get("d") == d and literal(kids(n)[1]) is True for n in walk(kids(loops[0])[1]))
    return body_sets


META = {
    "technique": "custom typestate dataflow over the CFGs of all tokenizer_t methods (state: current character known non-NUL / peek and match results still describing the cursor), with mover summaries, entry preconditions checked at call sites, and named idiom checks; plus null-return, position-independence and delimiter-agreement queries",
    "level": "Static all-paths decision that no method of tokenizer_t advances the cursor over a character that may be the terminating NUL - for every input, including unterminated literals at the end of the source - by "
             "tracking on every CFG path which branch conditions (direct tests, charset membership, successful peek()/operator match with the cursor unmoved) have established non-NUL; that no std::string-returning function "
             "returns NULL; that escape() is position independent and unescape() its inverse; that printers and tokenizer agree on delimiters; that operators are consumed by their longest-match length and every printable operator spelling is registered; that the literal scanner does not recurse, leaves its suffix loop only before anything of the round was consumed, "
             "and that a literal spelled like an identifier is not split off one; block comments are scanned from behind the opener without an escape character.",
    "note": "Does not decide the print/re-tokenise identity for all token sequences (value-level) nor scanners outside tokenizer_t (primitive::load, lex::*). Two advances rest on named idioms that are re-verified structurally on every run  An outside dynamic probe (DESIGN 10.9, probes/P12) found token-level defects; those with a code-shape class were fixed and are decided by R5-R7, R9-R11; not reported by any rule: `L 'a'` loses the identifier, raw strings are printed without delimiters."
            "(raw-string end pattern, finishedSource protocol).",
}
