"""C15 - printing a parsed program preserves its meaning and re-parses identically (structural clauses).

 R1  operator adjacency: from the repository's operator table compute the (prefix operator, operand start) pairs whose concatenation the
     longest-match tokenizer would read as another operator (- -, + +, - --, & &, ...); wherever such pairs exist the printer of prefix
     operator nodes must separate operator and operand; binary operators are printed with separators on both sides
 R2  string / character literals: escape() and unescape() are inverse and position independent; printers and tokenizer agree on delimiters (shared with C12)
 R3  every expression node class prints all the children it stores (children pushed by pushChildNodes are streamed by print)
 R4  parenthesesNode prints its parentheses (the explicit grouping the PAREN rules of C17-C19 rely on)
"""
import glob
import os
import re

from vlib.facts import kids, strip, walk, is_call, call_args, call_object, callee, render, literal, noid
from vlib.cfg import write_target
from vlib.flow import stream_chain
from vlib.paren import operator_table
from vlib.work import AnalysisBroken, REPO
from rules import c12

EXPR_DIR = "src/occa/internal/lang/expr"
UNITS = sorted(os.path.relpath(p, REPO) for p in glob.glob(os.path.join(REPO, EXPR_DIR, "*.cpp"))) + [
    "src/occa/internal/lang/operator.cpp", "src/occa/internal/utils/string.cpp", "src/occa/internal/lang/tokenizer.cpp",
    "src/occa/internal/lang/token/stringToken.cpp", "src/occa/internal/lang/token/charToken.cpp"]
L = "occa::lang::"
# node classes that never occur in a finished tree, one reason each
TRANSIENT = {"occa::lang::pairNode": "parser-internal marker for an open bracket pair; expressionParser always replaces it, its print() reports an internal error"}


def longest_match(text, spellings):
    """tokenise an operator-only text the way the trie does: greedily by longest stored prefix"""
    out = []
    i = 0
    while i < len(text):
        best = None
        for s in spellings:
            if text.startswith(s, i) and (best is None or len(s) > len(best)):
                best = s
        if best is None:
            return None
        out.append(best)
        i += len(best)
    return out


def run(ctx):
    R = ctx.R
    if len(UNITS) < 30:
        raise AnalysisBroken("expression node units not found")
    prog = ctx.program(UNITS, thorough_all=False)
    R.explanation = ("Decides from the operator table which prefix-operator/operand adjacencies would fuse under longest-match tokenisation and that the printers keep them apart; that literal escaping is invertible; that every expression "
                     "node prints all of its children; that explicit parentheses are printed. Does not decide evaluation equivalence of printed programs.")
    R.rule("C15-R1", "operators that could fuse are printed with a separator", floor=5)
    R.rule("C15-R2", "(shared with C12) literal escaping invertible and position independent", floor=2)
    R.rule("C15-R2b", "(shared with C12) delimiter agreement", floor=6)
    R.rule("C15-R3", "every expression node prints all stored children", floor=15)
    R.rule("C15-R5", "a printer emits what the node stores: no print() edits a copy of one of the node's fields before streaming it", floor=25)
    R.rule("C15-R6", "list printers put a separator between every two consecutive elements (guard on the loop index is `i > 0` before, or `i < last` after, the element)", floor=2)
    R.rule("C15-R4", "parenthesesNode prints ( child ); no printer adds a second pair around it", floor=2)

    tab = operator_table(prog)
    spellings = sorted({sp for (sp, pr, t) in tab.values()})
    prefix = sorted({sp for q, (sp, pr, t) in tab.items() if "unaryOperator_t" in t and pr == 3 or q.split("::")[-1] in ("dereference", "address")})
    fused = []
    for u in prefix:
        for t in prefix:
            lm = longest_match(u + t, spellings)
            if lm != [u, t]:
                fused.append((u, t, lm))
    R.analysed["operator_spellings"] = len(spellings)
    R.analysed["prefix_operators"] = prefix
    R.analysed["fusing_pairs"] = ["%s %s -> %s" % (u, t, "".join(lm) if lm else "?") for u, t, lm in fused][:20]
    lu = prog.fn(L + "leftUnaryOpNode::print")
    cfg = lu.cfg
    IN = cfg.facts_in()
    emits = []    # (node, what)
    for n in lu.walk():
        if n["k"] == "CXXOperatorCallExpr" and n.get("op") == "<<":
            ch = stream_chain(n)
            par = lu.parent.get(n["i"])
            if par is not None and par["k"] == "CXXOperatorCallExpr" and par.get("op") == "<<" and strip(kids(par)[1]) is n:
                continue
            for o in ch[1:]:
                txt = noid(render(o, False))
                if txt.endswith("this->op"):
                    emits.append((n, "op", o))
                elif "this->value" in txt:
                    emits.append((n, "value", o))
                elif literal(o) in (32, " "):
                    emits.append((n, "sep", o))
    kinds = [k for (_, k, _) in emits]
    if "op" not in kinds or "value" not in kinds:
        raise AnalysisBroken("leftUnaryOpNode::print: operator/operand emissions not found")
    if fused:
        # a separator must be emitted between op and value whenever the operand is itself a prefix-operator node
        seps = [(n, o) for (n, k, o) in emits if k == "sep"]
        opn = [x for (x, k, _) in emits if k == "op"][0]
        vn = [x for (x, k, _) in emits if k == "value"][0]
        ok = False
        detail = "operator and operand are streamed back to back"
        if opn is vn:
            ch = [k for (x, k, _) in emits if x is opn]
            ok = "sep" in ch and ch.index("op") < ch.index("sep") < ch.index("value")
            detail = "separator inside the chain"
        elif cfg.before(opn, vn):
            # every separator-free path from the operator to the operand must exclude each fusing pair (u, t):
            # decided per path from its branch facts, three-valued (a fact the rule cannot interpret makes the verdict unknown)
            sep_ids = {n["i"] for (n, _) in seps}
            paths = cfg.enum_paths(cfg.position(opn), lambda b, i, e: e == vn["i"], lambda b, i, e: e in sep_ids)
            bad, unknown = [], []
            for p in paths:
                facts = [(noid(k).replace(" ", ""), pol) for (k, pol) in cfg.path_edge_facts(p)]
                for (u, t, lm) in fused:
                    feasible = True
                    for (k, pol) in facts:
                        if "this->value->type()" in k and "leftUnary" in k and "&" in k and "&&" not in k and "||" not in k:
                            if not pol:
                                feasible = False      # operand is not a prefix-operator node on this path
                        elif "opType()==" in k and k.count("opType()") == 2 and "&&" not in k and "||" not in k:
                            if pol != (u == t):
                                feasible = False      # path requires equal / different operators
                        elif "&&" in k or "||" in k:
                            continue                  # whole-condition fact: its atoms are on the path as well
                        elif feasible:
                            feasible = None
                    if feasible is True:
                        bad.append((u, t, lm))
                    elif feasible is None:
                        unknown.append((u, t, sorted(k for k, _ in facts)))
            if unknown and not bad:
                raise AnalysisBroken("leftUnaryOpNode::print: separator guarded by a condition the rule cannot interpret: %s" % unknown[0][2])
            ok = bool(seps) and not bad
            detail = "every path that prints operator and operand back to back excludes a prefix-operator operand (%d paths)" % len(paths)
            if bad:
                uniq = []
                for x in bad:
                    if x not in uniq:
                        uniq.append(x)
                fused = sorted(uniq, key=lambda x: (x[0] == x[1], x[0], x[1])) + [x for x in fused if x not in uniq]
        R.ob("C15-R1", ok, lu.q, "separator between prefix operator and a prefix-operator operand (%d fusing pairs, e.g. %s)" % (len(fused), ", ".join("%s %s" % (u, t) for u, t, _ in fused[:4])),
             "%s:%d" % (lu.relfile, lu.d["line"]), detail if ok else
             "`%s %sx` is printed as `%s%sx`, which tokenises as %s: the printed program differs from the parsed one" % (fused[0][0], fused[0][1], fused[0][0], fused[0][1], fused[0][2]))
    else:
        R.ob("C15-R1", True, lu.q, "no fusing prefix pairs in the operator table", "", "nothing to separate", nontrivial=False)
    R.ob("C15-R1", len(fused) >= 4, "occa::lang::op", "adjacency table computed from operator.cpp", "src/occa/internal/lang/operator.cpp", "%d prefix operators, %d fusing pairs" % (len(prefix), len(fused)))
    bp = prog.fn(L + "binaryOpNode::print")
    chains = []
    for n in bp.walk():
        if n["k"] == "CXXOperatorCallExpr" and n.get("op") == "<<":
            par = bp.parent.get(n["i"])
            if par is not None and par["k"] == "CXXOperatorCallExpr" and par.get("op") == "<<" and strip(kids(par)[1]) is n:
                continue
            chains.append(([noid(render(x, False)) for x in stream_chain(n)[1:]], n))
    for ch, n in chains:
        fs = {(noid(k), pol) for (k, pol) in cfg.facts_at(n)} if False else set()
        tight = any(c_.endswith("this->op") for c_ in ch) and "' '" not in ch
        bfs = {(noid(k), pol) for (k, pol) in bp.cfg.facts_at(n)}
        member = any(pol and "scope" in k and "arrow" in k for (k, pol) in bfs)
        ok = (not tight) or member
        R.ob("C15-R1", ok, bp.q, "binary operator printed %s" % ("tight (member access/scope only)" if tight else "with separators: " + " ".join(ch)), bp.site(n),
             "spaces around the operator keep it from fusing with its operands" if not tight else "only ., ->, ::, .*, ->* are printed tight" if ok else "a general binary operator is printed without separators")
    ru = prog.fn(L + "rightUnaryOpNode::print")
    R.ob("C15-R1", any("this->value" in noid(render(n, False)) and "this->op" in noid(render(n, False)) for n in ru.walk() if n["k"] == "CXXOperatorCallExpr"), ru.q, "postfix operator printed after its operand", "%s:%d" % (ru.relfile, ru.d["line"]),
         "x++ / x-- (a following binary operator is separated by binaryOpNode's own spaces)")

    # ---- R2 --------------------------------------------------------------------------
    c12.escape_checks(prog, R, "C15-R2", "C15-R2b")

    # ---- R3 --------------------------------------------------------------------------
    n_cls = 0
    for cls in sorted({f.d.get("cls") for f in prog.funcs.values() if f.q.endswith("::pushChildNodes") and f.d.get("cls", "").startswith(L)}):
        pc = prog.fns(cls + "::pushChildNodes")
        pr = prog.fns(cls + "::print")
        if len(pc) != 1 or len(pr) != 1:
            continue
        pushed = {x["n"] for x in pc[0].walk() if x["k"] == "MemberExpr" and x.get("fcls") == cls}
        printed = {x["n"] for x in pr[0].walk() if x["k"] == "MemberExpr" and x.get("fcls") == cls}
        if not pushed:
            continue
        if cls in TRANSIENT:
            continue
        n_cls += 1
        missing = sorted(p.split("::")[-1] for p in pushed - printed)
        R.ob("C15-R3", not missing, cls, "print covers children %s" % sorted(p.split("::")[-1] for p in pushed), "%s:%d" % (pr[0].relfile, pr[0].d["line"]),
             "every stored child is streamed" if not missing else "child node(s) %s are part of the tree but never printed: the printed source loses a sub-expression" % missing)
    if n_cls < 12:
        raise AnalysisBroken("only %d expression node classes with children found" % n_cls)
    # ---- R6: comma-separated lists ---------------------------------------------------------------------------------------------------------
    n6 = 0
    for f in sorted(prog.funcs.values(), key=lambda f: f.q):
        if not f.q.endswith("Node::print") or not f.q.startswith(L) or f.d.get("tmpl") == "inst":
            continue
        defs = f.local_defs()
        for lp in [n for n in f.walk() if n["k"] == "ForStmt" and not n.get("mac")]:
            iv = [v for v in walk(kids(lp)[0]) if v["k"] == "VarDecl"] if kids(lp)[0] is not None else []
            if len(iv) != 1:
                continue
            ivd = iv[0]["d"]
            conds = [k_ for k_ in kids(lp)[1:] if k_ is not None and strip(k_)["k"] == "BinaryOperator" and strip(k_).get("op") == "<"]
            bound = noid(render(conds[0], False)).replace(" ", "") if conds else ""
            m = re.match(r"\((\w+)<([\w>\-\.\(\)]+)\)$", bound)
            if not m:
                continue
            count = m.group(2)
            seps = [x for x in walk(lp) if (x["k"] == "CharacterLiteral" and literal(x) in (",", 44)) or (x["k"] == "StringLiteral" and str(literal(x)).strip() == ",")]
            for sp in seps:
                guard = None
                for a_ in f.ancestors(sp):
                    if a_["i"] == lp["i"]:
                        break
                    if a_["k"] == "IfStmt" and any(y["k"] == "DeclRefExpr" and y.get("d") == ivd for y in walk(kids(a_)[0])):
                        guard = a_
                        break
                if guard is None:
                    continue
                g = noid(render(kids(guard)[0], False)).replace(" ", "")
                # substitute single-definition integer locals (lastArg = argCount - 1)
                for y in walk(kids(guard)[0]):
                    if y["k"] == "DeclRefExpr" and y.get("loc") and y.get("d") != ivd:
                        ds = [d_ for d_ in defs.get(y["d"], []) if d_["k"] == "VarDecl" and kids(d_)]
                        if len(ds) == 1:
                            g = g.replace(y.get("n", "\0"), noid(render(kids(ds[0])[0], False)).replace(" ", ""))
                i_ = iv[0]["n"]
                before = {"%s" % i_, "(%s)" % i_, "(%s>0)" % i_, "(%s!=0)" % i_, "(0<%s)" % i_, "(%s>=1)" % i_}
                after = {"(%s<(%s-1))" % (i_, count), "((%s+1)<%s)" % (i_, count), "(%s!=(%s-1))" % (i_, count), "((%s+1)!=%s)" % (i_, count), "(%s<%s-1)" % (i_, count)}
                ok = g in before or g in after
                n6 += 1
                R.ob("C15-R6", ok, f.q, "separator under `%s`" % g[:50], f.site(sp),
                     "between every two elements" if ok else
                     "the separator is printed under `%s` (loop over %s elements): some pair of neighbouring elements is printed without a `,` between them - the text is another token stream and does not parse back" % (g, count))
    if n6 < 2:
        raise AnalysisBroken("list printers: only %d guarded separators found" % n6)

    # ---- R5: printing is read-only on the node AND on what is printed ----------------------------------------------------------------------
    for f in sorted(prog.funcs.values(), key=lambda f: f.q):
        if not f.q.endswith("Node::print") or not f.q.startswith(L) or f.d.get("tmpl") == "inst":
            continue
        cls = f.d.get("cls", "")
        copies = {}
        for v in f.walk():
            if v["k"] != "VarDecl" or not kids(v):
                continue
            t = f.type(v).strip()
            if t.startswith("const ") or t.endswith("&") or t.endswith("*"):
                continue
            src = [x for x in walk(kids(v)[0]) if x["k"] == "MemberExpr" and x.get("fcls") == cls]
            if src and not any(is_call(x) and x["k"] != "CXXConstructExpr" for x in walk(kids(v)[0])):
                copies[v["d"]] = (v, src[0])
        edited = None
        for x in f.walk():
            if is_call(x) and x["k"] in ("CXXMemberCallExpr", "CXXOperatorCallExpr"):
                obj = call_object(x) if x["k"] == "CXXMemberCallExpr" else (kids(x)[1] if len(kids(x)) > 1 else None)
                root = obj
                while root is not None and strip(root)["k"] == "MemberExpr" and kids(strip(root)):
                    root = kids(strip(root))[0]
                if root is not None and strip(root)["k"] == "DeclRefExpr" and strip(root).get("d") in copies:
                    name = (callee(x) or "").split("::")[-1]
                    if x["k"] == "CXXOperatorCallExpr" and x.get("op") == "<<":
                        continue
                    if name in ("clear", "erase", "remove", "pop_back", "resize", "add", "addFirst", "swap", "push_back", "insert") or (x["k"] == "CXXOperatorCallExpr" and x.get("op") in ("=", "+=", "-=")):
                        edited = (x, copies[strip(root)["d"]])
            tg = write_target(x)
            if tg is not None:
                root = strip(tg)
                while root["k"] == "MemberExpr" and kids(root):
                    root = strip(kids(root)[0])
                if root["k"] == "DeclRefExpr" and root.get("d") in copies and x["k"] != "VarDecl":
                    edited = (x, copies[root["d"]])
        R.ob("C15-R5", edited is None, f.q, "print streams the stored fields", f.site(edited[0]) if edited else "%s:%d" % (f.relfile, f.d["line"]),
             "no field is copied and edited before printing" if edited is None else
             "print() edits a copy of `%s` (%s) and streams the copy: the printed text names something else than the node stores - for a cast type `unsigned` / `long` are qualifiers too, (unsigned char) x is printed (char) x" %
             (edited[1][1].get("n", "?").split("::")[-1], noid(render(edited[0], False))[:60]), nontrivial=False)

    # order: binary prints left before right, ternary check ? true : false
    order = [noid(render(x, False)) for ch, n in chains for x in [None] if False]
    tp = prog.fn(L + "ternaryOpNode::print")
    seq = []
    for n in tp.walk():
        if n["k"] == "CXXOperatorCallExpr" and n.get("op") == "<<":
            par = tp.parent.get(n["i"])
            if par is not None and par["k"] == "CXXOperatorCallExpr" and par.get("op") == "<<" and strip(kids(par)[1]) is n:
                continue
            seq += [noid(render(x, False)) for x in stream_chain(n)[1:]]
    names = [s for s in seq if "Value" in s]
    ok = [s.split("->")[-1].rstrip(")") for s in names] == ["checkValue", "trueValue", "falseValue"] and any(literal_q in "".join(seq) for literal_q in ("?",)) and ":" in "".join(seq)
    R.ob("C15-R3", ok, tp.q, "ternary printed as check ? true : false", "%s:%d" % (tp.relfile, tp.d["line"]), "children in source order: %s" % names)
    for ch, n in chains:
        vals = [c_.split("->")[-1].rstrip(")") for c_ in ch if "Value" in c_]
        R.ob("C15-R3", vals == ["leftValue", "rightValue"], bp.q, "binary prints left then right", bp.site(n), "operand order %s" % vals)

    # ---- R4 --------------------------------------------------------------------------
    pp = prog.fn(L + "parenthesesNode::print")
    seq = []
    for n in pp.walk():
        if n["k"] == "CXXOperatorCallExpr" and n.get("op") == "<<":
            par = pp.parent.get(n["i"])
            if par is not None and par["k"] == "CXXOperatorCallExpr" and par.get("op") == "<<" and strip(kids(par)[1]) is n:
                continue
            seq += [x for x in stream_chain(n)[1:]]
    lits = [literal(x) for x in seq]
    ok = len(seq) >= 3 and lits[0] in (40, "(") and lits[-1] in (41, ")") and any("this->value" in noid(render(x, False)) for x in seq[1:-1])
    R.ob("C15-R4", ok, pp.q, "prints '(' value ')'", "%s:%d" % (pp.relfile, pp.d["line"]), "explicit grouping survives printing")
    # a printer that writes its own `(`...`)` around an operand must not do so when the operand is a parenthesesNode (which prints its own pair):
    # otherwise every print -> parse cycle adds a pair and the re-parsed tree never equals the printed one
    for f in prog.funcs.values():
        if f.d.get("tmpl") == "inst" or not f.q.startswith(L) or not f.q.endswith("::print") or f.q == pp.q:
            continue
        for n in f.walk():
            if n["k"] == "CXXOperatorCallExpr" and n.get("op") == "<<":
                par = f.parent.get(n["i"])
                if par is not None and par["k"] == "CXXOperatorCallExpr" and par.get("op") == "<<" and strip(kids(par)[1]) is n:
                    continue
                ch = stream_chain(n)[1:]
                lits = [literal(o) for o in ch]
                opens = [i for i, v in enumerate(lits) if isinstance(v, str) and v.endswith("(") and len(v) > 1 and v[:-1].isalpha()]
                for i in opens:
                    if i + 1 < len(ch) and "this->value" in noid(render(ch[i + 1], False)):
                        fs = {(noid(k).replace(" ", ""), pol) for (k, pol) in f.cfg.facts_at(n)}
                        guarded = any((not pol) and "exprNodeType::parentheses" in k for (k, pol) in fs)
                        R.ob("C15-R4", guarded, f.q, "keyword( operand ) only when the operand is not parenthesised itself", f.site(n),
                             "no second pair around a parenthesesNode" if guarded else
                             "`%s` is printed around an operand that may already be a parenthesised expression: %s(a) prints as %s((a)), one more pair on every print" % (lits[i], lits[i][:-1], lits[i][:-1]))


META = {
    "technique": "table-driven adjacency analysis (longest-match tokenisation of every prefix-operator pair computed from the repository's operator table) checked against the printers' stream chains: every separator-free path from operator to operand is enumerated and decided per fusing pair from its branch facts (three-valued); sibling rule over all expression node classes (stored children vs printed children); shared escape-symmetry checks",
    "level": "Static decision that wherever two prefix operators written apart would fuse into another token under the tokenizer's longest-match rule the printer separates them, that binary operators are printed with separators "
             "(only member/scope operators tight), that string and character literals are escaped invertibly with agreeing delimiters, that each of the expression node classes prints every child it stores in source order, and that "
             "explicit parentheses are printed exactly once, and that no printer edits a copy of a stored field before streaming it. These hold for every parsed program; the tests print a fixed set of expressions.",
    "note": "Does not decide evaluation equivalence of printed programs nor statement/declaration printers (value-level / not anchored to a finite table). An outside dynamic probe (DESIGN 10.9, probes/P15) found printer / parser defects no rule here reports: a cast followed by `(` or a sign is mis-parsed, adjacent string literals are merged textually, literal prefixes and raw strings are dropped, a declaration used as a condition prints a stray `;` (the sizeof finding was fixed and is decided by C15-R4).",
}
