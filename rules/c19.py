"""C19 - @dim array access computes the documented linear index (structural clauses).

 R1  PAREN: every index argument and every dimension expression is embedded parenthesised in the mixed-radix fold
 R2  the fold walks the ordered indices from last to first, taking index argument and dimension with the same subscript (order[i]);
     @dimOrder is validated as a permutation (range and duplicate guards), argument count is checked against the dimension count
"""
from vlib.facts import kids, strip, walk, is_call, call_args, call_object, callee, render, literal, noid
from vlib.paren import Paren, ANY, CLEAN
from vlib.cfg import write_target
from vlib.work import AnalysisBroken

UNITS = ["src/occa/internal/lang/builtins/attributes/dim.cpp", "src/occa/internal/lang/operator.cpp", "src/occa/internal/lang/expr/expr.cpp"]
D = "occa::lang::attributes::dim::"


def dim_sources(f, e):
    if e["k"] == "CXXOperatorCallExpr" and e.get("op") == "[]":
        txt = noid(render(kids(e)[1], False))
        if txt.endswith("call.args"):
            return ANY
    if e["k"] == "MemberExpr" and e.get("n", "").endswith("::expr") and "dimAttr.args" in noid(render(e, False)):
        return ANY
    if e["k"] == "MemberExpr" and e.get("n", "").endswith("callNode::value"):
        return CLEAN   # callee position of the user's call: a postfix-expression
    return None


def run(ctx):
    R = ctx.R
    prog = ctx.program(UNITS, thorough_all=False)
    R.explanation = ("Decides that the @dim rewrite embeds every index argument and dimension parenthesised, pairs index and dimension through the same order[] subscript from last to first, and validates @dimOrder as a permutation. "
                     "Does not decide bijectivity (arithmetic).")
    R.rule("C19-R1", "index arguments and dimensions embedded only parenthesised", floor=4)
    R.rule("C19-R2", "fold pairs args and dims by the same ordered subscript; order validated", floor=7)

    ac = prog.fn(D + "applyCodeTransformations")
    lams = [prog.funcs[n["lam"]] for n in ac.walk() if n["k"] == "LambdaExpr" and n["lam"] in prog.funcs]
    fold = [l for l in lams if any(n["k"] == "VarDecl" and n["n"] == "index" for n in l.walk())]
    if len(fold) != 1:
        raise AnalysisBroken("dim::applyCodeTransformations: the fold lambda was not found")
    f = fold[0]

    def rep(ok, node, key, detail):
        R.ob("C19-R1", ok, ac.q, key, f.site(node), detail)
    n = Paren(prog, f, dim_sources, rep).run()
    if n < 4:
        raise AnalysisBroken("dim fold: only %d operand slots analysed" % n)

    # ---- R2 --------------------------------------------------------------------------
    loops = [x for x in f.walk() if x["k"] == "ForStmt" and any(y["k"] == "VarDecl" and y["n"] == "orderIndex" for y in walk(x))]
    if len(loops) != 1:
        raise AnalysisBroken("dim fold loop not found")
    lp = loops[0]
    init, cond, inc = noid(render(kids(lp)[0], False)), noid(render(kids(lp)[1], False)), noid(render(kids(lp)[2], False))
    ok = "(dimCount - 2)" in init and ">= 0" in cond and "--" in inc
    R.ob("C19-R2", ok, ac.q, "fold runs from the second-last ordered index down to 0", f.site(lp), "for (i = dimCount-2; i >= 0; --i)")
    first = [x for x in f.walk() if x["k"] == "VarDecl" and x["n"] == "index"]
    ok = len(first) == 1 and noid(render(first[0], False)).replace(" ", "").endswith("call.args[order[(dimCount-1)]]")
    R.ob("C19-R2", ok, ac.q, "fold starts with the last ordered index", f.site(first[0]), noid(render(first[0], False)))
    oi = [x for x in walk(lp) if x["k"] == "VarDecl" and x["n"] == "orderIndex"]
    ok = len(oi) == 1 and noid(render(oi[0], False)).replace(" ", "").endswith("order[i]")
    argd = [x for x in walk(lp) if x["k"] == "VarDecl" and x["n"] == "arg"]
    dimd = [x for x in walk(lp) if x["k"] == "VarDecl" and x["n"] == "dim"]
    ok = ok and len(argd) == 1 and len(dimd) == 1 and "call.args[orderIndex]" in noid(render(argd[0], False)) and "dimAttr.args[orderIndex]" in noid(render(dimd[0], False))
    R.ob("C19-R2", ok, ac.q, "index argument and dimension taken with the same ordered subscript", f.site(oi[0]) if oi else f.site(lp), "arg = call.args[order[i]], dim = dimAttr.args[order[i]]")
    upd = [x for x in walk(lp) if x["k"] == "CXXOperatorCallExpr" and x.get("op") == "=" and noid(render(kids(x)[1], False)) == "index"]
    ok = len(upd) == 1
    if ok:
        t = noid(render(kids(upd[0])[2], False))
        ok = "+" in t and "*" in t and "arg" in t and "dim" in t and "index" in t
    R.ob("C19-R2", ok, ac.q, "step: index = arg + dim * index", f.site(upd[0]) if upd else f.site(lp), "mixed-radix fold")
    chk = [c for c in f.walk() if is_call(c) and callee(c) == D + "callHasValidIndices"]
    R.ob("C19-R2", len(chk) == 1, ac.q, "argument count checked against the dimension count", f.site(chk[0]) if chk else f.relfile, "callHasValidIndices before the fold")
    hv = prog.fn(D + "callHasValidIndices")
    rets = [r for r in hv.walk() if r["k"] == "ReturnStmt" and literal(kids(r)[0]) is True]
    ok = len(rets) == 1 and any(pol and noid(k).replace(" ", "") == "(dimCount==argCount)" for (k, pol) in hv.cfg.facts_at(rets[0]))
    R.ob("C19-R2", ok, hv.q, "valid iff dimCount == argCount", "%s:%d" % (hv.relfile, hv.d["line"]), "only an exact match is accepted")
    dv = prog.fn("occa::lang::attributes::dimOrder::isValid")
    txt = noid(render(dv.body, False))
    rng = any(x["k"] == "BinaryOperator" and x.get("op") == "||" and "< 0" in noid(render(x, False)) and "argCount <=" in noid(render(x, False)) for x in dv.walk())
    R.ob("C19-R2", rng, dv.q, "@dimOrder entries range-checked", "%s:%d" % (dv.relfile, dv.d["line"]), "0 <= entry < argCount")
    dup = False
    for x in dv.walk():
        if x["k"] == "IfStmt" and strip(kids(x)[0])["k"] == "ArraySubscriptExpr" and noid(render(kids(x)[0], False)).startswith("order["):
            rejects = any(r["k"] == "ReturnStmt" and literal(kids(r)[0]) is False for r in walk(kids(x)[1]))
            sub = noid(render(kids(strip(kids(x)[0]))[1], False))
            marks = any(write_target(w) is not None and noid(render(strip(write_target(w)), False)) == "order[%s]" % sub and literal(kids(w)[1]) == 1 and dv.cfg.before(x, w) for w in dv.walk())
            dup = rejects and marks
    R.ob("C19-R2", dup, dv.q, "@dimOrder duplicates rejected", "%s:%d" % (dv.relfile, dv.d["line"]), "a seen-table: an entry already marked is an error, then it is marked")
    go = prog.fn(D + "getDimOrder")
    ok = any(x["k"] == "CXXOperatorCallExpr" and x.get("op") == "=" and False for x in go.walk()) or "order[i]" in noid(render(go.body, False)) and "dimOrderAttr.args[i]" in noid(render(go.body, False))
    R.ob("C19-R2", ok, go.q, "order[i] = dimOrder argument i", "%s:%d" % (go.relfile, go.d["line"]), "order vector filled positionally")


META = {
    "technique": "PAREN abstract interpretation over the @dim fold (operator-top sets, repository precedence table) plus subscript-agreement and guard facts",
    "level": "Static decision that in the @dim rewrite every index argument and every dimension expression reaches `+` and `*` only parenthesised - for whatever operators the user's arguments contain - that index and dimension are paired "
             "through the same order[] subscript from the last ordered index down to the first, and that @dimOrder is validated (range, duplicates) and the argument count matches the dimension count.",
    "note": "Does not decide bijectivity onto [0, D0*...*Dk) (arithmetic).",
}
