"""C19 - @dim array access computes the documented linear index (structural clauses).

 R1  PAREN: every index argument and every dimension expression is embedded parenthesised in the mixed-radix fold
 R2  the fold walks the ordered indices from last to first, taking index argument and dimension with the same subscript (order[i]);
     @dimOrder is validated as a permutation (range and duplicate guards), argument count is checked against the dimension count
"""
from vlib.facts import decl_of, kids, strip, walk, is_call, call_args, call_object, callee, render, literal, noid
from vlib.paren import Paren, ANY, CLEAN
from vlib.cfg import write_target
from vlib.work import AnalysisBroken
from vlib.exprterm import Builder, TermError, NF, Poly, normal_form, show, member_chain, dsl_soundness

UNITS = ["src/occa/internal/lang/parser.cpp", "src/occa/internal/lang/expr/exprNodeArray.cpp", "src/occa/internal/lang/builtins/attributes/dim.cpp", "src/occa/internal/lang/operator.cpp", "src/occa/internal/lang/expr/expr.cpp"]
D = "occa::lang::attributes::dim::"


def dim_sources(f, e):
    if e["k"] == "CXXOperatorCallExpr" and e.get("op") == "[]":
        txt = noid(render(kids(e)[1], False))
        if txt.endswith("call.args"):
            return ANY
    if e["k"] == "MemberExpr" and e.get("n", "").endswith("::expr") and "dimAttr.args" in noid(render(e, False)):
        return ANY
    if e["k"] == "MemberExpr" and e.get("n", "").endswith("callNode::value"):
        return CLEAN   # callee position of the user's call: a postfix-expression
    return None


def run(ctx):
    R = ctx.R
    prog = ctx.program(UNITS, thorough_all=False)
    R.explanation = ("Decides that the @dim rewrite embeds every index argument and dimension parenthesised, pairs index and dimension through the same order[] subscript from last to first, and validates @dimOrder as a permutation. "
                     "Does not decide bijectivity (arithmetic).")
    R.rule("C19-R1", "index arguments and dimensions embedded only parenthesised", floor=4)
    R.rule("C19-R2", "fold pairs args and dims by the same ordered subscript; order validated", floor=7)

    ac = prog.fn(D + "applyCodeTransformations")
    lams = [prog.funcs[n["lam"]] for n in ac.walk() if n["k"] == "LambdaExpr" and n["lam"] in prog.funcs]
    fold = [l for l in lams if any(n["k"] == "ForStmt" for n in l.walk()) and any(is_call(n) and callee(n) == D + "callHasValidIndices" for n in l.walk())]
    if len(fold) != 1:
        raise AnalysisBroken("dim::applyCodeTransformations: the fold lambda was not found")
    f = fold[0]

    def rep(ok, node, key, detail):
        R.ob("C19-R1", ok, ac.q, key, f.site(node), detail)
    n = Paren(prog, f, dim_sources, rep).run()
    if n < 4:
        raise AnalysisBroken("dim fold: only %d operand slots analysed" % n)

    # ---- R2: closed form of the rewritten subscript for 1..4 dimensions (TERM) ------------------------------------------------------
    def conts(bn):
        r_, ch = member_chain(f, bn)
        if ch and ch[-1].endswith("callNode::args"):
            return "arg"
        if ch and ch[-1].endswith("attributeToken_t::args"):
            return "dim"
        if bn["k"] == "DeclRefExpr" and bn.get("loc") and ("intVector" in f.type(bn) or "vector<int" in f.type(bn)):
            return "order"
        return None

    def fb(e):
        t = noid(render(e, False)).replace(" ", "")
        if "exprNodeType::variable" in t:
            return True                       # the called thing is a variable
        if ".end()" in t and e.get("op") in ("==", "!="):
            return e["op"] == "!="            # the variable has @dim (and @dimOrder): both lookups succeed
        if "callHasValidIndices" in t or "getDimOrder" in t:
            return True                       # validated call, validated order
        return None
    for K in (1, 2, 3, 4):
        holder = {}

        def src(e, K=K, holder=holder):
            if e["k"] == "MemberExpr" and e.get("n", "").endswith("callNode::value"):
                return ("s", "array")
            if e["k"] == "MemberExpr" and e.get("n", "").endswith("attributeArg_t::expr") and kids(e):
                return holder["b"].ev(kids(e)[0])       # the expression stored in that attribute argument
            if e["k"] == "CXXMemberCallExpr" and callee(e).endswith("::size") and call_object(e) is not None and conts(strip(call_object(e))) == "arg":
                return ("c", K)
            return None
        try:
            holder["b"] = Builder(prog, f, {}, {}, {}, sym_sources=src, cond_fallback=fb, container_sources=conts)
            t = holder["b"].result()
            if t[0] != "[]":
                raise TermError("the rewrite does not return a subscript expression: %s" % show(t))
            got = normal_form(t[2])
        except TermError as e:
            raise AnalysisBroken("dim fold, %d dimension(s): not reducible to a closed form: %s" % (K, e))
        # documented index for the ordered subscripts o_k = order[k]:  sum_k arg[o_k] * prod_{j<k} dim[o_j]
        want = Poly.const(0)
        for k in range(K):
            m = Poly.sym("arg[order[%d]]" % k)
            for j in range(k):
                m = m * Poly.sym("dim[order[%d]]" % j)
            want = want + m
        ok = t[1] == ("s", "array") and got == NF(want)
        R.ob("C19-R2", ok, ac.q, "closed form of the subscript, %d dimension(s)" % K, f.site(kids(f.d["body"])[0]) if kids(f.d["body"]) else f.relfile,
             "x(...) -> x[%r]" % got if ok else
             "x(...) is rewritten to %s = %r, the documented mixed-radix index is %r: some index lands on another element (not a bijection onto [0, D0*...*Dk))" % (show(t), got, want))
    R.rule("C19-R3", "the expression DSL the fold is written in builds what its operators say (a + b -> `+` node, parens -> wrapInParentheses, a[b] -> subscript)", floor=15)
    dsl_soundness(prog, lambda ok, fn, key, site, detail: R.ob("C19-R3", ok, fn, key, site, detail))

    # ---- the rewrite is part of every backend's pipeline: parser_t::parseTokens runs it between loading and the backend's afterParsing() ----
    from vlib.flow import must_pass_through
    R.rule("C19-R4", "every parse runs the @dim rewrite between loading the statements and the backend transformations, and its failure stops the parse", floor=3)
    pt = prog.fn("occa::lang::parser_t::parseTokens")
    load = [c for c in pt.calls() if callee(c).endswith("parser_t::loadAllStatements")]
    if len(load) != 1:
        raise AnalysisBroken("parser_t::parseTokens: loadAllStatements call not found")
    r = must_pass_through(pt, load[0], lambda c: callee(c).endswith("::afterParsing"), lambda c: callee(c) == "occa::lang::attributes::dim::applyCodeTransformations")
    if r is None:
        raise AnalysisBroken("parser_t::parseTokens: afterParsing not reachable from loadAllStatements")
    R.ob("C19-R4", r, pt.q, "pipeline:loadAllStatements -> @dim rewrite -> afterParsing", pt.site(load[0]),
         "no path reaches the backend transformations without the rewrite" if r else "a path from loadAllStatements reaches afterParsing() without the @dim rewrite: the backend sees the untransformed code")
    vc = [c for c in pt.calls() if callee(c) == "occa::lang::attributes::dim::applyCodeTransformations"]
    kept = bool(vc) and all(any(write_target(a) is not None and noid(render(strip(write_target(a)), False)).endswith("success") and any(x["i"] == c["i"] for x in walk(a)) for a in pt.walk()) for c in vc)
    R.ob("C19-R4", kept, pt.q, "pipeline:rewrite result folded into `success`", pt.site(vc[0]) if vc else pt.relfile, "a failed rewrite fails the parse" if kept else "the result of the rewrite is dropped")
    ov = [o.q for o in prog.overriders("occa::lang::parser_t::parseTokens") if o.q != pt.q]
    R.ob("C19-R4", not ov, pt.q, "pipeline:not overridden", "%s:%d" % (pt.relfile, pt.d["line"]), "one pipeline for all backends" if not ov else "overridden by %s" % ov)
    # ---- R5: nested accesses x(y(i, j), k): the inner access is visited first and must already be replaced when the outer one is expanded --------
    R.rule("C19-R5", "the in-place map splices each rewritten node into the tree before the next node is handed to the rewrite (nested @dim accesses)", floor=2)
    uses = [c for c in ac.calls() if callee(c).endswith("::inplaceMap")]
    R.ob("C19-R5", len(uses) == 1, ac.q, "nested:the rewrite runs through inplaceMap over the flat (children first) call list", ac.site(uses[0]) if uses else ac.relfile, "flatFilterByExprType(call).inplaceMap(...)")
    for mq in ("occa::lang::exprNodeArray::inplaceMap",):
        im = prog.fn(mq)
        fpar = im.d["params"][0]["d"]
        bodies = [im] + [prog.funcs[n["lam"]] for n in im.walk() if n["k"] == "LambdaExpr" and n["lam"] in prog.funcs]
        ok, site = False, "%s:%d" % (im.relfile, im.d["line"])
        for b in bodies:
            results = [v for v in b.walk() if v["k"] == "VarDecl" and kids(v) and any(x["k"] == "CXXOperatorCallExpr" and x.get("op") == "()" and any(y["k"] == "DeclRefExpr" and y.get("d") == fpar for y in walk(x)) for x in walk(kids(v)[0]))]
            reps = [c for c in b.walk() if is_call(c) and callee(c).endswith("::replaceExprNode")]
            if results and reps:
                site = b.site(reps[0])
                ok = any(decl_of(call_args(c)[1]) == results[0]["d"] for c in reps if len(call_args(c)) == 2)
        R.ob("C19-R5", ok, mq, "nested:callback result spliced in the same visit", site,
             "func(node) and replaceExprNode(node, result) happen in one visit, children before parents" if ok else
             "the callbacks run over all nodes before any replacement is applied: expanding x(y(i, j), k) clones the not yet rewritten y(i, j), and that stale copy replaces the rewritten one - the inner access is left as a call")

    chk = [c for c in f.walk() if is_call(c) and callee(c) == D + "callHasValidIndices"]
    R.ob("C19-R2", len(chk) == 1, ac.q, "argument count checked against the dimension count", f.site(chk[0]) if chk else f.relfile, "callHasValidIndices before the fold")
    hv = prog.fn(D + "callHasValidIndices")
    rets = [r for r in hv.walk() if r["k"] == "ReturnStmt" and literal(kids(r)[0]) is True]
    ok = len(rets) == 1 and any(pol and noid(k).replace(" ", "") == "(dimCount==argCount)" for (k, pol) in hv.cfg.facts_at(rets[0]))
    R.ob("C19-R2", ok, hv.q, "valid iff dimCount == argCount", "%s:%d" % (hv.relfile, hv.d["line"]), "only an exact match is accepted")
    dv = prog.fn("occa::lang::attributes::dimOrder::isValid")
    txt = noid(render(dv.body, False))
    rng = any(x["k"] == "BinaryOperator" and x.get("op") == "||" and "< 0" in noid(render(x, False)) and "argCount <=" in noid(render(x, False)) for x in dv.walk())
    R.ob("C19-R2", rng, dv.q, "@dimOrder entries range-checked", "%s:%d" % (dv.relfile, dv.d["line"]), "0 <= entry < argCount")
    dup = False
    for x in dv.walk():
        if x["k"] == "IfStmt" and strip(kids(x)[0])["k"] == "ArraySubscriptExpr" and noid(render(kids(x)[0], False)).startswith("order["):
            rejects = any(r["k"] == "ReturnStmt" and literal(kids(r)[0]) is False for r in walk(kids(x)[1]))
            sub = noid(render(kids(strip(kids(x)[0]))[1], False))
            marks = any(write_target(w) is not None and noid(render(strip(write_target(w)), False)) == "order[%s]" % sub and literal(kids(w)[1]) == 1 and dv.cfg.before(x, w) for w in dv.walk())
            dup = rejects and marks
    R.ob("C19-R2", dup, dv.q, "@dimOrder duplicates rejected", "%s:%d" % (dv.relfile, dv.d["line"]), "a seen-table: an entry already marked is an error, then it is marked")
    go = prog.fn(D + "getDimOrder")
    ok = any(x["k"] == "CXXOperatorCallExpr" and x.get("op") == "=" and False for x in go.walk()) or "order[i]" in noid(render(go.body, False)) and "dimOrderAttr.args[i]" in noid(render(go.body, False))
    R.ob("C19-R2", ok, go.q, "order[i] = dimOrder argument i", "%s:%d" % (go.relfile, go.d["line"]), "order vector filled positionally")


META = {
    "technique": "PAREN abstract interpretation over the @dim fold (operator-top sets, repository precedence table); TERM: abstract execution of the fold for 1..4 dimensions to the closed form of the subscript, compared in polynomial normal form with the documented mixed-radix index; re-verified trusted base (expr DSL operators); must-pass-through of the rewrite in parser_t::parseTokens; same-visit splice of the in-place map; guard facts of the @dimOrder validator",
    "level": "Static decision that in the @dim rewrite every index argument and every dimension expression reaches `+` and `*` only parenthesised - for whatever operators the user's arguments contain - that index and dimension are paired "
             "through the same order[] subscript from the last ordered index down to the first, that the closed form of the rewritten subscript for 1..4 dimensions is the documented mixed-radix index over the ordered subscripts, that @dimOrder is validated (range, duplicates) and the argument count matches the dimension count, that every parse runs the rewrite before the backend transformations, and that a nested access x(y(i, j), k) is rewritten inside out (each result spliced in the same visit).",
    "note": "Does not decide bijectivity onto [0, D0*...*Dk) (arithmetic).",
}
