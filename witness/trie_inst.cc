// Witness TU for C28: explicitly instantiates every member of occa::trie so that the extractor
// sees fully resolved bodies (the repository only instantiates the members it happens to use).
#include <occa/internal/utils/trie.hpp>
template class occa::trie<int>;
