#!/bin/bash
# build.sh name  -> builds name.cpp to name
set -e
n=$1
g++ -std=c++17 -g -I/tmp/wt3_P12/include -I/tmp/wt3_P12/_build/include -I/tmp/wt3_P12/src /tmp/seed_out/P12/$n.cpp -o /tmp/seed_out/P12/$n -L/tmp/wt3_P12/_build/lib -locca -Wl,-rpath,/tmp/wt3_P12/_build/lib -fopenmp -ldl
