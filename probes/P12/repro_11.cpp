// P12 finding 11: outside literals a backslash swallows the following byte: "a \b c" silently loses "\b",
// and "a\bc" is ONE identifier whose value contains the backslash.
//---[ helpers (copy of tk.hpp) ]---
// Shared helpers for P12 tokenizer tests
#include <string>
#include <vector>
#include <sstream>
#include <iostream>
#include <cstdio>
#include <cstdlib>
#include <cstring>
#include <unistd.h>
#include <sys/wait.h>

#include <occa/internal/lang/tokenizer.hpp>
#include <occa/internal/lang/token.hpp>
#include <occa/internal/lang/operator.hpp>

using namespace occa;
using namespace occa::lang;

struct Tok {
  std::string kind;   // id, prim, op, char, str, comment, nl, unknown
  std::string value;  // canonical value
  int enc = 0;
  std::string udf;
  std::string ptype;  // primitive type / value string
  bool operator==(const Tok &o) const {
    return kind == o.kind && value == o.value && enc == o.enc && udf == o.udf && ptype == o.ptype;
  }
  bool operator!=(const Tok &o) const { return !(*this == o); }
  std::string show() const {
    std::stringstream ss;
    ss << kind << "[" << value << "]";
    if (enc) ss << "{enc=" << enc << "}";
    if (udf.size()) ss << "{udf=" << udf << "}";
    if (ptype.size()) ss << "{" << ptype << "}";
    return ss.str();
  }
};

static inline std::string primDesc(const primitive &p) {
  std::stringstream ss;
  ss << "t" << p.type << ":";
  primitive q = p;
  q.source = "";
  ss << q.toString();
  return ss.str();
}

static inline Tok describe(token_t *t) {
  Tok r;
  int type = t->type();
  if (type & tokenType::identifier) {
    r.kind = "id"; r.value = t->to<identifierToken>().value;
  } else if (type & tokenType::primitive) {
    primitiveToken &p = t->to<primitiveToken>();
    r.kind = "prim"; r.value = p.strValue; r.ptype = primDesc(p.value);
  } else if (type & tokenType::op) {
    r.kind = "op"; r.value = t->to<operatorToken>().op->str;
  } else if (type & tokenType::char_) {
    charToken &c = t->to<charToken>();
    r.kind = "char"; r.value = c.value; r.enc = c.encoding; r.udf = c.udf;
  } else if (type & tokenType::string) {
    stringToken &c = t->to<stringToken>();
    r.kind = "str"; r.value = c.value; r.enc = c.encoding; r.udf = c.udf;
  } else if (type & tokenType::comment) {
    r.kind = "comment"; r.value = t->to<commentToken>().value;
  } else if (type & tokenType::newline) {
    r.kind = "nl";
  } else {
    r.kind = "unknown";
    r.value = t->str();
  }
  return r;
}

// Tokenize a NUL-terminated source held in a std::string
static inline std::vector<Tok> lexAll(const std::string &src,
                                      std::vector<std::string> *printed = NULL,
                                      bool keepNewlines = false) {
  std::vector<Tok> out;
  tokenVector tokens = tokenizer_t::tokenize(src);
  for (token_t *t : tokens) {
    Tok d = describe(t);
    if (d.kind == "nl" && !keepNewlines) { delete t; continue; }
    out.push_back(d);
    if (printed) printed->push_back(t->str());
    delete t;
  }
  return out;
}

static inline std::string showAll(const std::vector<Tok> &v) {
  std::string s;
  for (auto &t : v) { s += t.show(); s += " "; }
  return s;
}

// Run fn in a forked child with a timeout (seconds). Returns:
//  0 ok, >0 exit code, -sig for signal, -1000 for timeout
template <class F>
static inline int runForked(F fn, int timeoutSec = 5, bool quiet = true) {
  fflush(stdout); fflush(stderr);
  pid_t pid = fork();
  if (pid == 0) {
    if (quiet) { FILE *f = freopen("/dev/null", "w", stderr); (void) f; }
    alarm(timeoutSec);
    int rc = fn();
    fflush(stdout);
    _exit(rc);
  }
  int st = 0;
  waitpid(pid, &st, 0);
  if (WIFSIGNALED(st)) {
    if (WTERMSIG(st) == SIGALRM) return -1000;
    return -WTERMSIG(st);
  }
  return WEXITSTATUS(st);
}
//---[ end helpers ]---
int main() {
  int bad = 0;
  std::vector<Tok> t = lexAll("a \\b c");
  printf("\"a \\b c\" -> %s\n", showAll(t).c_str());
  if (t.size() < 3) { printf("  bytes \"\\b\" vanished without a token or an error\n"); ++bad; }
  t = lexAll("a\\bc d");
  printf("\"a\\bc d\" -> %s\n", showAll(t).c_str());
  for (auto &k : t) if (k.kind == "id" && k.value.find('\\') != std::string::npos) { printf("  identifier value contains a backslash\n"); ++bad; }
  printf(bad ? "FAIL\n" : "PASS\n");
  return bad != 0;
}
