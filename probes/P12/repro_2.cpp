// P12 finding 2: a numeric literal that spans a newline ("1e+\n5") leaves the tokenizer with
// lineStart > start; the next token carries that origin and any diagnostic on it throws
// std::length_error (std::string(-1, ' ')) -> std::terminate.  Reproduced through the parser too.
//---[ helpers (copy of tk.hpp) ]---
// Shared helpers for P12 tokenizer tests
#include <string>
#include <vector>
#include <sstream>
#include <iostream>
#include <cstdio>
#include <cstdlib>
#include <cstring>
#include <unistd.h>
#include <sys/wait.h>

#include <occa/internal/lang/tokenizer.hpp>
#include <occa/internal/lang/token.hpp>
#include <occa/internal/lang/operator.hpp>

using namespace occa;
using namespace occa::lang;

struct Tok {
  std::string kind;   // id, prim, op, char, str, comment, nl, unknown
  std::string value;  // canonical value
  int enc = 0;
  std::string udf;
  std::string ptype;  // primitive type / value string
  bool operator==(const Tok &o) const {
    return kind == o.kind && value == o.value && enc == o.enc && udf == o.udf && ptype == o.ptype;
  }
  bool operator!=(const Tok &o) const { return !(*this == o); }
  std::string show() const {
    std::stringstream ss;
    ss << kind << "[" << value << "]";
    if (enc) ss << "{enc=" << enc << "}";
    if (udf.size()) ss << "{udf=" << udf << "}";
    if (ptype.size()) ss << "{" << ptype << "}";
    return ss.str();
  }
};

static inline std::string primDesc(const primitive &p) {
  std::stringstream ss;
  ss << "t" << p.type << ":";
  primitive q = p;
  q.source = "";
  ss << q.toString();
  return ss.str();
}

static inline Tok describe(token_t *t) {
  Tok r;
  int type = t->type();
  if (type & tokenType::identifier) {
    r.kind = "id"; r.value = t->to<identifierToken>().value;
  } else if (type & tokenType::primitive) {
    primitiveToken &p = t->to<primitiveToken>();
    r.kind = "prim"; r.value = p.strValue; r.ptype = primDesc(p.value);
  } else if (type & tokenType::op) {
    r.kind = "op"; r.value = t->to<operatorToken>().op->str;
  } else if (type & tokenType::char_) {
    charToken &c = t->to<charToken>();
    r.kind = "char"; r.value = c.value; r.enc = c.encoding; r.udf = c.udf;
  } else if (type & tokenType::string) {
    stringToken &c = t->to<stringToken>();
    r.kind = "str"; r.value = c.value; r.enc = c.encoding; r.udf = c.udf;
  } else if (type & tokenType::comment) {
    r.kind = "comment"; r.value = t->to<commentToken>().value;
  } else if (type & tokenType::newline) {
    r.kind = "nl";
  } else {
    r.kind = "unknown";
    r.value = t->str();
  }
  return r;
}

// Tokenize a NUL-terminated source held in a std::string
static inline std::vector<Tok> lexAll(const std::string &src,
                                      std::vector<std::string> *printed = NULL,
                                      bool keepNewlines = false) {
  std::vector<Tok> out;
  tokenVector tokens = tokenizer_t::tokenize(src);
  for (token_t *t : tokens) {
    Tok d = describe(t);
    if (d.kind == "nl" && !keepNewlines) { delete t; continue; }
    out.push_back(d);
    if (printed) printed->push_back(t->str());
    delete t;
  }
  return out;
}

static inline std::string showAll(const std::vector<Tok> &v) {
  std::string s;
  for (auto &t : v) { s += t.show(); s += " "; }
  return s;
}

// Run fn in a forked child with a timeout (seconds). Returns:
//  0 ok, >0 exit code, -sig for signal, -1000 for timeout
template <class F>
static inline int runForked(F fn, int timeoutSec = 5, bool quiet = true) {
  fflush(stdout); fflush(stderr);
  pid_t pid = fork();
  if (pid == 0) {
    if (quiet) { FILE *f = freopen("/dev/null", "w", stderr); (void) f; }
    alarm(timeoutSec);
    int rc = fn();
    fflush(stdout);
    _exit(rc);
  }
  int st = 0;
  waitpid(pid, &st, 0);
  if (WIFSIGNALED(st)) {
    if (WTERMSIG(st) == SIGALRM) return -1000;
    return -WTERMSIG(st);
  }
  return WEXITSTATUS(st);
}
//---[ end helpers ]---
#include <occa/internal/lang/modes/serial.hpp>
int main() {
  int bad = 0;
  const std::string src = "int x = 1e+\n5$;\n";
  tokenVector tokens = tokenizer_t::tokenize(src);
  for (token_t *t : tokens) {
    const filePosition &p = t->origin.position;
    if (p.lineStart > p.start) {
      printf("token %s has lineStart %ld bytes AFTER its start (column %ld)\n", describe(t).show().c_str(),
             (long) (p.lineStart - p.start), (long) (p.start - p.lineStart + 1));
      ++bad;
    }
  }
  int rc = runForked([&]() { for (token_t *t : tokens) t->printError("diagnostic"); return 0; }, 20);
  if (rc != 0) { printf("printing a diagnostic on each token died: rc=%d (%s)\n", rc, rc == -6 ? "SIGABRT" : "other"); ++bad; }
  rc = runForked([&]() {
    occa::lang::okl::serialParser parser;
    parser.parseSource("@kernel void f() { int x = 1e+\n5$; }\n");
    return 0;
  }, 20);
  if (rc != 0) { printf("serialParser::parseSource died: rc=%d (%s)\n", rc, rc == -6 ? "SIGABRT" : "other"); ++bad; }
  printf(bad ? "FAIL\n" : "PASS\n");
  return bad != 0;
}
