// @tile + launcher back ends: the work-group size put into __launch_bounds__ / reqd_work_group_size is scraped from the printed iteration count (first digit run), and a tile size without a digit 1-9 aborts the translation
// build+run:
//   g++ -std=c++17 -g -I/tmp/wt3_P17/include -I/tmp/wt3_P17/_build/include -I/tmp/wt3_P17/src /tmp/seed_out/P17/repro_3.cpp -o /tmp/seed_out/P17/repro_3 \
//       -L/tmp/wt3_P17/_build/lib -locca -Wl,-rpath,/tmp/wt3_P17/_build/lib -fopenmp -ldl && OCCA_CACHE_DIR=/tmp/seed_out/P17/cache /tmp/seed_out/P17/repro_3

#include <occa/internal/lang/modes/cuda.hpp>
#include <occa/internal/lang/modes/opencl.hpp>
#include <iostream>
#include <string>
#include <cstdlib>

template <class P>
static int declaredGroupSize(const std::string &loopHeader, const std::string &key) {
  const std::string src = "@kernel void k(const int N, const int B, int *out) {\n  " + loopHeader + " {\n    out[0] = 1;\n  }\n}\n";
  try {
    occa::json props;
    P parser(props);
    parser.parseSource(src);
    if (!parser.succeeded()) return -1;
    const std::string dev = parser.toString();
    size_t p = dev.find(key);
    if (p == std::string::npos) return 0; // no bound declared: fine
    return atoi(dev.c_str() + p + key.size());
  } catch (std::exception &e) {
    std::cout << "  exception: " << std::string(e.what()).substr(0, 400) << "\n";
    return -2;
  }
}

int main() {
  int bad = 0;
  struct { const char *header; int expect; } cases[] = {
    {"for (int i = 0; i < N; ++i; @tile(16, @outer, @inner))", 16},      // reference: fine
    {"for (int i2 = 0; i2 < N; ++i2; @tile(16, @outer, @inner))", 16},   // iterator name contains a digit
    {"for (int i = 0; i < N; ++i; @tile(4 * 4, @outer, @inner))", 16},   // constant expression
    {"for (int i = 0; i < N; ++i; @tile(0x20, @outer, @inner))", 32},    // hexadecimal literal
    {"for (int i = 0; i < N; ++i; @tile(B + 1, @outer, @inner))", 0},    // run-time size: no bound can be declared
    {"for (int i = 0; i < N; ++i; @tile(B, @outer, @inner))", 0},        // run-time size without any digit
  };
  for (auto &c : cases) {
    const int cu = declaredGroupSize<occa::lang::okl::cudaParser>(c.header, "__launch_bounds__(");
    const int cl = declaredGroupSize<occa::lang::okl::openclParser>(c.header, "reqd_work_group_size(");
    const bool ok = (cu == c.expect) && (cl == c.expect);
    std::cout << (ok ? "ok   " : "BAD  ") << c.header << "  -> __launch_bounds__=" << cu << " reqd_work_group_size.x=" << cl
              << " (threads per block actually launched: " << (c.expect ? std::to_string(c.expect) : std::string("run-time value")) << ")\n";
    bad += !ok;
  }
  std::cout << (bad ? "FAIL" : "PASS") << "\n";
  return bad ? 1 : 0;
}
