// Launcher back ends: 'i += -2' / 'j -= -1' (negative step written through += / -=) is accepted but the ceil-division count formula assumes a positive step and over-counts (rejecting such a header would also be a fix)
// build+run:
//   g++ -std=c++17 -g -I/tmp/wt3_P17/include -I/tmp/wt3_P17/_build/include -I/tmp/wt3_P17/src /tmp/seed_out/P17/repro_8.cpp -o /tmp/seed_out/P17/repro_8 \
//       -L/tmp/wt3_P17/_build/lib -locca -Wl,-rpath,/tmp/wt3_P17/_build/lib -fopenmp -ldl && OCCA_CACHE_DIR=/tmp/seed_out/P17/cache /tmp/seed_out/P17/repro_8

#include <occa/internal/lang/modes/cuda.hpp>
#include <occa/internal/lang/modes/serial.hpp>
#include <cstdio>
#include <cstdlib>
#include <fstream>
#include <iostream>
#include <string>
#include <unistd.h>

// Minimal CUDA-like execution model: the launcher source is compiled against this
// shim instead of <occa/core/kernel.hpp>; kernel(...) runs the device function once per
// (block, thread) exactly as cuLaunchKernel would (blockIdx / threadIdx are unsigned int).
static const char *SHIM = R"SHIM(
#include <cstdio>
#include <cstring>
#include <cstdint>
#include <cstddef>
#define OUTN 4100
#define OOB 4096
#define BADLAUNCH 4097
struct uint3 { unsigned int x, y, z; };
static uint3 blockIdx, threadIdx;
namespace occa {
  typedef uint64_t udim_t;
  struct modeMemory_t;
  struct modeKernel_t { void (*fn)(const int, const int, const int, int *); };
  struct dim { int dims; udim_t x, y, z; dim() : dims(0), x(1), y(1), z(1) {}
               udim_t& operator [] (int i) { return i == 0 ? x : (i == 1 ? y : z); } };
  struct kernel {
    modeKernel_t *mk; dim o, in;
    kernel(modeKernel_t *m) : mk(m) {}
    void setRunDims(dim a, dim b) { o = a; in = b; }
    void operator () (const int &A, const int &B, const int &C, modeMemory_t *out_) {
      int *out = (int*) out_;
      if (!(o.x && o.y && o.z) || !(in.x && in.y && in.z)) return;       // modeKernel_t::isNoop()
      const udim_t lim = 65536;                                           // anything larger is a bogus launch here
      if (o.x > lim || o.y > lim || o.z > lim || in.x > 1024 || in.y > 1024 || in.z > 1024) { out[BADLAUNCH] += 1; return; }
      for (udim_t bz = 0; bz < o.z; ++bz) for (udim_t by = 0; by < o.y; ++by) for (udim_t bx = 0; bx < o.x; ++bx)
      for (udim_t tz = 0; tz < in.z; ++tz) for (udim_t ty = 0; ty < in.y; ++ty) for (udim_t tx = 0; tx < in.x; ++tx) {
        blockIdx.x = bx; blockIdx.y = by; blockIdx.z = bz; threadIdx.x = tx; threadIdx.y = ty; threadIdx.z = tz;
        mk->fn(A, B, C, out);
      }
    }
  };
}
#define __global__
#define __launch_bounds__(x)
static inline void rec(int *out, long i, long j) {
  if (i >= -16 && i < 48 && j >= -16 && j < 48) out[(i + 16) * 64 + (j + 16)] += 1; else out[OOB] += 1;
}
)SHIM";

static std::string stripIncludes(const std::string &s) {
  std::string out; size_t p = 0;
  while (p < s.size()) {
    size_t e = s.find('\n', p); if (e == std::string::npos) e = s.size();
    std::string line = s.substr(p, e - p);
    if (line.find("#include") == std::string::npos) out += line + "\n";
    p = e + 1;
  }
  return out;
}

// returns 0 = identical iteration sets, 1 = mismatch, 2 = infrastructure problem
static int simulate(const std::string &okl, const std::string &refBody, const std::string &grid, const std::string &tag, const bool rejectionIsPass = false) {
  occa::json props;
  occa::lang::okl::cudaParser parser(props);
  parser.parseSource(okl);
  if (!parser.succeeded()) { std::cout << "translation failed / loop rejected\n"; return rejectionIsPass ? 0 : 1; }
  const std::string dev = parser.toString();
  const std::string host = stripIncludes(parser.launcherParser.toString());
  int nk = 0;
  while (dev.find("_occa_kern_" + std::to_string(nk) + "(") != std::string::npos) ++nk;
  std::string table;
  for (int k = 0; k < nk; ++k) table += std::string(k ? ", " : "") + "{_occa_kern_" + std::to_string(k) + "}";
  const std::string dir = "/tmp/seed_out/P17/repro_tmp";
  (void) system(("mkdir -p " + dir).c_str());
  const std::string src = dir + "/" + tag + ".cpp", exe = dir + "/" + tag + ".exe";
  {
    std::ofstream f(src.c_str());
    f << SHIM << "\n// ---- device (as emitted)\n" << dev << "\n// ---- launcher (as emitted)\n" << host
      << "\nstatic void ref_kern(const int A, const int B, const int C, int *out) {\n" << refBody << "\n}\n"
      << "int main() {\n  static int ref[OUTN], got[OUTN]; int bad = 0;\n" << grid
      << "  for (int A : GA) for (int B : GB) for (int C : GC) {\n"
         "    memset(ref, 0, sizeof(ref)); memset(got, 0, sizeof(got));\n"
         "    ref_kern(A, B, C, ref);\n"
         "    occa::modeKernel_t mk[] = {" << table << "}; occa::modeKernel_t *mkp[" << nk << "];\n"
         "    for (int q = 0; q < " << nk << "; ++q) mkp[q] = &mk[q];\n"
         "    kern(mkp, A, B, C, (occa::modeMemory_t*) got);\n"
         "    for (int k = 0; k < OUTN; ++k) if (ref[k] != got[k]) {\n"
         "      if (bad < 8) printf(\"  A=%d B=%d C=%d: cell (i=%d, j=%d) executed %d time(s), sequential loop %d time(s)%s\\n\", A, B, C, k / 64 - 16, k % 64 - 16, got[k], ref[k], k == BADLAUNCH ? \" [launch with absurd dimensions]\" : (k == OOB ? \" [iterator far out of range]\" : \"\"));\n"
         "      ++bad; break;\n"
         "    }\n"
         "  }\n  return bad ? 1 : 0;\n}\n";
  }
  if (system(("g++ -std=c++17 -O0 -w " + src + " -o " + exe).c_str()) != 0) { std::cout << "could not compile the emitted code\n"; return 2; }
  const int rc = system(("timeout 30 " + exe).c_str());
  return rc == 0 ? 0 : 1;
}

int main() {
  const std::string okl = R"OKL(
@kernel void kern(const int A, const int B, const int C, int *out) {
  for (int i = 30; i > 20; i += -2; @outer) {
    for (int j = 30; j < C + 30; j -= -1; @inner) {
      const long ii_ = i; const long jj_ = j;
      if (ii_ >= -16 && ii_ < 48 && jj_ >= -16 && jj_ < 48) { out[(ii_ + 16) * 64 + (jj_ + 16)] += 1; } else { out[4096] += 1; }
    }
  }
}
)OKL";
  const std::string ref = R"REF(
  for (int i = 30; i > 20; i += -2) for (int j = 30; j < C + 30; j -= -1) rec(out, i, j);
)REF";
  const std::string grid = R"G(
static const int GA[] = {1}; static const int GB[] = {1}; static const int GC[] = {2, 4};
)G";
  std::cout << "OKL source:" << okl << "\n";
  const int rc = simulate(okl, ref, grid, "repro_8", true);
  if (rc == 0) { std::cout << "PASS\n"; return 0; }
  std::cout << "FAIL\n";
  return 1;
}
