// A loop with compile-time bounds whose iteration count does not fit in int is rejected as 'empty or infinite' (count truncated to int) - all back ends
// build+run:
//   g++ -std=c++17 -g -I/tmp/wt3_P17/include -I/tmp/wt3_P17/_build/include -I/tmp/wt3_P17/src /tmp/seed_out/P17/repro_7.cpp -o /tmp/seed_out/P17/repro_7 \
//       -L/tmp/wt3_P17/_build/lib -locca -Wl,-rpath,/tmp/wt3_P17/_build/lib -fopenmp -ldl && OCCA_CACHE_DIR=/tmp/seed_out/P17/cache /tmp/seed_out/P17/repro_7

#include <occa/internal/lang/modes/serial.hpp>
#include <occa/internal/lang/modes/openmp.hpp>
#include <iostream>
#include <string>

int main() {
  int bad = 0;
  const char *headers[] = {
    "for (long i = 0; i < 4294967296; ++i; @outer)",   // 2^32 iterations -> (int) 0
    "for (long i = 0; i < 3000000000; ++i; @outer)",   // -> negative int
    "for (long i = 0; i < 2147483647; ++i; @outer)",   // reference (fits): accepted
  };
  for (const char *h : headers) {
    const std::string src = std::string("@kernel void k(char *out) {\n  ") + h +
                            " {\n    for (int j = 0; j < 2; ++j; @inner) { out[i] = j; }\n  }\n}\n";
    occa::json props;
    occa::lang::okl::openmpParser parser(props);
    parser.parseSource(src);
    std::cout << (parser.success ? "accepted: " : "REJECTED: ") << h << "\n";
    bad += !parser.success;
  }
  std::cout << (bad ? "FAIL" : "PASS") << "\n";
  return bad ? 1 : 0;
}
