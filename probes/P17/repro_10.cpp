// sizeof(<type>) cannot be used in any expression ('Unable to apply operator'); '2 * sizeof(int)' is even accepted and printed as '*sizeof((int) 2)'
// build+run:
//   g++ -std=c++17 -g -I/tmp/wt3_P17/include -I/tmp/wt3_P17/_build/include -I/tmp/wt3_P17/src /tmp/seed_out/P17/repro_10.cpp -o /tmp/seed_out/P17/repro_10 \
//       -L/tmp/wt3_P17/_build/lib -locca -Wl,-rpath,/tmp/wt3_P17/_build/lib -fopenmp -ldl && OCCA_CACHE_DIR=/tmp/seed_out/P17/cache /tmp/seed_out/P17/repro_10

#include <occa/internal/lang/modes/serial.hpp>
#include <iostream>
#include <string>

static bool translates(const std::string &src, std::string &out) {
  occa::json props;
  occa::lang::okl::serialParser parser(props);
  parser.parseSource(src);
  out = parser.success ? parser.toString() : "";
  return parser.success;
}

int main() {
  int bad = 0;
  std::string out;
  if (!translates("@kernel void k(const int N, char *out) {\n  for (int i = sizeof(int); i < N; i += sizeof(int); @outer) {\n"
                  "    for (int j = 0; j < 4; ++j; @inner) { out[i + j] = 0; }\n  }\n}\n", out)) {
    std::cout << "rejected: for (int i = sizeof(int); i < N; i += sizeof(int); @outer)\n"; ++bad;
  }
  if (translates("@kernel void k(const int N, char *out, char *x @dim(N, 8)) {\n  for (int i = 0; i < N; ++i; @outer) {\n"
                 "    for (int j = 0; j < 4; ++j; @inner) { out[i] = x(i, sizeof(int)); }\n  }\n}\n", out)) {
    if (out.find("x[") == std::string::npos) {
      std::cout << "'out[i] = x(i, sizeof(int));' (x has @dim(N, 8)) was translated to:\n" << out.substr(out.find("out[i]"), 50) << "\n"; ++bad;
    }
  } else { std::cout << "rejected: x(i, sizeof(int))\n"; ++bad; }
  if (translates("@kernel void k(const int N, char *out, char *x @dim(N, 8)) {\n  for (int i = 0; i < N; ++i; @outer) {\n"
                 "    for (int j = 0; j < 4; ++j; @inner) { x(i, sizeof(int)) = 1; }\n  }\n}\n", out)) {
    if (out.find("x[") == std::string::npos) {
      std::cout << "'x(i, sizeof(int)) = 1;' (x has @dim(N, 8)) was accepted and translated to:\n" << out.substr(out.find("(x,"), 40) << "\n"; ++bad;
    }
  } else { std::cout << "rejected: x(i, sizeof(int)) = 1\n"; ++bad; }
  if (translates("@kernel void k(const int N, char *out) {\n  for (int i = 0; i < N; ++i; @outer) {\n"
                 "    for (int j = 0; j < 4; ++j; @inner) { out[i] = 2 * sizeof(int); }\n  }\n}\n", out)) {
    if (out.find("2 * sizeof(int)") == std::string::npos) {
      std::cout << "'out[i] = 2 * sizeof(int);' was translated to:\n" << out.substr(out.find("out[i]"), 40) << "\n"; ++bad;
    }
  } else { std::cout << "rejected: 2 * sizeof(int)\n"; ++bad; }
  std::cout << (bad ? "FAIL" : "PASS") << "\n";
  return bad ? 1 : 0;
}
