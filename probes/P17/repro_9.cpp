// @tile on a descending loop with an unsigned (size_t) iterator: the block iterator and the in-block bound '(_occa_tiled_j - T)' wrap below zero when the trip count is not a multiple of T -> iterations lost, then out-of-range iterator values / endless block loop (Serial, OpenMP; the launcher back ends execute the body with j = 2^64-1)
// build+run:
//   g++ -std=c++17 -g -I/tmp/wt3_P17/include -I/tmp/wt3_P17/_build/include -I/tmp/wt3_P17/src /tmp/seed_out/P17/repro_9.cpp -o /tmp/seed_out/P17/repro_9 \
//       -L/tmp/wt3_P17/_build/lib -locca -Wl,-rpath,/tmp/wt3_P17/_build/lib -fopenmp -ldl && OCCA_CACHE_DIR=/tmp/seed_out/P17/cache /tmp/seed_out/P17/repro_9

#include <occa/internal/lang/modes/serial.hpp>
#include <cstdlib>
#include <fstream>
#include <iostream>
#include <string>

int main() {
  const std::string okl =
    "@kernel void kern(const int N, int *out) {\n"
    "  for (int i = 0; i < 1; ++i; @outer) {\n"
    "    for (size_t j = N; j > 0; --j; @tile(3, @inner)) {\n"
    "      if (j < 64) { out[j] += 1; } else { out[64] += 1; }\n"
    "    }\n"
    "  }\n"
    "}\n";
  std::cout << okl;
  occa::json props;
  occa::lang::okl::serialParser parser(props);
  parser.parseSource(okl);
  if (!parser.success) { std::cout << "translation failed\nFAIL\n"; return 1; }
  const std::string dir = "/tmp/seed_out/P17/repro_tmp";
  (void) system(("mkdir -p " + dir).c_str());
  {
    std::ofstream f((dir + "/repro_9.cpp").c_str());
    f << "#include <cstdio>\n#include <cstddef>\n" << parser.toString() <<
      "\nint main() {\n"
      "  int bad = 0;\n"
      "  for (int N = 0; N <= 7; ++N) {\n"
      "    static int out[65]; for (int k = 0; k < 65; ++k) out[k] = 0;\n"
      "    kern(N, out);\n"
      "    for (int k = 0; k < 65; ++k) { const int want = (k >= 1 && k <= N); if (out[k] != want) { printf(\"  N=%d: j=%d%s executed %d time(s), expected %d\\n\", N, k, k == 64 ? \"(out of range)\" : \"\", out[k], want); ++bad; } }\n"
      "  }\n"
      "  return bad ? 1 : 0;\n}\n";
  }
  if (system(("g++ -std=c++17 -O0 -w " + dir + "/repro_9.cpp -o " + dir + "/repro_9.exe").c_str())) { std::cout << "emitted code does not compile\nFAIL\n"; return 1; }
  const int rc = system(("timeout 10 " + dir + "/repro_9.exe").c_str());
  if (rc) std::cout << "(exit status " << rc << ": 31744 = timeout i.e. the block loop never terminates)\n";
  std::cout << (rc ? "FAIL" : "PASS") << "\n";
  return rc ? 1 : 0;
}
