// A binary operator followed by a prefix operator (a * -b, a - -1, a + ~b, a - !b, a * *p) is rejected: 'Unable to form an expression'
// build+run:
//   g++ -std=c++17 -g -I/tmp/wt3_P17/include -I/tmp/wt3_P17/_build/include -I/tmp/wt3_P17/src /tmp/seed_out/P17/repro_1.cpp -o /tmp/seed_out/P17/repro_1 \
//       -L/tmp/wt3_P17/_build/lib -locca -Wl,-rpath,/tmp/wt3_P17/_build/lib -fopenmp -ldl && OCCA_CACHE_DIR=/tmp/seed_out/P17/cache /tmp/seed_out/P17/repro_1

#include <occa/internal/lang/modes/serial.hpp>
#include <iostream>
#include <string>

static bool translates(const std::string &src, std::string &out) {
  occa::json props;
  occa::lang::okl::serialParser parser(props);
  parser.parseSource(src);
  out = parser.success ? parser.toString() : "";
  return parser.success;
}

int main() {
  int bad = 0;
  std::string out;
  // (a) loop headers (C17): initializer, bound and step with a prefix operator after a binary one
  const char *headers[] = {
    "for (int i = N - -3; i < M; ++i; @outer)",
    "for (int i = 0; i < N * -M; ++i; @outer)",
    "for (int i = 0; i < N + ~M; i += M - -1; @outer)",
    "for (int i = N; i > M - !N; --i; @outer)",
  };
  for (const char *h : headers) {
    std::string src = std::string("@kernel void k(const int N, const int M, int *out) {\n  ") + h +
                      " {\n    for (int j = 0; j < 4; ++j; @inner) { out[j] = i; }\n  }\n}\n";
    if (!translates(src, out)) { std::cout << "rejected valid loop header: " << h << "\n"; ++bad; }
  }
  // (b) @dim index arguments (C19)
  const char *accesses[] = { "x(i, j - -1)", "x(i * -1 + 3, j)", "x(i + ~j + 9, j)", "x(i, 2 * *p)" };
  for (const char *a : accesses) {
    std::string src = std::string("@kernel void k(const int N, const int M, int *out, const int *p, int *x @dim(N, M)) {\n"
                                  "  for (int i = 0; i < N; ++i; @outer) {\n    for (int j = 0; j < M; ++j; @inner) {\n      ") + a +
                      " = 1;\n    }\n  }\n}\n";
    if (!translates(src, out)) { std::cout << "rejected valid @dim access: " << a << "\n"; ++bad; }
  }
  // (c) plain C
  if (!translates("int f(int a, int b) { return a * -b; }\n@kernel void k(int *o) { for (int i = 0; i < 1; ++i; @outer) { for (int j = 0; j < 1; ++j; @inner) { o[0] = f(i, j); } } }\n", out)) {
    std::cout << "rejected: return a * -b;\n"; ++bad;
  }
  std::cout << (bad ? "FAIL" : "PASS") << "\n";
  return bad ? 1 : 0;
}
