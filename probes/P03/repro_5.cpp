// repro_5: zero-length slices. resize()/setAlignment() rewrite the offsets of the elements
// of the ordered reservation set in place; two zero-length slices that used to sit at
// different offsets are both packed to the same offset, which breaks the std::set ordering
// (tie is broken by pointer value). A later release cannot find its entry and erases end().
#include <occa.hpp>
#include <occa/internal/core/memory.hpp>
#include <occa/internal/core/memoryPool.hpp>
#include <cstdio>
#include <unistd.h>
#include <sys/wait.h>

static int run(bool swapOrder) {
  occa::device dev({{"mode", "Serial"}});
  occa::memoryPool pool = dev.createMemoryPool();
  occa::memory r = pool.reserve(128, occa::dtype::byte);
  occa::memory z1, z2;
  // the two creation orders give the two possible pointer orders
  if (swapOrder) { z2 = r.slice(2, 0); z1 = r.slice(1, 0); }
  else           { z1 = r.slice(1, 0); z2 = r.slice(2, 0); }
  r = occa::memory();
  pool.setAlignment(64);           // packs both empty slices to offset 0
  occa::modeMemoryPool_t *mp = pool.getModeMemoryPool();
  int bad = 0;
  occa::modeMemoryPool_t::compare cmp; occa::modeMemory_t *prev = nullptr;
  for (occa::modeMemory_t *m : mp->reservations) {
    if (prev && !cmp(prev, m)) { printf("  reservation set is out of order: (%ld,%zu) before (%ld,%zu)\n", (long) prev->offset, (size_t) prev->size, (long) m->offset, (size_t) m->size); bad = 1; }
    prev = m;
  }
  if (mp->reservations.find(z1.getModeMemory()) == mp->reservations.end() ||
      mp->reservations.find(z2.getModeMemory()) == mp->reservations.end()) { printf("  a live slice cannot be found in the set\n"); bad = 1; }
  fflush(stdout);
  z1 = occa::memory(); z2 = occa::memory();   // erase(end()) when the lookup fails
  if (pool.numReservations() != 0) { printf("  numReservations()=%zu after releasing everything\n", (size_t) pool.numReservations()); bad = 1; }
  return bad;
}
static int forked(bool b) {
  fflush(stdout);
  pid_t p = fork();
  if (p == 0) { int r = run(b); fflush(stdout); _exit(r); }
  int st; waitpid(p, &st, 0);
  if (WIFSIGNALED(st)) { printf("  child died with signal %d\n", WTERMSIG(st)); return 1; }
  return WEXITSTATUS(st) != 0;
}
int main() {
  int bad = forked(false) | forked(true);
  puts(bad ? "FAIL" : "PASS");
  return bad;
}
