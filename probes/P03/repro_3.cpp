// repro_3: reserve() compares the unrounded request against size(), so when size() is not a
// multiple of the alignment (setAlignment on a pool without reservations keeps the old size)
// the reservation's aligned footprint exceeds the pool: size() < reserved().
#include <occa.hpp>
#include <cstdio>

int main() {
  int bad = 0;
  occa::device dev({{"mode", "Serial"}});
  occa::memoryPool pool = dev.createMemoryPool();
  pool.resize(256);
  pool.setAlignment(512);
  occa::memory m = pool.reserve(44, occa::dtype::byte);
  printf("size=%zu reserved=%zu alignment=%zu\n", (size_t) pool.size(), (size_t) pool.reserved(), (size_t) pool.alignment());
  if (pool.size() < pool.reserved()) { printf("size() < reserved()\n"); bad = 1; }
  try { pool.resize(pool.size()); }   // a no-op resize to the current size
  catch (occa::exception &e) { printf("resize(size()) raises: %s\n", e.message.c_str()); bad = 1; }
  puts(bad ? "FAIL" : "PASS");
  return bad;
}
