// repro_1: packing a pool (resize / shrinkToFit / growth inside reserve) gives every
// byte-disjoint slice its own alignment cell, so the packed layout needs more bytes than
// reserved(); the new buffer is sized from reserved() -> reservations land outside the pool
// (heap buffer overflow), size() < reserved().
#include <occa.hpp>
#include <occa/internal/core/memory.hpp>
#include <cstdio>
#include <cstring>
#include <unistd.h>
#include <sys/wait.h>

static int scenarioShrink() {
  occa::device dev({{"mode", "Serial"}});
  occa::memoryPool pool = dev.createMemoryPool();   // alignment 128
  pool.resize(256);
  occa::memory r  = pool.reserve(128, occa::dtype::byte);
  occa::memory s1 = r.slice(0, 10);
  occa::memory s2 = r.slice(20, 10);
  r = occa::memory();                               // release the parent, slices stay live
  // reserved()==128, size()==256
  pool.shrinkToFit();                               // new buffer of 128 bytes; s2 is copied to offset 128
  long off = s2.getModeMemory()->offset;
  printf("shrinkToFit: size=%zu reserved=%zu s2=[%ld,%ld)\n", (size_t) pool.size(), (size_t) pool.reserved(), off, off + 10);
  int bad = 0;
  if ((size_t) (off + 10) > pool.size()) { printf("  s2 lies outside the pool buffer\n"); bad = 1; }
  if (pool.size() < pool.reserved())     { printf("  size() < reserved()\n"); bad = 1; }
  return bad;
}

static int scenarioReserve() {
  occa::device dev({{"mode", "Serial"}});
  occa::memoryPool pool = dev.createMemoryPool();
  occa::memory r  = pool.reserve(128, occa::dtype::byte);
  occa::memory s1 = r.slice(0, 10);
  occa::memory s2 = r.slice(20, 10);
  r = occa::memory();
  occa::memory n = pool.reserve(128, occa::dtype::byte);  // pool full -> grows to 256 and packs
  long off = n.getModeMemory()->offset;
  printf("reserve: size=%zu reserved=%zu new=[%ld,%ld)\n", (size_t) pool.size(), (size_t) pool.reserved(), off, off + 128);
  int bad = 0;
  if ((size_t) (off + 128) > pool.size()) { printf("  new reservation lies outside the pool buffer\n"); bad = 1; }
  if (pool.size() < pool.reserved())      { printf("  size() < reserved()\n"); bad = 1; }
  return bad;
}

static int forked(int (*f)()) {
  fflush(stdout);
  pid_t p = fork();
  if (p == 0) { int r = f(); fflush(stdout); _exit(r); }
  int st; waitpid(p, &st, 0);
  if (WIFSIGNALED(st)) { printf("  child died with signal %d\n", WTERMSIG(st)); return 1; }
  return WEXITSTATUS(st) != 0;
}

int main() {
  int bad = forked(scenarioShrink) | forked(scenarioReserve);
  puts(bad ? "FAIL" : "PASS");
  return bad;
}
