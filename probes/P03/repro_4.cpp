// repro_4: memoryPool::reserve<void>(n) / reserve(n) (default template argument) is not
// declared as an explicit specialisation in the public header, so user code instantiates the
// generic template with dtype::get<void>() (0 bytes per entry): a 0-byte reservation, and a
// NULL dereference on a pool that has no buffer yet.
#include <occa.hpp>
#include <cstdio>
#include <unistd.h>
#include <sys/wait.h>

static int onUsedPool() {
  occa::device dev({{"mode", "Serial"}});
  occa::memoryPool pool = dev.createMemoryPool();
  pool.resize(1024);
  occa::memory keep = pool.reserve<char>(10);
  occa::memory m = pool.reserve(44);       // same call shape as device.malloc(44)
  printf("reserve(44): byte_size=%zu (expected 44, device.malloc(44) gives %zu)\n",
         (size_t) m.byte_size(), (size_t) dev.malloc(44).byte_size());
  return m.byte_size() != 44;
}
static int onFreshPool() {
  occa::device dev({{"mode", "Serial"}});
  occa::memoryPool pool = dev.createMemoryPool();
  occa::memory m = pool.reserve<void>(44);
  printf("fresh pool reserve<void>(44): byte_size=%zu\n", (size_t) m.byte_size());
  return m.byte_size() != 44;
}
static int forked(int (*f)()) {
  fflush(stdout);
  pid_t p = fork();
  if (p == 0) { int r = f(); fflush(stdout); _exit(r); }
  int st; waitpid(p, &st, 0);
  if (WIFSIGNALED(st)) { printf("  child died with signal %d\n", WTERMSIG(st)); return 1; }
  return WEXITSTATUS(st) != 0;
}
int main() {
  int bad = forked(onUsedPool) | forked(onFreshPool);
  puts(bad ? "FAIL" : "PASS");
  return bad;
}
