// repro_2: removeModeMemoryRef() subtracts the overlap with the first partially overlapping
// neighbour instead of the part that is no longer covered -> reserved() drifts, does not
// return to 0 and can underflow.
#include <occa.hpp>
#include <cstdio>
#include <unistd.h>
#include <sys/wait.h>

int main() {
  setvbuf(stdout, NULL, _IONBF, 0);
  int bad = 0;
  occa::device dev({{"mode", "Serial"}});
  {
    occa::memoryPool pool = dev.createMemoryPool();      // alignment 128
    occa::memory r = pool.reserve(300, occa::dtype::byte); // [0,300) -> 3 cells, reserved 384
    occa::memory s = r.slice(257, 3);                     // cell [256,384)
    r = occa::memory();                                   // only the slice is live: 1 cell
    printf("A: reserved=%zu (expected 128) n=%zu\n", (size_t) pool.reserved(), (size_t) pool.numReservations());
    if (pool.reserved() != 128) bad = 1;
    s = occa::memory();
    printf("A: after releasing everything reserved=%zu (expected 0)\n", (size_t) pool.reserved());
    if (pool.reserved() != 0) bad = 1;
  }
  {
    occa::memoryPool pool = dev.createMemoryPool();
    occa::memory r = pool.reserve(384, occa::dtype::byte); // cells [0,384)
    occa::memory s = r.slice(0, 200);                     // cells [0,256)
    r = occa::memory();
    printf("B: reserved=%zu (expected 256)\n", (size_t) pool.reserved());
    if (pool.reserved() != 256) bad = 1;
    s = occa::memory();
    printf("B: after releasing everything reserved=%zu (expected 0) size=%zu\n", (size_t) pool.reserved(), (size_t) pool.size());
    if (pool.reserved() != 0) bad = 1;
    if (pool.size() < pool.reserved()) { printf("B: size() < reserved()\n"); bad = 1; }
    // (with reserved() wrapped around, every later reserve()/resize() asks for ~2^64 bytes)
  }
  {
    // consequence: shrinkToFit() trusts the too-small reserved() and allocates a buffer that
    // is smaller than the live slice (heap overflow inside resize) -> run in a child
    pid_t p = fork();
    if (p == 0) {
      int b = 0;
      occa::memoryPool pool = dev.createMemoryPool();
      occa::memory r = pool.reserve(384, occa::dtype::byte);
      occa::memory s = r.slice(0, 200);
      r = occa::memory();
      pool.shrinkToFit();
      printf("C: after shrinkToFit size=%zu, live slice is 200 bytes\n", (size_t) pool.size());
      if (pool.size() < 200) b = 1;
      _exit(b);
    }
    int st; waitpid(p, &st, 0);
    if (WIFSIGNALED(st)) { printf("C: child died with signal %d\n", WTERMSIG(st)); bad = 1; }
    else if (WEXITSTATUS(st)) bad = 1;
  }
  puts(bad ? "FAIL" : "PASS");
  return bad;
}
