// Tokens created by # (stringify) and ## (concat) keep origin pointers into a std::string local to
// macroStringify::expand / macroConcat::expand (via the static tokenizer_t::tokenize helper); the string is
// destroyed on return, so any diagnostic printed at such a token reads freed (or dead stack) memory
// (fileOrigin::postprint -> lex::skipTo). ASan: stack-buffer-overflow / heap-use-after-free in lex::skipTo.
//
// Build:
//   g++ -std=c++17 -g -I/tmp/wt3_P16/include -I/tmp/wt3_P16/_build/include -I/tmp/wt3_P16/src repro_21.cpp -o repro_21 \
//       -L/tmp/wt3_P16/_build/lib -locca -Wl,-rpath,/tmp/wt3_P16/_build/lib -fopenmp -ldl
//   OCCA_CACHE_DIR=/tmp/seed_out/P16/cache ./repro_21
// Prints FAIL (exit 1) while the defect is present, PASS (exit 0) once fixed.
//
// Detection without a sanitizer: the error "Unable to form an expression" is reported at the stringified token.
// The source line echoed under the message must show real source text (it contains the long run of 'a's either as
// the stringified literal or as the original line). With the defect the echoed line is whatever now occupies the
// freed buffer. A crash while printing also counts as FAIL.
#include <occa/internal/lang/modes/serial.hpp>
#include <occa.hpp>
#include <iostream>
#include <string>
#include <cstring>
#include <unistd.h>
#include <sys/wait.h>

using namespace occa::lang;

int main() {
  const std::string as(100, 'a');
  const std::string src = "#define S(x) #x\nint v = S(" + as + ") 1;\n";

  int fds[2]; if (pipe(fds)) return 2;
  pid_t pid = fork();
  if (pid == 0) {
    close(fds[0]); dup2(fds[1], 1); dup2(fds[1], 2);
    alarm(60);
    int r = 0;
    try {
      okl::serialParser parser;
      parser.parseSource(src);
      r = parser.success ? 0 : 1;
    } catch (occa::exception &e) { r = 2; }
    fflush(stdout); fflush(stderr);
    _exit(r);
  }
  close(fds[1]);
  std::string out; char buf[4096]; ssize_t n;
  while ((n = read(fds[0], buf, sizeof buf)) > 0) out.append(buf, n);
  int st = 0; waitpid(pid, &st, 0);
  if (WIFSIGNALED(st)) {
    std::cout << "FAIL: parser killed by signal " << WTERMSIG(st) << "\n";
    return 1;
  }
  const std::string msg = "Unable to form an expression";
  size_t p = out.find(msg);
  if (p == std::string::npos) {
    std::cout << "PASS (input no longer reports '" << msg << "'; nothing is printed from the token origin)\n";
    return 0;
  }
  size_t lineStart = out.find('\n', p);
  size_t lineEnd = (lineStart == std::string::npos) ? std::string::npos : out.find('\n', lineStart + 1);
  std::string echoed = (lineStart == std::string::npos) ? "" : out.substr(lineStart + 1, lineEnd - lineStart - 1);
  if (echoed.find(std::string(20, 'a')) == std::string::npos) {
    std::cout << "FAIL: the source line echoed for the stringified token is not source text (" << echoed.size()
              << " bytes read from a destroyed buffer): [";
    for (size_t i = 0; i < echoed.size() && i < 40; ++i) {
      unsigned char c = echoed[i];
      if (c >= 32 && c < 127) std::cout << c; else std::cout << "\\x" << std::hex << (int) c << std::dec;
    }
    std::cout << "]\n";
    return 1;
  }
  std::cout << "PASS\n";
  return 0;
}
