// unbalanced closing bracket in an #if expression: expressionParser pops an empty pair/operator stack
// Build:
//   g++ -std=c++17 -g -I/tmp/wt3_P16/include -I/tmp/wt3_P16/_build/include -I/tmp/wt3_P16/src repro_14.cpp -o repro_14 \
//       -L/tmp/wt3_P16/_build/lib -locca -Wl,-rpath,/tmp/wt3_P16/_build/lib -fopenmp -ldl
//   OCCA_CACHE_DIR=/tmp/seed_out/P16/cache ./repro_14
// Prints FAIL (exit 1) while the defect is present, PASS (exit 0) once fixed.
#include <occa/internal/lang/modes/serial.hpp>
#include <occa/internal/lang/modes/openmp.hpp>
#include <occa/internal/lang/modes/cuda.hpp>
#include <occa/internal/lang/modes/hip.hpp>
#include <occa/internal/lang/modes/opencl.hpp>
#include <occa/internal/lang/modes/metal.hpp>
#include <occa/internal/lang/modes/dpcpp.hpp>
#include <occa.hpp>
#include <iostream>
#include <string>
#include <cstring>
#include <unistd.h>
#include <fcntl.h>
#include <signal.h>
#include <sys/wait.h>

using namespace occa::lang;

template <class P>
static int parseSimple(const std::string &src) {
  occa::json s; s["okl/validate"] = true;
  P parser(s);
  try {
    parser.parseSource(src);
    if (!parser.success) return 1;            // errors reported: fine
    std::string out = parser.toString();
    sourceMetadata_t md; parser.setSourceMetadata(md);
    return 0;
  } catch (occa::exception &e) { return 2; }   // occa::exception: fine
}
template <class P>
static int parseLauncher(const std::string &src) {
  occa::json s; s["okl/validate"] = true;
  P parser(s);
  try {
    parser.parseSource(src);
    if (!parser.success) return 1;
    std::string out = parser.toString();
    std::string host = parser.launcherParser.toString();
    sourceMetadata_t md; parser.setSourceMetadata(md);
    return 0;
  } catch (occa::exception &e) { return 2; }
}
static int runMode(const std::string &mode, const std::string &src) {
  if (mode == "serial") return parseSimple<okl::serialParser>(src);
  if (mode == "openmp") return parseSimple<okl::openmpParser>(src);
  if (mode == "cuda")   return parseLauncher<okl::cudaParser>(src);
  if (mode == "hip")    return parseLauncher<okl::hipParser>(src);
  if (mode == "opencl") return parseLauncher<okl::openclParser>(src);
  if (mode == "metal")  return parseLauncher<okl::metalParser>(src);
  if (mode == "dpcpp")  return parseLauncher<okl::dpcppParser>(src);
  return 99;
}
// Runs one translator on src in a forked child. Returns the terminating signal (0 if it exited normally);
// the child's stderr+stdout text is returned in output.
static int runInChild(const std::string &mode, const std::string &src, std::string &output) {
  int fds[2]; if (pipe(fds)) return -1;
  pid_t pid = fork();
  if (pid == 0) {
    close(fds[0]); dup2(fds[1], 1); dup2(fds[1], 2);
    alarm(60);
    int r = runMode(mode, src);
    fflush(stdout); fflush(stderr);
    _exit(r);
  }
  close(fds[1]);
  output.clear();
  char buf[4096]; ssize_t n;
  while ((n = read(fds[0], buf, sizeof buf)) > 0) output.append(buf, n);
  close(fds[0]);
  int st = 0; waitpid(pid, &st, 0);
  if (WIFSIGNALED(st)) return WTERMSIG(st);
  return 0;
}

static const char *MODES[] = { "serial", "cuda" };
static const char *CASES[] = {
  "#if 1)\nint x;\n#endif\n",
  "#if }\n#endif\n",
  "#if (F)&)\n#endif\n"
};

int main() {
  int failures = 0;
  for (size_t c = 0; c < sizeof(CASES) / sizeof(CASES[0]); ++c) {
    for (size_t m = 0; m < sizeof(MODES) / sizeof(MODES[0]); ++m) {
      std::string out;
      int sig = runInChild(MODES[m], CASES[c], out);
      if (sig) {
        ++failures;
        std::cout << "FAIL: [" << MODES[m] << "] input #" << c << " killed by signal " << sig
                  << " (" << strsignal(sig) << ")\n  input: " << CASES[c] << "\n";
      }
    }
  }
  if (failures) { std::cout << "FAIL (" << failures << " crashing translator runs)\n"; return 1; }
  std::cout << "PASS\n";
  return 0;
}
