// unbounded recursion: ~100 KB of nested braces / if / for / struct / attribute / macro-call / namespace overflows the stack (SIGSEGV)
// Build:
//   g++ -std=c++17 -g -I/tmp/wt3_P16/include -I/tmp/wt3_P16/_build/include -I/tmp/wt3_P16/src repro_23.cpp -o repro_23 \
//       -L/tmp/wt3_P16/_build/lib -locca -Wl,-rpath,/tmp/wt3_P16/_build/lib -fopenmp -ldl
//   OCCA_CACHE_DIR=/tmp/seed_out/P16/cache ./repro_23
// Prints FAIL (exit 1) while the defect is present, PASS (exit 0) once fixed.
#include <occa/internal/lang/modes/serial.hpp>
#include <occa/internal/lang/modes/openmp.hpp>
#include <occa/internal/lang/modes/cuda.hpp>
#include <occa/internal/lang/modes/hip.hpp>
#include <occa/internal/lang/modes/opencl.hpp>
#include <occa/internal/lang/modes/metal.hpp>
#include <occa/internal/lang/modes/dpcpp.hpp>
#include <occa.hpp>
#include <iostream>
#include <string>
#include <cstring>
#include <unistd.h>
#include <fcntl.h>
#include <signal.h>
#include <sys/wait.h>

using namespace occa::lang;

template <class P>
static int parseSimple(const std::string &src) {
  occa::json s; s["okl/validate"] = true;
  P parser(s);
  try {
    parser.parseSource(src);
    if (!parser.success) return 1;            // errors reported: fine
    std::string out = parser.toString();
    sourceMetadata_t md; parser.setSourceMetadata(md);
    return 0;
  } catch (occa::exception &e) { return 2; }   // occa::exception: fine
}
template <class P>
static int parseLauncher(const std::string &src) {
  occa::json s; s["okl/validate"] = true;
  P parser(s);
  try {
    parser.parseSource(src);
    if (!parser.success) return 1;
    std::string out = parser.toString();
    std::string host = parser.launcherParser.toString();
    sourceMetadata_t md; parser.setSourceMetadata(md);
    return 0;
  } catch (occa::exception &e) { return 2; }
}
static int runMode(const std::string &mode, const std::string &src) {
  if (mode == "serial") return parseSimple<okl::serialParser>(src);
  if (mode == "openmp") return parseSimple<okl::openmpParser>(src);
  if (mode == "cuda")   return parseLauncher<okl::cudaParser>(src);
  if (mode == "hip")    return parseLauncher<okl::hipParser>(src);
  if (mode == "opencl") return parseLauncher<okl::openclParser>(src);
  if (mode == "metal")  return parseLauncher<okl::metalParser>(src);
  if (mode == "dpcpp")  return parseLauncher<okl::dpcppParser>(src);
  return 99;
}
// Runs one translator on src in a forked child. Returns the terminating signal (0 if it exited normally);
// the child's stderr+stdout text is returned in output.
static int runInChild(const std::string &mode, const std::string &src, std::string &output) {
  int fds[2]; if (pipe(fds)) return -1;
  pid_t pid = fork();
  if (pid == 0) {
    close(fds[0]); dup2(fds[1], 1); dup2(fds[1], 2);
    alarm(60);
    int r = runMode(mode, src);
    fflush(stdout); fflush(stderr);
    _exit(r);
  }
  close(fds[1]);
  output.clear();
  char buf[4096]; ssize_t n;
  while ((n = read(fds[0], buf, sizeof buf)) > 0) output.append(buf, n);
  close(fds[0]);
  int st = 0; waitpid(pid, &st, 0);
  if (WIFSIGNALED(st)) return WTERMSIG(st);
  return 0;
}

// Deeply nested input (about 100 KB) overflows the stack: every nesting construct is parsed / cloned / printed /
// destroyed by unbounded recursion and there is no depth limit.
static std::string rep(const std::string &s, int n) { std::string r; r.reserve(s.size() * n); for (int i = 0; i < n; ++i) r += s; return r; }

int main() {
  const int N = 100000;
  struct { const char *name; std::string src; } cases[] = {
    { "nested blocks  {{{...}}}",          "void f() " + rep("{", N) + rep("}", N) },
    { "nested if      if(1) if(1) ...",    "void f() { " + rep("if (1) ", N) + "; }" },
    { "nested for     for(;;) for(;;)...", "void f() { " + rep("for (;;) ", N) + "; }" },
    { "nested structs struct s { struct s { ...", rep("struct s { ", N) + "int x; " + rep("} a; ", N) },
    { "nested attribute args @dim(@dim(...", rep("@dim(", N) + "1" + rep(")", N) + " int *x;" },
    { "nested macro calls F(F(F(...",       "#define F(x) x\nint y = " + rep("F(", N) + "1" + rep(")", N) + ";" },
    { "nested namespaces",                 rep("namespace a { ", N) + "int x; " + rep("} ", N) },
  };
  int failures = 0;
  for (auto &c : cases) {
    std::string out;
    int sig = runInChild("serial", c.src, out);
    if (sig) {
      ++failures;
      std::cout << "FAIL: " << c.name << " (depth " << N << ", " << c.src.size() << " bytes) killed by signal " << sig
                << " (" << strsignal(sig) << ")\n";
    } else {
      std::cout << "ok  : " << c.name << "\n";
    }
  }
  if (failures) { std::cout << "FAIL (" << failures << " nesting shapes overflow the stack)\n"; return 1; }
  std::cout << "PASS\n";
  return 0;
}
