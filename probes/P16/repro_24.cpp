// self-including file: unbounded #include recursion (hang, unbounded memory); #pragma once is ignored
// Build:
//   g++ -std=c++17 -g -I/tmp/wt3_P16/include -I/tmp/wt3_P16/_build/include -I/tmp/wt3_P16/src repro_24.cpp -o repro_24 \
//       -L/tmp/wt3_P16/_build/lib -locca -Wl,-rpath,/tmp/wt3_P16/_build/lib -fopenmp -ldl
//   OCCA_CACHE_DIR=/tmp/seed_out/P16/cache ./repro_24
// Prints FAIL (exit 1) while the defect is present, PASS (exit 0) once fixed.
#include <occa/internal/lang/modes/serial.hpp>
#include <occa/internal/lang/modes/openmp.hpp>
#include <occa/internal/lang/modes/cuda.hpp>
#include <occa/internal/lang/modes/hip.hpp>
#include <occa/internal/lang/modes/opencl.hpp>
#include <occa/internal/lang/modes/metal.hpp>
#include <occa/internal/lang/modes/dpcpp.hpp>
#include <occa.hpp>
#include <iostream>
#include <string>
#include <cstring>
#include <unistd.h>
#include <fcntl.h>
#include <signal.h>
#include <sys/wait.h>

using namespace occa::lang;

template <class P>
static int parseSimple(const std::string &src) {
  occa::json s; s["okl/validate"] = true;
  P parser(s);
  try {
    parser.parseSource(src);
    if (!parser.success) return 1;            // errors reported: fine
    std::string out = parser.toString();
    sourceMetadata_t md; parser.setSourceMetadata(md);
    return 0;
  } catch (occa::exception &e) { return 2; }   // occa::exception: fine
}
template <class P>
static int parseLauncher(const std::string &src) {
  occa::json s; s["okl/validate"] = true;
  P parser(s);
  try {
    parser.parseSource(src);
    if (!parser.success) return 1;
    std::string out = parser.toString();
    std::string host = parser.launcherParser.toString();
    sourceMetadata_t md; parser.setSourceMetadata(md);
    return 0;
  } catch (occa::exception &e) { return 2; }
}
static int runMode(const std::string &mode, const std::string &src) {
  if (mode == "serial") return parseSimple<okl::serialParser>(src);
  if (mode == "openmp") return parseSimple<okl::openmpParser>(src);
  if (mode == "cuda")   return parseLauncher<okl::cudaParser>(src);
  if (mode == "hip")    return parseLauncher<okl::hipParser>(src);
  if (mode == "opencl") return parseLauncher<okl::openclParser>(src);
  if (mode == "metal")  return parseLauncher<okl::metalParser>(src);
  if (mode == "dpcpp")  return parseLauncher<okl::dpcppParser>(src);
  return 99;
}
// Runs one translator on src in a forked child. Returns the terminating signal (0 if it exited normally);
// the child's stderr+stdout text is returned in output.
static int runInChild(const std::string &mode, const std::string &src, std::string &output) {
  int fds[2]; if (pipe(fds)) return -1;
  pid_t pid = fork();
  if (pid == 0) {
    close(fds[0]); dup2(fds[1], 1); dup2(fds[1], 2);
    alarm(60);
    int r = runMode(mode, src);
    fflush(stdout); fflush(stderr);
    _exit(r);
  }
  close(fds[1]);
  output.clear();
  char buf[4096]; ssize_t n;
  while ((n = read(fds[0], buf, sizeof buf)) > 0) output.append(buf, n);
  close(fds[0]);
  int st = 0; waitpid(pid, &st, 0);
  if (WIFSIGNALED(st)) return WTERMSIG(st);
  return 0;
}

// A file that #includes itself (directly, with or without #pragma once) is re-opened and re-tokenized forever:
// there is no include-depth limit and #pragma once is not honoured, so parseFile never returns and memory grows
// without bound (observed: > 10 minutes, 5 GB RSS, still running).
#include <fstream>
#include <cstdlib>
#include <sys/resource.h>

int main() {
  const char *dirEnv = getenv("OCCA_CACHE_DIR");
  std::string dir = dirEnv ? dirEnv : "/tmp";
  const std::string f1 = dir + "/p16_self_include.okl";
  const std::string f2 = dir + "/p16_self_include_once.okl";
  { std::ofstream o(f1); o << "#include \"" << f1 << "\"\nint x;\n"; }
  { std::ofstream o(f2); o << "#pragma once\n#include \"" << f2 << "\"\nint y;\n"; }

  int failures = 0;
  const std::string files[] = { f1, f2 };
  for (const std::string &f : files) {
    pid_t pid = fork();
    if (pid == 0) {
      int fd = open("/dev/null", O_WRONLY); dup2(fd, 1); dup2(fd, 2);
      struct rlimit rl; rl.rlim_cur = rl.rlim_max = (rlim_t) 4 << 30; setrlimit(RLIMIT_AS, &rl);
      alarm(30);                       // a 3-line file must not need 30 s
      try {
        okl::serialParser parser;
        parser.parseFile(f);
      } catch (occa::exception &e) {}
      catch (std::bad_alloc &e) { _exit(77); }
      _exit(0);
    }
    int st = 0; waitpid(pid, &st, 0);
    if (WIFSIGNALED(st)) {
      ++failures;
      std::cout << "FAIL: parseFile(" << f << ") "
                << (WTERMSIG(st) == SIGALRM ? "still running after 30 s (hang)" : "killed by signal")
                << " [signal " << WTERMSIG(st) << "]\n";
    } else if (WEXITSTATUS(st) == 77) {
      ++failures;
      std::cout << "FAIL: parseFile(" << f << ") exhausted 4 GB of memory\n";
    }
  }
  if (failures) { std::cout << "FAIL\n"; return 1; }
  std::cout << "PASS\n";
  return 0;
}
