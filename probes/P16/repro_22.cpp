// (Wrong result, same code as repro_7.) withLauncher::extractLoopAsKernel derives the launch bound of a @tile'd
// @inner loop by printing the iteration-count expression and taking std::stoi() of the text after the first
// character in [1-9]. Any earlier digit (iterator called i1, a parenthesised/hex tile size, ...) is taken as the
// tile size, so the kernel gets __launch_bounds__(1) / reqd_work_group_size(1,1,1) while it is launched with 16 threads.
//
// Build:
//   g++ -std=c++17 -g -I/tmp/wt3_P16/include -I/tmp/wt3_P16/_build/include -I/tmp/wt3_P16/src repro_22.cpp -o repro_22 \
//       -L/tmp/wt3_P16/_build/lib -locca -Wl,-rpath,/tmp/wt3_P16/_build/lib -fopenmp -ldl
//   OCCA_CACHE_DIR=/tmp/seed_out/P16/cache ./repro_22
#include <occa/internal/lang/modes/cuda.hpp>
#include <occa.hpp>
#include <iostream>
using namespace occa::lang;

static std::string bounds(const std::string &src) {
  okl::cudaParser parser;
  parser.parseSource(src);
  if (!parser.success) return "<parse error>";
  const std::string out = parser.toString();
  size_t p = out.find("__launch_bounds__(");
  if (p == std::string::npos) return "<none>";
  return out.substr(p, out.find(')', p) - p + 1);
}

int main() {
  const std::string good = bounds("@kernel void k(int *a) { for (int i = 0; i < 64; ++i; @tile(16, @outer, @inner)) { a[i] = 1; } }");
  const std::string bad1 = bounds("@kernel void k(int *a) { for (int i1 = 0; i1 < 64; ++i1; @tile(16, @outer, @inner)) { a[i1] = 1; } }");
  const std::string bad2 = bounds("@kernel void k(int *a) { for (int i = 0; i < 64; ++i; @tile((8*2), @outer, @inner)) { a[i] = 1; } }");
  std::cout << "iterator i , tile 16    : " << good << "\n"
            << "iterator i1, tile 16    : " << bad1 << "\n"
            << "iterator i , tile (8*2) : " << bad2 << "\n";
  if (good == "__launch_bounds__(16)" && (bad1 != good || (bad2 != good && bad2 != "<none>"))) {
    std::cout << "FAIL: launch bounds depend on digits in the printed expression\n";
    return 1;
  }
  std::cout << "PASS\n";
  return 0;
}
