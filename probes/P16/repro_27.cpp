// cubic parse time on long / deeply nested expressions (effective hang on a few KB of input)
// Build:
//   g++ -std=c++17 -g -I/tmp/wt3_P16/include -I/tmp/wt3_P16/_build/include -I/tmp/wt3_P16/src repro_27.cpp -o repro_27 \
//       -L/tmp/wt3_P16/_build/lib -locca -Wl,-rpath,/tmp/wt3_P16/_build/lib -fopenmp -ldl
//   OCCA_CACHE_DIR=/tmp/seed_out/P16/cache ./repro_27
// Prints FAIL (exit 1) while the defect is present, PASS (exit 0) once fixed.
#include <occa/internal/lang/modes/serial.hpp>
#include <occa/internal/lang/modes/openmp.hpp>
#include <occa/internal/lang/modes/cuda.hpp>
#include <occa/internal/lang/modes/hip.hpp>
#include <occa/internal/lang/modes/opencl.hpp>
#include <occa/internal/lang/modes/metal.hpp>
#include <occa/internal/lang/modes/dpcpp.hpp>
#include <occa.hpp>
#include <iostream>
#include <string>
#include <cstring>
#include <unistd.h>
#include <fcntl.h>
#include <signal.h>
#include <sys/wait.h>

using namespace occa::lang;

template <class P>
static int parseSimple(const std::string &src) {
  occa::json s; s["okl/validate"] = true;
  P parser(s);
  try {
    parser.parseSource(src);
    if (!parser.success) return 1;            // errors reported: fine
    std::string out = parser.toString();
    sourceMetadata_t md; parser.setSourceMetadata(md);
    return 0;
  } catch (occa::exception &e) { return 2; }   // occa::exception: fine
}
template <class P>
static int parseLauncher(const std::string &src) {
  occa::json s; s["okl/validate"] = true;
  P parser(s);
  try {
    parser.parseSource(src);
    if (!parser.success) return 1;
    std::string out = parser.toString();
    std::string host = parser.launcherParser.toString();
    sourceMetadata_t md; parser.setSourceMetadata(md);
    return 0;
  } catch (occa::exception &e) { return 2; }
}
static int runMode(const std::string &mode, const std::string &src) {
  if (mode == "serial") return parseSimple<okl::serialParser>(src);
  if (mode == "openmp") return parseSimple<okl::openmpParser>(src);
  if (mode == "cuda")   return parseLauncher<okl::cudaParser>(src);
  if (mode == "hip")    return parseLauncher<okl::hipParser>(src);
  if (mode == "opencl") return parseLauncher<okl::openclParser>(src);
  if (mode == "metal")  return parseLauncher<okl::metalParser>(src);
  if (mode == "dpcpp")  return parseLauncher<okl::dpcppParser>(src);
  return 99;
}
// Runs one translator on src in a forked child. Returns the terminating signal (0 if it exited normally);
// the child's stderr+stdout text is returned in output.
static int runInChild(const std::string &mode, const std::string &src, std::string &output) {
  int fds[2]; if (pipe(fds)) return -1;
  pid_t pid = fork();
  if (pid == 0) {
    close(fds[0]); dup2(fds[1], 1); dup2(fds[1], 2);
    alarm(60);
    int r = runMode(mode, src);
    fflush(stdout); fflush(stderr);
    _exit(r);
  }
  close(fds[1]);
  output.clear();
  char buf[4096]; ssize_t n;
  while ((n = read(fds[0], buf, sizeof buf)) > 0) output.append(buf, n);
  close(fds[0]);
  int st = 0; waitpid(pid, &st, 0);
  if (WIFSIGNALED(st)) return WTERMSIG(st);
  return 0;
}

// Parse time grows roughly cubically with the length / depth of an expression: every exprNode constructor deep-clones
// its operands (binaryOpNode::binaryOpNode -> clone -> ...), so an 8 KB initializer `1 + 1 + ... + 1` (2000 terms)
// needs ~100 CPU seconds and a 16 KB one more than 5 minutes; 2000 nested subscripts a[a[a[...]]] need ~60 s.
// The child below gets a 30 s CPU limit; a linear parser needs milliseconds for these inputs.
#include <sys/resource.h>
static std::string rep(const std::string &s, int n) { std::string r; for (int i = 0; i < n; ++i) r += s; return r; }

int main() {
  struct { const char *name; std::string src; } cases[] = {
    { "2000-term sum (8 KB)",              "int x = " + rep("1 + ", 2000) + "1;" },
    { "2000 nested subscripts (6 KB)",     "void f() { a" + rep("[a", 2000) + rep("]", 2000) + "; }" },
  };
  int failures = 0;
  for (auto &c : cases) {
    pid_t pid = fork();
    if (pid == 0) {
      int fd = open("/dev/null", O_WRONLY); dup2(fd, 1); dup2(fd, 2);
      struct rlimit rl; rl.rlim_cur = 30; rl.rlim_max = 35; setrlimit(RLIMIT_CPU, &rl);
      try { okl::serialParser parser; parser.parseSource(c.src); } catch (occa::exception &e) {}
      _exit(0);
    }
    int st = 0; waitpid(pid, &st, 0);
    struct rusage ru; getrusage(RUSAGE_CHILDREN, &ru);
    if (WIFSIGNALED(st)) {
      ++failures;
      std::cout << "FAIL: " << c.name << ": " << (WTERMSIG(st) == SIGXCPU ? "exceeded 30 s of CPU time" : "killed by signal")
                << " [signal " << WTERMSIG(st) << "]\n";
    } else {
      std::cout << "ok  : " << c.name << "\n";
    }
  }
  if (failures) { std::cout << "FAIL\n"; return 1; }
  std::cout << "PASS\n";
  return 0;
}
