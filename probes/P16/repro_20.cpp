// typedef of a builtin type: vartype_t::definesStruct()/definesEnum()/definesUnion() cast `type` to typedef_t*
// whenever the typedef qualifier is present, although `type` is a primitive_t (104 bytes) and
// typedef_t::declaredBaseType lives at offset ~232 -> out-of-bounds read (type confusion).
// Reached from the parser by printing any `typedef float real_t;` declaration (declarationStatement::print).
//
// Build:
//   g++ -std=c++17 -g -I/tmp/wt3_P16/include -I/tmp/wt3_P16/_build/include -I/tmp/wt3_P16/src repro_20.cpp -o repro_20 \
//       -L/tmp/wt3_P16/_build/lib -locca -Wl,-rpath,/tmp/wt3_P16/_build/lib -fopenmp -ldl
//   OCCA_CACHE_DIR=/tmp/seed_out/P16/cache ./repro_20
// Prints FAIL (exit 1) while the defect is present, PASS (exit 0) once fixed.
//
// Part A shows, through the parser, that the declaration that gets printed has (typedef qualifier, primitive_t type).
// Part B places a primitive_t directly in front of an inaccessible page and calls definesStruct() on such a vartype:
// the out-of-bounds read then faults deterministically (in the normal build it silently reads a neighbouring global).
#include <occa/internal/lang/modes/serial.hpp>
#include <occa/internal/lang/statement.hpp>
#include <occa/internal/lang/variable.hpp>
#include <occa/internal/lang/type.hpp>
#include <occa/internal/lang/builtins/types.hpp>
#include <occa.hpp>
#include <iostream>
#include <new>
#include <unistd.h>
#include <sys/mman.h>
#include <sys/wait.h>

using namespace occa::lang;

int main() {
  // ---- Part A: what the parser builds
  const std::string src =
    "typedef float real_t;\n"
    "@kernel void k(real_t *a) { for (int i = 0; i < 2; ++i; @outer) { for (int j = 0; j < 2; ++j; @inner) { a[0] = 1; } } }\n";
  bool confused = false;
  {
    okl::serialParser parser;
    parser.parseSource(src);
    if (!parser.success) { std::cout << "unexpected: parse failed\n"; return 2; }
    declarationStatement &d = (declarationStatement&) *parser.root[0];
    const vartype_t &vt = d.declarations[0].variable().vartype;
    confused = vt.has(typedef_) && vt.type && !dynamic_cast<const typedef_t*>(vt.type);
    std::cout << "typedef declaration: has(typedef_)=" << vt.has(typedef_)
              << " dynamic type is typedef_t=" << (dynamic_cast<const typedef_t*>(vt.type) != NULL)
              << " sizeof(primitive_t)=" << sizeof(primitive_t)
              << " sizeof(typedef_t)=" << sizeof(typedef_t) << "\n";
  }
  if (!confused) {
    std::cout << "PASS (typedef declarations no longer carry a non-typedef_t type)\n";
    return 0;
  }

  // ---- Part B: the same call declarationStatement::print makes, with the primitive in front of a guard page
  pid_t pid = fork();
  if (pid == 0) {
    const long page = sysconf(_SC_PAGESIZE);
    char *mem = (char*) mmap(NULL, 2 * page, PROT_READ | PROT_WRITE, MAP_PRIVATE | MAP_ANONYMOUS, -1, 0);
    if (mem == MAP_FAILED) _exit(3);
    mprotect(mem + page, page, PROT_NONE);
    const size_t sz = (sizeof(primitive_t) + 15) & ~size_t(15);
    primitive_t *prim = new (mem + page - sz) primitive_t("float");
    {
      vartype_t vt;
      vt.type = prim;          // same state the type loader produces: builtin type ...
      vt += typedef_;          // ... plus the typedef qualifier
      volatile bool r = vt.definesStruct() || vt.definesEnum() || vt.definesUnion();
      (void) r;
      vt.type = NULL;
    }
    _exit(0);
  }
  int st = 0; waitpid(pid, &st, 0);
  if (WIFSIGNALED(st)) {
    std::cout << "FAIL: vartype_t::definesStruct() on (typedef qualifier + primitive_t) read past the end of the primitive_t"
              << " and faulted with signal " << WTERMSIG(st) << "\n";
    return 1;
  }
  std::cout << "PASS\n";
  return 0;
}
