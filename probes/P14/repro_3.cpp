// C14 / finding 3: ?: returns the selected operand unconverted instead of converting it to the
// common type of the 2nd and 3rd operands.
#include "repro_common.hpp"
int main() {
  CHECK((true ? 1 : 2.0) / 2);        // 0.5 in C++, 0 in OCCA
  CHECK((true ? -1 : 0u) < 0);        // false in C++ (UINT_MAX), true in OCCA
  CHECK((true ? -1 : 0u) / 2);        // 2147483647u vs 0
  CHECK(true ? 1 : 2.0);
  CHECK(false ? 1LL : 2);
  CHECK(true ? true : 0);
  CHECK(true ? 16777217 : 1.0f);      // 16777216.0f in C++
  CHECK((true ? 4294967295u : -1L) + 1);  // 4294967296L vs 0u
  return finish();
}
