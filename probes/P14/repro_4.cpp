// C14 / finding 4: the shift count is converted to the type of the (unpromoted) left operand,
// a bool left operand therefore shifts by 0 or 1 only.
#include "repro_common.hpp"
int main() {
  CHECK(true << 3);
  CHECK(true << 5);
  CHECK((1 < 2) << 4);
  CHECK(true << 31u);
  CHECK((true << 2) == 4);
  CHECK(1 << 3);      // control
  return finish();
}
