// C14 / finding 7: == and != on floating-point operands compare the bit patterns, so +0.0 != -0.0
#include "repro_common.hpp"
int main() {
  CHECK(0.0 == -0.0);
  CHECK(0.0 != -0.0);
  CHECK(0.0f == -0.0f);
  CHECK(0 == -0.0);
  CHECK(false != -0.0f);
  CHECK((0.0 == -0.0) ? 1 : 2);
  CHECK(-0.0 == -(0.0));    // control: identical bits
  return finish();
}
