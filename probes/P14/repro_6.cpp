// C14 / finding 6: ! && || throw occa::exception when an operand that has to be evaluated is
// floating-point; C++ contextually converts it to bool.
#include "repro_common.hpp"
int main() {
  CHECK(!0.5);
  CHECK(!0.0f);
  CHECK(1 && 0.5);
  CHECK(0.5 && 1);
  CHECK(0.5f && 0.0f);
  CHECK(0 || 0.5);
  CHECK(0.0 || 0);
  CHECK(!1.5 ? 10 : 20);
  CHECK(0.0 && 1);   // control: short circuit hides the problem
  return finish();
}
