// Shared helper for the C14 reproducers (header-only, uses OCCA internal headers)
#ifndef REPRO_COMMON_HPP
#define REPRO_COMMON_HPP
#include <occa/internal/lang/expr.hpp>
#include <occa/internal/lang/tokenizer.hpp>
#include <occa.hpp>
#include <cstdio>
#include <cstring>
#include <string>
#include <type_traits>

static int failures = 0;

static const char* occaTypeName(int t) {
  using namespace occa;
  switch (t) {
    case primitiveType::bool_:   return "bool";
    case primitiveType::int8_:   return "int8";
    case primitiveType::uint8_:  return "uint8";
    case primitiveType::int16_:  return "int16";
    case primitiveType::uint16_: return "uint16";
    case primitiveType::int32_:  return "int";
    case primitiveType::uint32_: return "unsigned";
    case primitiveType::int64_:  return "long";
    case primitiveType::uint64_: return "unsigned long";
    case primitiveType::float_:  return "float";
    case primitiveType::double_: return "double";
    default: return "none";
  }
}
template <class T> struct cxxType;
template <> struct cxxType<bool>               { static int t() { return occa::primitiveType::bool_;   } };
template <> struct cxxType<int>                { static int t() { return occa::primitiveType::int32_;  } };
template <> struct cxxType<unsigned>           { static int t() { return occa::primitiveType::uint32_; } };
template <> struct cxxType<long>               { static int t() { return occa::primitiveType::int64_;  } };
template <> struct cxxType<unsigned long>      { static int t() { return occa::primitiveType::uint64_; } };
template <> struct cxxType<long long>          { static int t() { return occa::primitiveType::int64_;  } };
template <> struct cxxType<unsigned long long> { static int t() { return occa::primitiveType::uint64_; } };
template <> struct cxxType<float>              { static int t() { return occa::primitiveType::float_;  } };
template <> struct cxxType<double>             { static int t() { return occa::primitiveType::double_; } };

// Evaluates [text] with OCCA's expression parser + constant folder.
// Returns false (and sets err) if OCCA cannot parse / evaluate it.
static bool occaEval(const std::string &text, occa::primitive &out, std::string &err) {
  using namespace occa::lang;
  try {
    tokenVector tokens = tokenizer_t::tokenize(text);
    exprNode *e = expressionParser::parse(tokens);
    if (!e) { err = "expression does not parse"; return false; }
    if (!e->canEvaluate()) { err = "canEvaluate() is false"; delete e; return false; }
    out = e->evaluate();
    delete e;
    return true;
  } catch (occa::exception &ex) {
    err = "occa::exception: " + ex.message;
    return false;
  }
}

template <class T>
static std::string show(T v) {
  char buf[64];
  if (std::is_floating_point<T>::value) snprintf(buf, sizeof(buf), "%.17g", (double) v);
  else if (std::is_signed<T>::value)    snprintf(buf, sizeof(buf), "%lld", (long long) v);
  else                                  snprintf(buf, sizeof(buf), "%llu", (unsigned long long) v);
  return buf;
}

// CHECK(expr): the host compiler computes the expected type + value from the very same text
template <class T>
static void check(const char *text, T expected) {
  occa::primitive p; std::string err;
  if (!occaEval(text, p, err)) {
    printf("FAIL  %-45s  C++: (%s) %s   OCCA: %s\n", text,
           occaTypeName(cxxType<T>::t()), show(expected).c_str(), err.c_str());
    ++failures; return;
  }
  bool sameType = (p.type == cxxType<T>::t());
  T got = sameType ? p.to<T>() : T();
  bool sameValue = sameType && (memcmp(&got, &expected, sizeof(T)) == 0);
  std::string gotStr;
  switch (p.type) {
    case occa::primitiveType::float_:  gotStr = show(p.value.float_); break;
    case occa::primitiveType::double_: gotStr = show(p.value.double_); break;
    case occa::primitiveType::bool_:   gotStr = p.value.bool_ ? "1" : "0"; break;
    case occa::primitiveType::uint32_: gotStr = show(p.value.uint32_); break;
    case occa::primitiveType::uint64_: gotStr = show(p.value.uint64_); break;
    case occa::primitiveType::int32_:  gotStr = show(p.value.int32_); break;
    default:                           gotStr = show(p.to<long long>()); break;
  }
  if (sameType && sameValue) {
    printf("ok    %-45s  (%s) %s\n", text, occaTypeName(p.type), gotStr.c_str());
  } else {
    printf("FAIL  %-45s  C++: (%s) %s   OCCA: (%s) %s\n", text,
           occaTypeName(cxxType<T>::t()), show(expected).c_str(),
           occaTypeName(p.type), gotStr.c_str());
    ++failures;
  }
}
#define CHECK(...) check(#__VA_ARGS__, (__VA_ARGS__))

static int finish() {
  if (failures) { printf("FAIL (%d mismatching expression(s))\n", failures); return 1; }
  printf("PASS\n"); return 0;
}
#endif
