// C14 / finding 2: a binary + - * & followed by a prefix operator is classified as a prefix operator,
// so the whole expression fails to parse ("Unable to form an expression").
#include "repro_common.hpp"
int main() {
  CHECK(6 & ~2);
  CHECK(2 * -3);
  CHECK(1 - -2);
  CHECK(1 + +2);
  CHECK(1 + !0);
  CHECK((1) - +2);
  CHECK(1 + ~0);
  CHECK(7 & (~2));   // parenthesised form works
  return finish();
}
