// C14 / finding 8: octal literals are typed with the rules of decimal literals
// (int, long) instead of (int, unsigned, long, unsigned long)
#include "repro_common.hpp"
int main() {
  CHECK(037777777777);                   // unsigned in C++, long in OCCA
  CHECK(020000000000);
  CHECK(037777777777 + 1);               // 0u in C++, 4294967296L in OCCA
  CHECK(-020000000000 < 0);              // false in C++
  CHECK(01777777777777777777777);        // unsigned long in C++, int -1 in OCCA
  CHECK(01000000000000000000000L);
  CHECK(01777777777777777777777 > 0);    // true in C++, false in OCCA
  CHECK(1.0 * 01777777777777777777777);  // 1.8e19 in C++, -1.0 in OCCA
  CHECK(33u % 01777777777777777777777LL);
  CHECK(017777777777);                   // control: fits int
  CHECK(0xFFFFFFFF);                     // control: hex is right
  return finish();
}
