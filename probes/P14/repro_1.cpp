// C14 / finding 1: the conditional operator is parsed left-associatively
//   a ? b : c ? d : e   must be   a ? b : (c ? d : e)
// and a conditional nested in the middle operand does not parse at all.
#include "repro_common.hpp"
int main() {
  CHECK(1 ? 2 : 0 ? 3 : 4);
  CHECK(1 ? 32 : 0 ? 1 : 2);
  CHECK(5 ? 7 : 3 ? 2 : 1);
  CHECK(0 ? 1 : 0 ? 3 : 4);      // agrees by luck
  CHECK(1 ? 0 ? 5 : 6 : 7);      // nested in the middle operand: parse failure
  CHECK(0 ? 0 ? 5 : 6 : 7);
  return finish();
}
