// C14 / finding 11: #if conditions are folded with the typed evaluator (int / unsigned / long ...)
// whereas the C++ preprocessor evaluates every operand as intmax_t / uintmax_t, and true/false as 1/0.
// Expected results below are what `cpp -x c++ -std=c++17` (and every conforming compiler) selects.
#include <occa/internal/lang/tokenizer.hpp>
#include <occa/internal/lang/processingStages.hpp>
#include <occa/internal/lang/preprocessor.hpp>
#include <occa.hpp>
#include <cstdio>
#include <string>
using namespace occa::lang;
static int failures = 0;
static std::string ppSelect(const std::string &cond) {
  std::string src = "#if " + cond + "\nYES\n#else\nNO\n#endif\n";
  std::string res;
  try {
    tokenizer_t tokenizer; preprocessor_t preprocessor; newlineTokenFilter nf;
    occa::lang::stream<token_t*> ts = tokenizer.map(preprocessor).map(nf);
    tokenizer.set(src.c_str());
    token_t *t = NULL;
    while (!ts.isEmpty()) {
      ts >> t;
      if (t) { if (t->type() & tokenType::identifier) res += t->to<identifierToken>().value; delete t; t = NULL; }
    }
  } catch (occa::exception &e) { res = "exception: " + e.message; }
  return res;
}
static void check(const char *cond, const char *expected) {
  std::string got = ppSelect(cond);
  bool ok = (got == expected);
  printf("%s  #if %-36s cpp: %-3s  OCCA: %s\n", ok ? "ok  " : "FAIL", cond, expected, got.c_str());
  failures += !ok;
}
int main() {
  check("0xFFFFFFFF + 1",                 "YES");
  check("4294967295u + 1u",               "YES");
  check("2147483647 + 1 > 0",             "YES");
  check("(1 << 31) > 0",                  "YES");
  check("0u > -1L",                       "NO");
  check("-1 == 0xFFFFFFFF",               "NO");
  check("~0u == 0xFFFFFFFFFFFFFFFF",      "YES");
  check("1 + 1 == 2",                     "YES");  // control
  if (failures) { printf("FAIL (%d)\n", failures); return 1; }
  printf("PASS\n"); return 0;
}
