// C14 / finding 10: valid C++14/17 literal spellings that the tokenizer cannot read, and the
// long double suffix that is silently dropped.
#include "repro_common.hpp"
int main() {
  CHECK(1'000);
  CHECK(0x1'0);
  CHECK(0b1'1);
  CHECK(1'0.5);
  CHECK(0x1.8p3);
  CHECK(0x1p-2f);
  CHECK(0XFFp0);
  CHECK(0.1L == 0.1);      // false in C++ (long double vs double), true in OCCA
  return finish();
}
