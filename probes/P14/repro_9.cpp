// C14 / finding 9: an f-suffixed literal is rounded twice (decimal -> double -> float)
#include "repro_common.hpp"
int main() {
  CHECK(1.00000005960464478f);                       // 0x3f800001 in C++, 0x3f800000 in OCCA
  CHECK(1.0000000596046447753906250000000000001f);
  CHECK(16777217.000000001f);
  CHECK(1.00000005960464478f > 1.0f);
  CHECK(1.00000005960464478f == 1.0f);
  CHECK(0.1f);                                       // control
  return finish();
}
