// C14 / finding 5: bool operands are not promoted to int by the bitwise operators:
//   ~b is computed as !b (and stays bool);  b & b, b | b, b ^ b throw occa::exception
#include "repro_common.hpp"
int main() {
  CHECK(~true);
  CHECK(~false);
  CHECK(~(1 < 2));
  CHECK(~!5);
  CHECK(true & true);
  CHECK(true | false);
  CHECK(true ^ true);
  CHECK((1 < 2) & (2 < 3));
  CHECK((3 > 2) | (1 > 2));
  CHECK(true & 1);   // control: mixed bool/int works
  return finish();
}
