// #if: "defined X" without parentheses is not supported (and X is macro-expanded)
// Build:
//   g++ -std=c++17 -g -I/tmp/wt3_P13/include -I/tmp/wt3_P13/_build/include -I/tmp/wt3_P13/src repro_11.cpp -o repro_11 \
//       -L/tmp/wt3_P13/_build/lib -locca -Wl,-rpath,/tmp/wt3_P13/_build/lib -fopenmp -ldl
// Each case is preprocessed by OCCA in a forked child (5 s alarm); the resulting token sequence
// (tokens separated by one blank, newlines dropped) is compared with what `cpp -P` (gcc) produces.
#include <iostream>
#include <string>
#include <vector>
#include <unistd.h>
#include <sys/wait.h>

#include <occa/utils/exception.hpp>
#include <occa/internal/lang/tokenizer.hpp>
#include <occa/internal/lang/processingStages.hpp>
#include <occa/internal/lang/preprocessor.hpp>

using namespace occa::lang;

static std::string preprocess(const std::string &source) {
  std::string out;
  try {
    tokenizer_t tokenizer;
    preprocessor_t preprocessor;
    newlineTokenFilter newlineFilter;
    tokenizer.set(source.c_str());
    occa::lang::stream<token_t*> ts = tokenizer.map(preprocessor).map(newlineFilter);
    int n = 0;
    while (!ts.isEmpty()) {
      token_t *t = NULL;
      ts >> t;
      if (!t) break;
      if (out.size()) out += ' ';
      out += t->str();
      delete t;
      if (++n > 100000) { out += " <MORE THAN 100000 TOKENS>"; break; }
    }
  } catch (occa::exception &e) {
    out += " <EXCEPTION: " + e.message + ">";
  }
  return out;
}

static std::string runInChild(const std::string &source) {
  int fd[2];
  if (pipe(fd)) return "<pipe failed>";
  std::cout.flush();
  pid_t pid = fork();
  if (pid == 0) {
    close(fd[0]);
    // silence OCCA diagnostics
    if (!getenv("REPRO_VERBOSE")) { FILE *f = freopen("/dev/null", "w", stderr); (void) f; }
    { FILE *f = freopen("/dev/null", "w", stdout); (void) f; }
    alarm(5);
    std::string out = preprocess(source);
    ssize_t w = write(fd[1], out.c_str(), out.size()); (void) w;
    _exit(0);
  }
  close(fd[1]);
  std::string out;
  char buf[4096];
  ssize_t r;
  while ((r = read(fd[0], buf, sizeof(buf))) > 0) out.append(buf, r);
  close(fd[0]);
  int status = 0;
  waitpid(pid, &status, 0);
  if (WIFSIGNALED(status)) {
    if (WTERMSIG(status) == SIGALRM) return "<TIMEOUT: did not finish within 5 s>";
    return "<KILLED BY SIGNAL " + std::to_string(WTERMSIG(status)) + ">";
  }
  if (WEXITSTATUS(status)) return "<EXIT STATUS " + std::to_string(WEXITSTATUS(status)) + ">";
  return out;
}

struct testCase { const char *source; const char *expected; };

int main() {
  const std::vector<testCase> cases = {
    { "#define A 1\n#if defined A\nT\n#else\nF\n#endif\n",
      "T" },
    { "#if !defined B\nT\n#else\nF\n#endif\n",
      "T" },
    { "#define A 1\n#if defined A && defined(A)\nT\n#else\nF\n#endif\n",
      "T" }
  };
  int failures = 0;
  for (const testCase &c : cases) {
    const std::string got = runInChild(c.source);
    const bool ok = (got == c.expected);
    if (!ok) ++failures;
    std::cout << (ok ? "ok  : " : "BAD : ") << "---\n" << c.source
              << "  expected (cpp): " << c.expected << "\n"
              << "  OCCA          : " << (got.size() > 300 ? got.substr(0, 300) + " ..." : got) << "\n";
  }
  std::cout << (failures ? "FAIL" : "PASS") << " (" << failures << " of " << cases.size() << " cases differ)\n";
  return failures ? 1 : 0;
}
