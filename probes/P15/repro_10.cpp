// A second postfix ++/-- that is followed by a closing bracket is classified as a PREFIX operator applied
// to the preceding operand, and is then printed in front of it:   (p----)  ->  (--p--)   which OCCA itself cannot parse.
#include "repro_common.hpp"
int main() {
  std::string out, out2;
  if (!exprRoundTrip("x = (p++++)", out)) { std::cout << "parse error\nFAIL\n"; return 1; }
  if (squeeze(out) != "x=(p++++)") { std::cout << "FAIL: [x = (p++++)] printed as [" << out << "]"
      << (exprRoundTrip(out, out2) ? "" : " (which does not re-parse)") << "\n"; return 1; }
  std::cout << "PASS\n";
  return 0;
}
