// Shared helpers for the P15 reproducers (header-only).
#pragma once
#include <occa/internal/lang/expr.hpp>
#include <occa/internal/lang/parser.hpp>
#include <occa/internal/lang/statement.hpp>
#include <occa/internal/lang/tokenizer.hpp>
#include <iostream>
#include <string>
#include <unistd.h>
#include <fcntl.h>
#include <sys/wait.h>
using namespace occa;
using namespace occa::lang;

// Parse a translation unit with the base parser and print it back. Returns false on parse failure.
static bool roundTrip(const std::string &src, std::string &out) {
  parser_t parser;
  parser.parseSource(src);
  if (!parser.success) return false;
  printer pout;
  parser.root.print(pout);
  out = pout.str();
  return true;
}

// Parse "void k_() { EXPR; }" and return the printed expression only
static bool exprRoundTrip(const std::string &e, std::string &out) {
  parser_t parser;
  parser.parseSource("void k_() {\n" + e + ";\n}\n");
  if (!parser.success) return false;
  statement_t *fs = parser.root[parser.root.size() - 1];
  blockStatement &b = fs->to<blockStatement>();
  if (b.size() != 1 || !(b[0]->type() & statementType::expression)) return false;
  out = b[0]->to<expressionStatement>().expr->toString();
  return true;
}

static std::string squeeze(const std::string &s) {
  std::string r;
  for (char c : s) if (c != ' ' && c != '\n' && c != '\t') r += c;
  return r;
}
