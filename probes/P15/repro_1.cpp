// C-style cast followed by a parenthesised (or unary-operator) operand, when it is not the first
// thing in the enclosing (...) / expression: the operand's '(' is taken for a call on the previous
// output and the tree (and therefore the printed source) is silently restructured.
#include "repro_common.hpp"
int main() {
  int fails = 0;
  struct { const char *in, *expect; } cases[] = {
    {"f(b, (int) (a))",  "f(b,(int)(a))"},
    {"f(b, (int) -a)",   "f(b,(int)-a)"},
    {"g(1, c * (float) (b))", "g(1,c*(float)(b))"},
  };
  for (auto &c : cases) {
    std::string out;
    if (!exprRoundTrip(c.in, out)) { std::cout << "parse error for: " << c.in << "\n"; ++fails; continue; }
    if (squeeze(out) != c.expect) {
      std::cout << "FAIL: [" << c.in << "] printed as [" << out << "]\n";
      ++fails;
    }
  }
  std::cout << (fails ? "FAIL\n" : "PASS\n");
  return fails ? 1 : 0;
}
