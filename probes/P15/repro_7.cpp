// A declaration used as if/while/switch condition is printed with a trailing ';' :
//   if (int c = a) ...   ->   if (int c = a; ) { ... }      (not valid C++; while (...; ) is never valid)
#include "repro_common.hpp"
int main() {
  int fails = 0;
  const char *srcs[] = {
    "void k(int a, int b) { if (int c = a) b = c; }\n",
    "void k(int a, int b) { while (int c = a) { b = c; a = 0; } }\n",
    "void k(int a, int b) { switch (int c = a) { case 1: b = c; } }\n",
  };
  for (auto s : srcs) {
    std::string out;
    if (!roundTrip(s, out)) { std::cout << "parse error\n"; ++fails; continue; }
    if (squeeze(out).find(";)") != std::string::npos) { std::cout << "FAIL: " << s << "  printed as:" << out; ++fails; }
  }
  std::cout << (fails ? "FAIL\n" : "PASS\n");
  return fails ? 1 : 0;
}
