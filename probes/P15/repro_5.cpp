// String / character literal prefixes (L, u, U, u8), raw strings and UDL suffixes are dropped or mangled by the
// expression printer: the token keeps them, stringNode / charNode do not.
#include "repro_common.hpp"
int main() {
  int fails = 0;
  struct { const char *in; const char *mustContain; } cases[] = {
    {"L\"ab\"",      "L\"ab\""},
    {"u8\"ab\"",     "u8\"ab\""},
    {"L'a'",         "L'a'"},
    {"u'a'",         "u'a'"},
    {"\"ab\"_s",     "\"ab\"_s"},
    // raw string: the two characters backslash+n must not become a newline escape
    {"R\"(a\\nb)\"", "\\\\n"},
  };
  for (auto &c : cases) {
    std::string out;
    if (!exprRoundTrip(std::string("x = ") + c.in, out)) { std::cout << "parse error for " << c.in << "\n"; ++fails; continue; }
    bool ok = out.find(c.mustContain) != std::string::npos;
    if (std::string(c.in).rfind("R\"", 0) == 0) ok = ok || out.find("R\"(") != std::string::npos;
    if (!ok) { std::cout << "FAIL: [" << c.in << "] printed as [" << out << "]\n"; ++fails; }
  }
  std::cout << (fails ? "FAIL\n" : "PASS\n");
  return fails ? 1 : 0;
}
