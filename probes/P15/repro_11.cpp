// Hexadecimal floating literals are split into several tokens and printed back with digits missing:
//   0x1.8p1 (== 3.0)  ->  0x1.p1 (== 2.0)       0x1p3 -> x1p3
#include "repro_common.hpp"
int main() {
  int fails = 0;
  const char *lits[] = {"0x1.8p1", "0x1p3"};
  for (auto l : lits) {
    std::string out;
    if (!exprRoundTrip(std::string("x = ") + l, out)) { std::cout << "parse error (acceptable) for " << l << "\n"; continue; }
    if (squeeze(out) != std::string("x=") + l) { std::cout << "FAIL: [" << l << "] printed as [" << out << "]\n"; ++fails; }
  }
  std::cout << (fails ? "FAIL\n" : "PASS\n");
  return fails ? 1 : 0;
}
