// Adjacent string literals are merged textually, so an escape sequence at the end of one piece
// swallows the first characters of the next: "\x1" "f" (2 chars: 0x01,'f') is printed as "\x1f" (1 char).
#include "repro_common.hpp"
int main() {
  int fails = 0;
  struct { const char *in; const char *bad; } cases[] = {
    {"const char *s = \"\\x1\" \"f\";\n", "\"\\x1f\""},
    {"const char *s = \"\\0\" \"1\";\n",  "\"\\01\""},
    {"const char *s = \"\\12\" \"3\";\n", "\"\\123\""},
  };
  for (auto &c : cases) {
    std::string out;
    if (!roundTrip(c.in, out)) { std::cout << "parse error\n"; ++fails; continue; }
    if (out.find(c.bad) != std::string::npos) { std::cout << "FAIL: " << c.in << "   printed as: " << out; ++fails; }
  }
  std::cout << (fails ? "FAIL\n" : "PASS\n");
  return fails ? 1 : 0;
}
