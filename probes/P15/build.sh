#!/bin/sh
g++ -std=c++17 -g -I/tmp/wt3_P15/include -I/tmp/wt3_P15/_build/include -I/tmp/wt3_P15/src /tmp/seed_out/P15/$1.cpp -o /tmp/seed_out/P15/$1 -L/tmp/wt3_P15/_build/lib -locca -Wl,-rpath,/tmp/wt3_P15/_build/lib -fopenmp -ldl
