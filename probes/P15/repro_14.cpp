// union definitions are printed without their body (declarationStatement only treats struct/enum definitions as
// "type-declaring" statements; vartype_t::definesUnion() exists but is never consulted).
#include "repro_common.hpp"
int main() {
  int fails = 0;
  const char *srcs[] = {
    "union U { int a; float c; };\n",
    "void f() { union V { int a; float b; } v; v.a = 1; }\n",
  };
  for (auto s : srcs) {
    std::string out, out2;
    if (!roundTrip(s, out)) { std::cout << "parse error\n"; ++fails; continue; }
    if (out.find("float") == std::string::npos) { std::cout << "FAIL: " << s << "   printed as: " << out << "\n"; ++fails; }
  }
  std::cout << (fails ? "FAIL\n" : "PASS\n");
  return fails ? 1 : 0;
}
