// Stringification (#x) does not escape the backslashes / quotes of string and character literals inside the
// argument:  STR("b\n")  must give  "\"b\\n\""  (7 chars  "b\n" ), OCCA prints  "\"b\n\""  (contains a newline).
#include "repro_common.hpp"
int main() {
  std::string out;
  if (!roundTrip("#define STR(x) #x\nconst char *s = STR(\"b\\n\");\n", out)) { std::cout << "parse error\nFAIL\n"; return 1; }
  if (out.find("\"\\\"b\\\\n\\\"\"") == std::string::npos) { std::cout << "FAIL: printed as: " << out; return 1; }
  std::cout << "PASS\n";
  return 0;
}
