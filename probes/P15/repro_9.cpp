// The parser prints an error but still reports success and prints a program with the offending
// parameters silently dropped.
#include "repro_common.hpp"
int main() {
  int fails = 0;
  {
    std::string out;
    bool ok = roundTrip("int i(int a, ...);\n", out);
    if (ok && out.find("...") == std::string::npos) { std::cout << "FAIL: [int i(int a, ...);] accepted and printed as: " << out; ++fails; }
  }
  {
    std::string out;
    bool ok = roundTrip("void f(int * restrict a, const int * __restrict__ b) { a[0] = b[0]; }\n", out);
    if (ok && out.find("b)") == std::string::npos) { std::cout << "FAIL: restrict-qualified parameters accepted and printed as: " << out; ++fails; }
  }
  std::cout << (fails ? "FAIL\n" : "PASS\n");
  return fails ? 1 : 0;
}
