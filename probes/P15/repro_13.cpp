// Valid C expressions that the expression parser rejects (not print defects, listed for completeness):
//   - ambiguous binary operator (+ - * &) followed by a prefix operator:  a - -b, a * -1, a + *p, a - ++b, 2 * sizeof a
//   - postfix ++/-- directly before a closing bracket:                     x[i++], f(i++), (a--)
//   - cast of a parenthesised / signed operand on the right of an operator: x = (int) (a), x = (int) -a
//   - sizeof(type), conditional nested in the middle operand, comma in the middle operand
#include "repro_common.hpp"
int main() {
  const char *exprs[] = {"a - -b", "a * -1", "a + *p", "a - ++b", "2 * sizeof a",
                         "x[i++] = 1", "f(i++)", "(a--)",
                         "x = (int) (a)", "x = (int) -a", "x = y + (float) (a + b)",
                         "x = sizeof(int)", "a ? b ? c : d : e", "a ? b, c : d"};
  int fails = 0;
  int devnull = open("/dev/null", O_WRONLY); int saved = dup(2), saved1 = dup(1);
  for (auto e : exprs) {
    std::string out;
    fflush(stdout); dup2(devnull, 2); dup2(devnull, 1);
    bool ok = exprRoundTrip(e, out);
    fflush(stdout); std::cout << std::flush; dup2(saved, 2); dup2(saved1, 1);
    if (!ok) { std::cout << "FAIL: does not parse: " << e << "\n"; ++fails; }
  }
  std::cout << (fails ? "FAIL\n" : "PASS\n");
  return fails ? 1 : 0;
}
