// Declarations whose printed form loses information (each is reported separately in findings.md, section 8):
//  a) bit-field width printed through printer::operator<<(char): "int x : 3;" -> "int x : \x03;"
//  b) function-pointer variables lose their whole type:            "int (*fp)(int, float);" -> " fp;"
//  c) typedef of a typedef prints the inner typedef's definition:  "typedef real vec3[3];" -> "typedef typedef float real vec3[3];"
//  d) anonymous struct member loses its body:                      "struct { int c; } in;" -> "struct in;"
#include "repro_common.hpp"
int main() {
  int fails = 0;
  struct { const char *name, *in, *expectSqueezed; } cases[] = {
    {"bitfield",    "struct foo { int x : 3; int z; };\n",                  "structfoo{intx:3;intz;};"},
    {"funcptr",     "int (*fp)(int, float);\n",                              "int(*fp)(int,float);"},
    {"typedef2",    "typedef float real; typedef real vec3[3]; vec3 v;\n",   "typedeffloatreal;typedefrealvec3[3];vec3v;"},
    {"anon-struct", "struct S { int a; struct { int c; } in; };\n",          "structS{inta;struct{intc;}in;};"},
  };
  for (auto &c : cases) {
    std::string out, out2;
    if (!roundTrip(c.in, out)) { std::cout << c.name << ": parse error\n"; ++fails; continue; }
    if (squeeze(out) != c.expectSqueezed) {
      std::cout << "FAIL(" << c.name << "): " << c.in << "   printed as: ";
      for (unsigned char ch : out) { if (ch < 32 && ch != '\n') std::cout << "\\x" << std::hex << (int) ch << std::dec; else std::cout << ch; }
      ++fails;
    }
  }
  std::cout << (fails ? "FAIL\n" : "PASS\n");
  return fails ? 1 : 0;
}
