// do-while leaves the parser's statement-context stack unbalanced (loadDoWhileStatement never pops what it pushed).
// Consequences: SIGSEGV (use-after-free of the "up" statement) or an endless loop in scope lookup for quite ordinary
// programs, including programs that OCCA printed itself (the printer wraps every body in { }).
#include "repro_common.hpp"
static int runCase(const char *src) {
  pid_t pid = fork();
  if (!pid) {
    int devnull = open("/dev/null", O_WRONLY); dup2(devnull, 2);
    alarm(10);
    std::string out, out2;
    if (!roundTrip(src, out)) _exit(3);
    if (!roundTrip(out, out2)) _exit(4);
    _exit(out == out2 ? 0 : 5);
  }
  int st = 0; waitpid(pid, &st, 0);
  if (WIFSIGNALED(st)) { std::cout << "FAIL: signal " << WTERMSIG(st) << (WTERMSIG(st) == SIGALRM ? " (hang)" : "") << " while parsing/printing/re-parsing:\n  " << src; return 1; }
  if (WEXITSTATUS(st)) { std::cout << "FAIL: exit status " << WEXITSTATUS(st) << " for:\n  " << src; return 1; }
  return 0;
}
int main() {
  int fails = 0;
  // do-while inside an if block, followed by one more statement
  fails += runCase("void f(int a, int b) { if (b) { do { a--; } while (--a); } a--; }\n");
  // do-while nested in a do-while
  fails += runCase("void k(int a, int b) { do { do { b--; } while (b > 5); } while (a); }\n");
  // hang (endless loop in blockStatement::getScopeKeyword / keywords_t::get)
  fails += runCase("void f(int a, int b) { do { switch (a) { case 1: { if (a) { b = a; a--; } else { b = a; } "
                   "do { int k1 = a; k1++; } while (--a); do { a--; } while (--a); } case 2: { a--; } } { { b = a; a--; } } } while (--a); }\n");
  std::cout << (fails ? "FAIL\n" : "PASS\n");
  return fails ? 1 : 0;
}
