// Nested conditional operator is parsed left-associatively:  a ? b : c ? d : e  ==>  (a ? b : c) ? d : e
// Visible through constant evaluation (expression evaluate(), #if).
#include "repro_common.hpp"
int main() {
  int fails = 0;
  {
    tokenVector tokens = tokenizer_t::tokenize("1 ? 1 : 0 ? 2 : 3");
    exprNode *e = expressionParser::parse(tokens);
    if (!e) { std::cout << "parse error\n"; return 1; }
    long v = (long) e->evaluate();
    long expect = 1 ? 1 : 0 ? 2 : 3;   // == 1
    if (v != expect) { std::cout << "FAIL: 1 ? 1 : 0 ? 2 : 3 evaluates to " << v << ", C++ says " << expect << "\n"; ++fails; }
    bool rightNested = (e->type() & exprNodeType::ternary) &&
                       (e->to<ternaryOpNode>().falseValue->type() & exprNodeType::ternary);
    if (!rightNested) { std::cout << "FAIL: tree is (1 ? 1 : 0) ? 2 : 3\n"; ++fails; }
    delete e;
  }
  {
    std::string out;
    bool ok = roundTrip("#if 1 ? 1 : 0 ? 0 : 0\nint yes;\n#else\nint no;\n#endif\n", out);
    if (!ok || out.find("yes") == std::string::npos) { std::cout << "FAIL: #if 1 ? 1 : 0 ? 0 : 0 took the #else branch: " << out; ++fails; }
  }
  std::cout << (fails ? "FAIL\n" : "PASS\n");
  return fails ? 1 : 0;
}
