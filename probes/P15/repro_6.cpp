// sizeof prints its operand inside an extra pair of parentheses, so every print -> parse cycle
// adds one more parenthesesNode: the re-parsed tree is never structurally identical.
#include "repro_common.hpp"
int main() {
  std::string p1, p2;
  if (!exprRoundTrip("x = sizeof(a) * 2", p1) || !exprRoundTrip(p1, p2)) { std::cout << "parse error\nFAIL\n"; return 1; }
  if (p1 != p2 || squeeze(p1) != "x=sizeof(a)*2") {
    std::cout << "FAIL: [x = sizeof(a) * 2] -> [" << p1 << "] -> [" << p2 << "]\n";
    return 1;
  }
  std::cout << "PASS\n";
  return 0;
}
