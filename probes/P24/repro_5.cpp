// Empty object key: dump emits it, parse rejects it.
#include <occa.hpp>
#include <occa/types/json.hpp>
#include <iostream>
using namespace occa;
int main() {
  int bad = 0;
  { json j; j.set("", 1);
    try { json k = json::parse(j.dump()); if (!(k == j)) { ++bad; std::cout << "FAIL: not equal\n"; } }
    catch (occa::exception &e) { std::cout << "FAIL: parse(dump({\"\":1})) throws: " << e.message << "\n"; ++bad; } }
  { json j; j["a//b"] = 1;   // path with an empty segment creates an empty key
    try { json k = json::parse(j.dump()); if (!(k == j)) { ++bad; std::cout << "FAIL: not equal\n"; } }
    catch (occa::exception &e) { std::cout << "FAIL: j[\"a//b\"]=1; parse(dump(j)) throws: " << e.message << "\n"; ++bad; } }
  std::cout << (bad ? "FAIL" : "PASS") << "\n";
  return bad ? 1 : 0;
}
