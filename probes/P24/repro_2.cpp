// Assigning / merging a json value from inside its own subtree:
// heap-use-after-free in json::operator= (visible under ASan) and silently wrong results otherwise.
#include <occa.hpp>
#include <occa/types/json.hpp>
#include <iostream>
using namespace occa;
static json make() {
  json j;
  j["b/a/a"] = 85;
  j["b/a/c"] = 86;
  j["b/x"]   = 1;
  return j;
}
int main() {
  int bad = 0;
  { // replace a node by (a copy of) its own child
    json j = make(); const json &cj = j;
    json expected; expected["b/a"] = 85; expected["b/c"] = 86;
    j["b"] = cj["b/a"];
    if (!(j == expected)) { std::cout << "FAIL: j[b] = j[b/a] gives " << j.dump(0) << " expected " << expected.dump(0) << "\n"; ++bad; }
  }
  { // replace the root by its own child
    json j = make(); const json &cj = j;
    json expected = json(cj["b"]);   // independent copy taken first
    j = cj["b"];
    if (!(j == expected)) { std::cout << "FAIL: j = j[b] gives " << j.dump(0) << " expected " << expected.dump(0) << "\n"; ++bad; }
  }
  { // merge an ancestor into its descendant
    json j = make(); const json &cj = j;
    json snapshot = json(cj["b"]);
    json expected = make(); expected["b/a"] += snapshot;
    j["b/a"] += cj["b"];
    if (!(j == expected)) { std::cout << "FAIL: j[b/a] += j[b] gives " << j.dump(0) << " expected " << expected.dump(0) << "\n"; ++bad; }
  }
  std::cout << (bad ? "FAIL" : "PASS") << "\n";
  return bad ? 1 : 0;
}
