// Reading a missing path through the non-const operator[] creates the intermediate
// objects and an undefined leaf; has()/size()/dump change, and the result does not round-trip.
#include <occa.hpp>
#include <occa/types/json.hpp>
#include <iostream>
using namespace occa;
int main() {
  int bad = 0;
  json j;
  j["x"] = 1;
  int v = (int) j["a/b/c"];         // plain read of a missing path on a non-const json
  (void) v;
  if (j.has("a"))      { std::cout << "FAIL: has(\"a\") is true after a read of a/b/c\n"; ++bad; }
  if (j.has("a/b/c"))  { std::cout << "FAIL: has(\"a/b/c\") is true although the value is undefined (isInitialized=" << ((const json&) j)["a/b/c"].isInitialized() << ")\n"; ++bad; }
  if (j.size() != 1)   { std::cout << "FAIL: size() is " << j.size() << " after a read, expected 1\n"; ++bad; }
  std::cout << "dump: " << j.dump(0) << "\n";
  json k = json::parse(j.dump(0));
  if (!(k == j))       { std::cout << "FAIL: parse(dump(j)) != j (undefined leaf is dumped as {})\n"; ++bad; }
  // the same undefined value inside an array produces unparseable text
  json arr(json::array_);
  arr.array().push_back(json());
  arr.array().push_back(json(1));
  try { json::parse(arr.dump(0)); }
  catch (occa::exception &e) { std::cout << "FAIL: array with undefined element dumps as " << arr.dump(0) << " -> " << e.message << "\n"; ++bad; }
  std::cout << (bad ? "FAIL" : "PASS") << "\n";
  return bad ? 1 : 0;
}
