// set() stores the key literally, get() (documented as "avoids parsing / as paths") splits it as a path.
#include <occa.hpp>
#include <occa/types/json.hpp>
#include <iostream>
using namespace occa;
int main() {
  json j;
  j.set("a/b", 1);
  int v = j.get<int>("a/b", -1);
  std::cout << "set(\"a/b\", 1); get<int>(\"a/b\", -1) = " << v << "; get with escaped slash = " << j.get<int>("a\\/b", -1) << "\n";
  if (v != 1) { std::cout << "FAIL\n"; return 1; }
  std::cout << "PASS\n";
  return 0;
}
