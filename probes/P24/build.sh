#!/bin/bash
# usage: build.sh name
g++ -std=c++17 -g -I/tmp/wt3_P24/include -I/tmp/wt3_P24/_build/include -I/tmp/wt3_P24/src /tmp/seed_out/P24/$1.cpp -o /tmp/seed_out/P24/$1 -L/tmp/wt3_P24/_build/lib -locca -Wl,-rpath,/tmp/wt3_P24/_build/lib -fopenmp -ldl
