// += on an undefined json is documented in the source as "treat this as an = operator",
// but an array is nested inside a new array and a bool becomes the int 1.
#include <occa.hpp>
#include <occa/types/json.hpp>
#include <iostream>
using namespace occa;
int main() {
  int bad = 0;
  { json a; json b(json::array_); b += json(1); b += json(2);
    a += b;
    if (!(a == b)) { std::cout << "FAIL: undefined += [1, 2] gives " << a.dump(0) << "\n"; ++bad; } }
  { json a; a += json(true);
    if (!a.isBool() || a.dump(0) != "true") { std::cout << "FAIL: undefined += true gives " << a.dump(0) << " (isBool=" << a.isBool() << ")\n"; ++bad; } }
  std::cout << (bad ? "FAIL" : "PASS") << "\n";
  return bad ? 1 : 0;
}
