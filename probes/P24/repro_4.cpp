// NUL bytes in strings and keys: dump emits a raw NUL, parse stops at it;
// set()/operator[]/has() with a std::string key truncate the key at the NUL.
#include <occa.hpp>
#include <occa/types/json.hpp>
#include <iostream>
using namespace occa;
int main() {
  int bad = 0;
  {
    json j(std::string("a\0b", 3));
    std::string d = j.dump(0);
    try { json k = json::parse(d); if (!(k == j)) { std::cout << "FAIL: string with NUL does not round-trip\n"; ++bad; } }
    catch (occa::exception &e) { std::cout << "FAIL: parse(dump(\"a\\0b\")) throws: " << e.message << "\n"; ++bad; }
  }
  {
    json j(json::object_);
    j.object()[std::string("k\0x", 3)] = json(1);
    try { json k = json::parse(j.dump(0)); if (!(k == j)) { std::cout << "FAIL: key with NUL does not round-trip\n"; ++bad; } }
    catch (occa::exception &e) { std::cout << "FAIL: parse(dump({\"k\\0x\":1})) throws: " << e.message << "\n"; ++bad; }
  }
  {
    json j;
    j.set(std::string("k\0x", 3), 1);
    j.set(std::string("k\0y", 3), 2);
    if (j.size() != 2) { std::cout << "FAIL: set(\"k\\0x\") and set(\"k\\0y\") collapse to " << j.size() << " key(s): " << j.dump(0) << "\n"; ++bad; }
  }
  std::cout << (bad ? "FAIL" : "PASS") << "\n";
  return bad ? 1 : 0;
}
