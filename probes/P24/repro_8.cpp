// Equal values with different dump text and different hashes.
#include <occa.hpp>
#include <occa/types/json.hpp>
#include <iostream>
using namespace occa;
static int check(const char *what, const json &a, const json &b) {
  if (!(a == b)) return 0;   // only complain about values the library itself calls equal
  int bad = 0;
  if (a.dump(0) != b.dump(0)) { std::cout << "FAIL: " << what << ": equal values, text " << a.dump(0) << " vs " << b.dump(0) << "\n"; ++bad; }
  if (!(a.hash() == b.hash())) { std::cout << "FAIL: " << what << ": equal values, different hashes\n"; ++bad; }
  return bad;
}
int main() {
  int bad = 0;
  bad += check("parse(1.5) vs parse(1.50)", json::parse("[1.5]"), json::parse("[1.50]"));
  bad += check("parse(0x10) vs parse(16)", json::parse("[0x10]"), json::parse("[16]"));
  bad += check("parse(1.5) vs built 1.5", json::parse("1.5"), json(1.5));
  bad += check("int 1 vs double 1.0", json(1), json(1.0));
  bad += check("true vs 1", json(true), json(1));
  std::cout << (bad ? "FAIL" : "PASS") << "\n";
  return bad ? 1 : 0;
}
