// Stale number text: a number that came from json::parse keeps dumping its
// original literal after it has been overwritten / modified.
#include <occa.hpp>
#include <occa/types/json.hpp>
#include <iostream>
using namespace occa;
int main() {
  int bad = 0;
  {
    json j = json::parse("{\"defines\": {\"N\": 1}}");
    json orig = j;
    j["defines/N"] = 2;                        // path write of a new number
    json built; built["defines/N"] = 2;        // same value built from scratch
    std::string d = j.dump(0);
    std::cout << "read back: " << (int) j["defines/N"] << ", dump: " << d << "\n";
    if (d != built.dump(0))               { std::cout << "FAIL: equal values (j==built: " << (j == built) << ") dump differently: " << d << " vs " << built.dump(0) << "\n"; ++bad; }
    if (!(json::parse(d) == j))           { std::cout << "FAIL: parse(dump(j)) != j\n"; ++bad; }
    if (j.hash() == orig.hash())          { std::cout << "FAIL: hash unchanged although value changed (j==orig: " << (j == orig) << ")\n"; ++bad; }
  }
  { json j = json::parse("1"); j += json(2);
    if (j.dump(0) != "3") { std::cout << "FAIL: 1 += 2 dumps as " << j.dump(0) << " (value " << (int) j << ")\n"; ++bad; } }
  { json j = json::parse("5"); j.asBoolean();
    if (j.dump(0) != "true") { std::cout << "FAIL: asBoolean() dumps as " << j.dump(0) << "\n"; ++bad; } }
  { json j; j.load("5"); j.load("true");
    if (j.dump(0) != "true") { std::cout << "FAIL: load(\"5\") then load(\"true\") dumps as " << j.dump(0) << "\n"; ++bad; } }
  { json j = json::parse("[1, 2]"); j[0] = 3.5;
    if (!(json::parse(j.dump(0)) == j)) { std::cout << "FAIL: array element overwrite dumps as " << j.dump(0) << "\n"; ++bad; } }
  std::cout << (bad ? "FAIL" : "PASS") << "\n";
  return bad ? 1 : 0;
}
