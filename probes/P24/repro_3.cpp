// += does not merge recursively under keys that contain '/' (created with set()).
#include <occa.hpp>
#include <occa/types/json.hpp>
#include <iostream>
using namespace occa;
int main() {
  json x(json::object_), y(json::object_);
  x["x"] = 1; y["y"] = 2;
  json a, b;
  a.set("k/1", x);
  b.set("k/1", y);
  a += b;
  json expectedInner(json::object_); expectedInner["x"] = 1; expectedInner["y"] = 2;
  json expected; expected.set("k/1", expectedInner);
  // control: same thing with a key without '/'
  json c, d; c.set("k", x); d.set("k", y); c += d;
  std::cout << "plain key : " << c.dump(0) << "\n";
  std::cout << "slash key : " << a.dump(0) << "\n";
  if (!(a == expected)) { std::cout << "FAIL: expected " << expected.dump(0) << "\n"; return 1; }
  std::cout << "PASS\n";
  return 0;
}
