// Non-finite float/double values are dumped as inf / -inf / nan / inff which the parser cannot read.
#include <occa.hpp>
#include <occa/types/json.hpp>
#include <iostream>
#include <limits>
#include <cmath>
using namespace occa;
static int check(const char *name, const json &v) {
  json arr(json::array_); arr += v;
  std::string d = arr.dump(0);
  try { json k = json::parse(d); if (k == arr) return 0; std::cout << "FAIL: " << name << " " << d << " re-parsed as " << k.dump(0) << "\n"; }
  catch (occa::exception &e) { std::cout << "FAIL: " << name << " dump " << d << " -> parse throws: " << e.message << "\n"; }
  return 1;
}
int main() {
  int bad = 0;
  bad += check("+inf double", json(std::numeric_limits<double>::infinity()));
  bad += check("-inf double", json(-std::numeric_limits<double>::infinity()));
  bad += check("nan double",  json(std::nan("")));
  bad += check("+inf float",  json(std::numeric_limits<float>::infinity()));
  std::cout << (bad ? "FAIL" : "PASS") << "\n";
  return bad ? 1 : 0;
}
