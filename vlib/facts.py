"""Fact model over the extractor output: Program / Func / node helpers / canonical rendering."""
import json
import os

from .work import AnalysisBroken, REPO

CASTS = ("ImplicitCastExpr", "CStyleCastExpr", "CXXFunctionalCastExpr", "CXXStaticCastExpr",
         "CXXConstCastExpr", "CXXReinterpretCastExpr")
CALLS = ("CallExpr", "CXXMemberCallExpr", "CXXOperatorCallExpr", "CXXConstructExpr", "CXXTemporaryObjectExpr")


def kids(n):
    return n.get("c", ())


def walk(n):
    """preorder over a node tree"""
    stack = [n]
    while stack:
        x = stack.pop()
        yield x
        c = x.get("c")
        if c:
            stack.extend(reversed(c))


def strip(n, explicit=True):
    """skip implicit (and by default explicit) casts and trivial single-argument copy/conversion constructs"""
    while n is not None:
        k = n["k"]
        if k == "ImplicitCastExpr" or (explicit and k in CASTS):
            c = kids(n)
            if not c:
                return n
            n = c[0]
            continue
        if k == "CXXConstructExpr" and len(kids(n)) == 1 and n.get("elide"):
            n = kids(n)[0]
            continue
        break
    return n


def is_call(n):
    return n["k"] in CALLS


def declref(n):
    """the DeclRefExpr an argument boils down to (through casts and copy/conversion constructors), else None"""
    hops = 0
    while n is not None and hops < 8:
        hops += 1
        n = strip(n)
        if n is None:
            return None
        if n["k"] == "DeclRefExpr":
            return n
        if n["k"] in ("CXXConstructExpr", "CXXTemporaryObjectExpr") and len(kids(n)) >= 1 and all(x["k"] == "CXXDefaultArgExpr" for x in kids(n)[1:]):
            n = kids(n)[0]
            continue
        return None
    return None


def decl_of(n):
    d = declref(n)
    return d.get("d") if d is not None else None


def callee(n):
    return n.get("callee", "")


def call_args(n):
    """explicit arguments (object argument excluded)"""
    k = n["k"]
    c = list(kids(n))
    if k in ("CXXConstructExpr", "CXXTemporaryObjectExpr"):
        return c
    if k == "CXXOperatorCallExpr":
        # c[0] is the operator reference; member operators take the object as c[1]
        rest = c[1:]
        if n.get("ccls") and not n.get("cstatic"):
            return rest[1:]
        return rest
    return c[1:]


def call_object(n):
    """object expression of a member call (None for implicit this / free functions)"""
    k = n["k"]
    c = kids(n)
    if k == "CXXMemberCallExpr" and c:
        m = c[0]
        if m["k"] == "MemberExpr" and kids(m):
            return kids(m)[0]
        return None
    if k == "CXXOperatorCallExpr" and n.get("ccls") and not n.get("cstatic") and len(c) > 1:
        return c[1]
    return None


def literal(n):
    """string / int / bool / char literal value reachable through casts and std::string construction"""
    n = strip(n)
    seen = 0
    while n is not None and seen < 6:
        seen += 1
        k = n["k"]
        if k == "StringLiteral":
            return n.get("v")
        if k in ("IntegerLiteral",):
            return int(n["v"])
        if k == "CharacterLiteral":
            return n["v"]
        if k == "CXXBoolLiteralExpr":
            return n["v"]
        if k in ("CXXConstructExpr", "CXXTemporaryObjectExpr") and kids(n):
            n = strip(kids(n)[0])
            continue
        if k == "CXXDefaultArgExpr" and kids(n):
            n = strip(kids(n)[0])
            continue
        return None
    return None


def is_null_const(n):
    n = strip(n)
    if n is None:
        return False
    k = n["k"]
    if k in ("GNUNullExpr", "CXXNullPtrLiteralExpr"):
        return True
    if k == "IntegerLiteral" and n.get("v") == "0":
        return True
    return False


def render(n, ids=True, depth=0):
    """canonical text of an expression; locals carry their decl id so that binding is by declaration"""
    if n is None:
        return "<none>"
    if depth > 60:
        return "..."
    k = n["k"]
    c = kids(n)
    r = lambda x: render(x, ids, depth + 1)
    if k in CASTS:
        if not c:
            return "<cast>"
        return r(c[0])
    if k == "DeclRefExpr":
        nm = n.get("n", "?")
        if n.get("loc") and ids:
            return "%s#%d" % (nm, n["d"])
        return nm
    if k == "CXXThisExpr":
        return "this"
    if k == "MemberExpr":
        base = r(c[0]) if c else "this"
        nm = n.get("n", "?").split("::")[-1]
        return "%s%s%s" % (base, "->" if n.get("arrow") else ".", nm)
    if k in ("CXXDependentScopeMemberExpr", "UnresolvedMemberExpr"):
        base = r(c[0]) if c else "this"
        return "%s%s%s" % (base, "->" if n.get("arrow") else ".", n.get("n", "?"))
    if k in ("UnresolvedLookupExpr", "DependentScopeDeclRefExpr"):
        return n.get("n", "?")
    if k in ("IntegerLiteral", "FloatingLiteral"):
        return str(n.get("v"))
    if k == "CharacterLiteral":
        v = n.get("v", 0)
        return repr(chr(v)) if 0 <= v < 0x110000 else str(v)
    if k == "StringLiteral":
        return json.dumps(n.get("v", ""))
    if k == "CXXBoolLiteralExpr":
        return "true" if n.get("v") else "false"
    if k in ("GNUNullExpr", "CXXNullPtrLiteralExpr"):
        return "NULL"
    if k in ("BinaryOperator", "CompoundAssignOperator"):
        return "(%s %s %s)" % (r(c[0]), n.get("op"), r(c[1]))
    if k == "UnaryOperator":
        if n.get("post"):
            return "(%s%s)" % (r(c[0]), n.get("op"))
        return "(%s%s)" % (n.get("op"), r(c[0]))
    if k == "ConditionalOperator":
        return "(%s ? %s : %s)" % (r(c[0]), r(c[1]), r(c[2]))
    if k == "ArraySubscriptExpr":
        return "%s[%s]" % (r(c[0]), r(c[1]))
    if k == "CXXOperatorCallExpr":
        op = n.get("op", "?")
        a = c[1:]
        if op == "[]" and len(a) == 2:
            return "%s[%s]" % (r(a[0]), r(a[1]))
        if op == "()" and a:
            return "%s(%s)" % (r(a[0]), ", ".join(r(x) for x in a[1:]))
        if len(a) == 2:
            return "(%s %s %s)" % (r(a[0]), op, r(a[1]))
        if len(a) == 1:
            return "(%s%s)" % (op, r(a[0]))
        return "operator%s(%s)" % (op, ", ".join(r(x) for x in a))
    if k == "CXXMemberCallExpr":
        return "%s(%s)" % (r(c[0]), ", ".join(r(x) for x in c[1:]))
    if k == "CallExpr":
        nm = n.get("callee") or (r(c[0]) if c else "?")
        return "%s(%s)" % (nm, ", ".join(r(x) for x in c[1:]))
    if k in ("CXXConstructExpr", "CXXTemporaryObjectExpr"):
        if len(c) == 1:
            return r(c[0])
        cls = n.get("ccls", "?")
        return "%s{%s}" % (cls, ", ".join(r(x) for x in c))
    if k == "CXXDefaultArgExpr":
        return r(c[0]) if c else "<default>"
    if k == "CXXNewExpr":
        return "new<%s>(%s)" % (n.get("nt"), ", ".join(r(x) for x in c))
    if k == "CXXDeleteExpr":
        return "delete %s" % (r(c[0]) if c else "?")
    if k == "UnaryExprOrTypeTraitExpr":
        return "sizeof(%s)" % (n.get("v", "?"))
    if k == "LambdaExpr":
        return "<lambda %s>" % n.get("lam", "")
    if k == "InitListExpr":
        return "{%s}" % ", ".join(r(x) for x in c)
    if k == "VarDecl":
        nm = "%s#%d" % (n.get("n"), n.get("d", -1)) if ids else str(n.get("n"))
        return "%s = %s" % (nm, r(c[0])) if c else nm
    return "%s(%s)" % (k, ", ".join(r(x) for x in c))


import re as _re


def noid(s):
    """drop the #declid suffixes of a rendered expression"""
    return _re.sub(r"#\d+", "", s)


class Func:
    __slots__ = ("d", "tu", "_nodes", "_parent", "_cfg", "prog")

    def __init__(self, d, tu, prog):
        self.d = d
        self.tu = tu
        self.prog = prog
        self._nodes = None
        self._parent = None
        self._cfg = None

    def __getattr__(self, k):
        try:
            return self.d[k]
        except KeyError:
            raise AttributeError(k)

    def get(self, k, default=None):
        return self.d.get(k, default)

    @property
    def q(self):
        return self.d["q"]

    @property
    def key(self):
        return self.d["key"]

    @property
    def body(self):
        return self.d["body"]

    @property
    def relfile(self):
        return os.path.relpath(self.d["file"], REPO)

    def type(self, n):
        t = n.get("t")
        if t is None:
            return ""
        return self.tu["types"][t]

    def tname(self, idx):
        return self.tu["types"][idx] if idx is not None else ""

    def roots(self):
        for i in self.d.get("inits", ()):
            yield i["e"]
        yield self.d["body"]

    def walk(self):
        for r in self.roots():
            yield from walk(r)

    @property
    def nodes(self):
        if self._nodes is None:
            self._index()
        return self._nodes

    @property
    def parent(self):
        if self._parent is None:
            self._index()
        return self._parent

    def _index(self):
        nodes, parent = {}, {}
        for r in self.roots():
            stack = [(r, None)]
            while stack:
                x, p = stack.pop()
                nodes[x["i"]] = x
                parent[x["i"]] = p
                for ch in kids(x):
                    stack.append((ch, x))
        self._nodes, self._parent = nodes, parent

    def ancestors(self, n):
        p = self.parent.get(n["i"])
        while p is not None:
            yield p
            p = self.parent.get(p["i"])

    def calls(self, name=None, pred=None):
        for n in self.walk():
            if is_call(n) and n.get("callee") is not None:
                if name is not None:
                    cq = n.get("callee", "")
                    if isinstance(name, str):
                        if cq != name:
                            continue
                    elif cq not in name:
                        continue
                if pred and not pred(n):
                    continue
                yield n

    def param_ids(self):
        return {p["d"]: p for p in self.d["params"]}

    def site(self, n):
        return "%s:%s" % (self.relfile, n.get("l", self.d["line"]))

    @property
    def cfg(self):
        if self._cfg is None:
            from .cfg import CFG
            self._cfg = CFG(self)
        return self._cfg

    def local_defs(self):
        """decl id -> list of defining nodes (VarDecl init or assignment) for locals"""
        defs = {}
        for n in self.walk():
            k = n["k"]
            if k == "VarDecl":
                defs.setdefault(n["d"], []).append(n)
            elif k in ("BinaryOperator", "CompoundAssignOperator") and n.get("op", "").endswith("=") and n.get("op") not in ("==", "!=", "<=", ">="):
                lhs = strip(kids(n)[0])
                if lhs["k"] == "DeclRefExpr" and lhs.get("loc"):
                    defs.setdefault(lhs["d"], []).append(n)
            elif k == "UnaryOperator" and n.get("op") in ("++", "--"):
                x = strip(kids(n)[0])
                if x["k"] == "DeclRefExpr" and x.get("loc"):
                    defs.setdefault(x["d"], []).append(n)
            elif k == "CXXOperatorCallExpr" and n.get("op", "") in ("=", "+=", "-=", "*=", "/=", "<<=", ">>=", "|=", "&=", "^=", "++", "--"):
                c = kids(n)
                if len(c) > 1:
                    x = strip(c[1])
                    if x["k"] == "DeclRefExpr" and x.get("loc"):
                        defs.setdefault(x["d"], []).append(n)
        return defs


class Program:
    def __init__(self, files, variant="default"):
        self.variant = variant
        self.funcs = {}
        self.by_q = {}
        self.records = {}
        self.enums = {}
        self.globals = {}
        self.typedefs = {}
        self.units = []
        self.n_dup = 0
        for unit, path in sorted(files.items()):
            with open(path) as f:
                tu = json.load(f)
            if tu.get("errors"):
                raise AnalysisBroken("unit has %d parse errors: %s" % (tu["errors"], unit))
            self.units.append(unit)
            for fd in tu["functions"]:
                if fd["key"] in self.funcs:
                    self.n_dup += 1
                    continue
                fn = Func(fd, tu, self)
                self.funcs[fd["key"]] = fn
                self.by_q.setdefault(fd["q"], []).append(fn)
            for r in tu["records"]:
                self.records.setdefault(r["ty"], r)
            for e in tu["enums"]:
                self.enums.setdefault(e["q"], e)
            for g in tu["globals"]:
                if g["q"] not in self.globals:
                    g["_tu"] = tu
                    self.globals[g["q"]] = g
            for t in tu.get("typedefs", ()):
                self.typedefs.setdefault(t["q"], t)

    # ---- lookup -------------------------------------------------------
    def fns(self, q, sig=None, file=None, tmpl=None, nparams=None):
        out = []
        for f in self.by_q.get(q, ()):
            if sig is not None and sig not in f.d["sig"]:
                continue
            if file is not None and not f.d["file"].endswith(file):
                continue
            if nparams is not None and len(f.d["params"]) != nparams:
                continue
            t = f.d.get("tmpl")
            if tmpl is None and t == "inst":
                continue  # by default the written definition (pattern or plain)
            if tmpl is not None and t != tmpl:
                continue
            out.append(f)
        return out

    def fn(self, q, **kw):
        """the unique definition named q; a vanished or ambiguous anchor is analysis-broken"""
        r = self.fns(q, **kw)
        if len(r) != 1:
            raise AnalysisBroken("anchor %s %s: expected exactly one definition, found %d (%s)" % (
                q, kw or "", len(r), ", ".join(f.d["sig"] for f in r)))
        return r[0]

    def record(self, q):
        r = self.records.get(q)
        if r is None:
            for v in self.records.values():
                if v["q"] == q and v.get("tmpl") != "inst":
                    return v
            raise AnalysisBroken("anchor record vanished: " + q)
        return r

    def methods_of(self, cls):
        return [f for f in self.funcs.values() if f.d.get("cls") == cls and f.d.get("tmpl") != "inst"]

    def subclasses(self, cls, transitive=True):
        out = []
        work = [cls]
        seen = {cls}
        while work:
            b = work.pop()
            for r in self.records.values():
                if r.get("tmpl") == "inst":
                    continue
                if any(x.get("q") == b for x in r["bases"]) and r["q"] not in seen:
                    seen.add(r["q"])
                    out.append(r["q"])
                    if transitive:
                        work.append(r["q"])
        return out

    def bases(self, cls, transitive=True):
        out = []
        work = [cls]
        while work:
            b = work.pop()
            r = None
            for v in self.records.values():
                if v["q"] == b and v.get("tmpl") != "inst":
                    r = v
                    break
            if not r:
                continue
            for x in r["bases"]:
                if x.get("q") and x["q"] not in out:
                    out.append(x["q"])
                    if transitive:
                        work.append(x["q"])
        return out

    def overriders(self, method_q):
        """functions (definitions) that override method_q, transitively, including itself"""
        out = [f for f in self.by_q.get(method_q, ()) if f.d.get("tmpl") != "inst"]
        names = {method_q}
        changed = True
        while changed:
            changed = False
            for f in self.funcs.values():
                ov = f.d.get("overrides")
                if ov and f.q not in names and any(o in names for o in ov):
                    names.add(f.q)
                    changed = True
        for nm in names:
            if nm == method_q:
                continue
            out.extend(f for f in self.by_q.get(nm, ()) if f.d.get("tmpl") != "inst")
        return out

    def resolve_call(self, n, virtual=True):
        """definitions a call may reach: the static callee plus (for virtual dispatch) its overriders"""
        out = []
        k = n.get("cdef")
        if k and k in self.funcs:
            out.append(self.funcs[k])
        elif n.get("callee"):
            cands = self.fns(n["callee"])
            sig = n.get("csig")
            m = [f for f in cands if f.d["sig"] == sig]
            out.extend(m if m else (cands if len(cands) == 1 else []))
        if virtual and n.get("vdisp") and n.get("callee"):
            for f in self.overriders(n["callee"]):
                if f not in out and len(f.d["params"]) == len([1 for _ in call_args(n)]):
                    out.append(f)
        return out

    def callgraph_from(self, roots, depth=50, virtual=True, follow_lambdas=True):
        """reachable definitions from root Funcs via resolved calls (and lambdas defined inside)"""
        seen = {}
        work = [(r, 0, None) for r in roots]
        while work:
            f, d, via = work.pop()
            if f.key in seen:
                continue
            seen[f.key] = (f, d, via)
            if d >= depth:
                continue
            for n in f.walk():
                if is_call(n) or (n["k"] in ("DeclRefExpr", "MemberExpr") and n.get("callee")):
                    for g in self.resolve_call(n, virtual):
                        if g.key not in seen:
                            work.append((g, d + 1, f.key))
                if follow_lambdas and n["k"] == "LambdaExpr":
                    g = self.funcs.get(n.get("lam"))
                    if g and g.key not in seen:
                        work.append((g, d, f.key))
        return seen


def load_program(units, variant="default"):
    from . import work
    files, cached = work.extract(units, variant)
    p = Program(files, variant)
    p.cached_units = cached
    return p
