"""PAREN: embedding discipline for expression-building transforms.

Abstract value of an expression-node-valued C++ expression = set of operators that may stand at the top of the
tree it denotes:
   frozenset()            primary / parenthesised / built as a leaf: can be embedded anywhere
   {"ANY"}                an arbitrary user expression (any operator may be at the top)
   {"OPERAND:<opvar>"}    an operand taken out of the user's own binary node <opvar>: binds at least as tightly as that position required
   {"+", "*", ...}        a node the transform built itself with that operator at the top
Sinks are the operand slots of operator nodes the transform constructs. Binding strengths come from the repository's own
operator table (third constructor argument of the operator objects in operator.cpp).
"""
from .facts import kids, strip, walk, is_call, call_args, call_object, callee, render, literal, noid
from .work import AnalysisBroken

ANY = frozenset(["ANY"])
CLEAN = frozenset()
ASSIGN = {"=", "+=", "-=", "*=", "/=", "%=", "&=", "|=", "^=", "<<=", ">>="}
SANITISERS = {"occa::lang::exprNode::wrapInParentheses", "occa::lang::expr::parens"}
CLONES = {"occa::lang::exprNode::clone", "occa::lang::expr::cloneExprNode", "occa::lang::expr::popExprNode", "occa::lang::expr::usingExprNode"}
LEAF_CTORS = {"occa::lang::primitiveNode::primitiveNode", "occa::lang::variableNode::variableNode"}
NS = "occa::lang::"


def operator_table(prog):
    """{global name: (spelling, precedence)} from the operator objects of operator.cpp"""
    tab = {}
    for q, g in prog.globals.items():
        if not q.startswith("occa::lang::op::") or "init" not in g:
            continue
        a = kids(strip(g["init"])) if strip(g["init"])["k"] in ("CXXConstructExpr", "CXXTemporaryObjectExpr") else []
        if len(a) >= 3 and isinstance(literal(a[0]), str) and isinstance(literal(a[2]), int):
            tab[q] = (literal(a[0]), literal(a[2]), g["t"])
    if len(tab) < 30:
        raise AnalysisBroken("operator table: only %d operator objects found in operator.cpp facts" % len(tab))
    return tab


class Paren:
    def __init__(self, prog, fn, sources, report):
        """sources: callable(fn, node) -> abstract value or None for expression nodes that denote user expressions"""
        self.prog = prog
        self.f = fn
        self.sources = sources
        self.report = report          # callable(ok, site-node, key, detail)
        self.tab = operator_table(prog)
        self.bin_prec = {sp: pr for (sp, pr, t) in self.tab.values() if "binaryOperator_t" in t}
        self.val = {}
        self.params = {p["d"]: p for p in fn.d["params"]}
        self.n_sinks = 0

    # ---- operator argument -> set of (spelling | "VAR:<name>") -------------------------
    def ops_of(self, e):
        e = strip(e)
        if e is None:
            return {"?"}
        if e["k"] == "DeclRefExpr":
            q = e.get("n", "")
            if q in self.tab:
                return {self.tab[q][0]}
            if e.get("loc"):
                out = set()
                for dn in self.f.local_defs().get(e["d"], []):
                    if dn["k"] == "VarDecl" and kids(dn):
                        out |= self.ops_of(kids(dn)[0])
                return out or {"VAR:" + q}
            return {"VAR:" + q}
        if e["k"] == "ConditionalOperator":
            return self.ops_of(kids(e)[1]) | self.ops_of(kids(e)[2])
        if e["k"] == "MemberExpr" and e.get("n", "").endswith("::op"):
            return {"VAR:" + noid(render(e, False))}
        return {"VAR:" + noid(render(e, False))}

    # ---- abstract evaluation -------------------------------------------------------------
    def ev(self, e, depth=0):
        if e is None or depth > 40:
            return ANY
        e = strip(e)
        if e is None:
            return ANY
        s = self.sources(self.f, e)
        if s is not None:
            return s
        k = e["k"]
        c = kids(e)
        if k == "DeclRefExpr":
            if e.get("loc") and e["d"] not in self.params:
                return self.val.get(e["d"], CLEAN)
            return ANY if self.is_expr_type(e) else CLEAN
        if k == "UnaryOperator" and e.get("op") in ("*", "&"):
            return self.ev(c[0], depth + 1)
        if k == "ConditionalOperator":
            return self.ev(c[1], depth + 1) | self.ev(c[2], depth + 1)
        if k == "MemberExpr":
            nm = e.get("n", "")
            if nm == NS + "expr::node":
                return self.ev(c[0], depth + 1) if c else ANY
            return ANY if self.is_expr_type(e) else CLEAN
        if k == "CXXNewExpr":
            for x in c:
                if strip(x)["k"] in ("CXXConstructExpr", "CXXTemporaryObjectExpr"):
                    return self.ev(x, depth + 1)
            return ANY
        if k in ("CXXConstructExpr", "CXXTemporaryObjectExpr"):
            cq = callee(e)
            if cq == NS + "binaryOpNode::binaryOpNode" and len(c) == 4:
                return self.sink(e, c[1], c[2], c[3])
            if cq in LEAF_CTORS:
                return CLEAN
            if cq == NS + "expr::expr":
                if len(c) == 1:
                    t = self.f.type(strip(c[0], explicit=False))
                    if "variable_t" in t:
                        return CLEAN
                    return self.ev(c[0], depth + 1)
                if len(c) == 0:
                    return CLEAN
                return CLEAN          # (token, variable) / (token, primitive)
            if cq in (NS + "leftUnaryOpNode::leftUnaryOpNode", NS + "rightUnaryOpNode::rightUnaryOpNode"):
                return frozenset(["unary"])
            if cq == NS + "subscriptNode::subscriptNode":
                return CLEAN
            if len(c) == 1:
                return self.ev(c[0], depth + 1)
            return ANY if self.is_expr_type(e) else CLEAN
        if is_call(e):
            cq = callee(e)
            if cq in SANITISERS or cq.endswith("::wrapInParentheses"):
                return CLEAN
            if cq in CLONES:
                o = call_object(e)
                a = call_args(e)
                return self.ev(o if o is not None else (a[0] if a else None), depth + 1)
            if cq == NS + "expr::binaryOpExpr":
                a = call_args(e)
                return self.sink(e, a[0], a[1], a[2])
            if cq.startswith(NS + "operator") and e["k"] == "CXXOperatorCallExpr" and len(c) == 3:
                return self.sink(e, None, c[1], c[2], spelling=e.get("op"))
            if cq == NS + "expr::operator[]":
                base = call_object(e)
                v = self.ev(base, depth + 1)
                self.check(e, "[]", "L", v)
                return CLEAN
            if cq in (NS + "expr::leftUnaryOpExpr", NS + "expr::rightUnaryOpExpr") or cq.startswith(NS + "expr::operator++") or cq.startswith(NS + "expr::operator--"):
                return frozenset(["unary"])
            if cq.endswith("::to") and call_object(e) is not None:
                return self.ev(call_object(e), depth + 1)
            if cq == NS + "expr::operator=":
                return self.ev(call_args(e)[0], depth + 1)
            return ANY if self.is_expr_type(e) else CLEAN
        if k == "CXXOperatorCallExpr" and e.get("op") == "[]" and len(c) == 3:
            # element of a vector of expression nodes: classified by sources(); default conservative
            return ANY if self.is_expr_type(e) else CLEAN
        return ANY if self.is_expr_type(e) else CLEAN

    def is_expr_type(self, e):
        t = self.f.type(e)
        return "exprNode" in t or t.replace("const ", "").strip().startswith("occa::lang::expr") or "binaryOpNode" in t or t.strip() in ("expr", "const expr")

    # ---- sinks ----------------------------------------------------------------------------
    def sink(self, node, opexpr, left, right, spelling=None):
        ops = {spelling} if spelling else self.ops_of(opexpr)
        lv, rv = self.ev(left), self.ev(right)
        for op in ops:
            self.check(node, op, "L", lv, left)
            self.check(node, op, "R", rv, right)
        return frozenset(ops)

    def check(self, node, op, side, v, operand=None):
        done = getattr(self, "_done", None)
        if done is not None:
            k_ = (node["i"], op, side)
            if k_ in done:
                return
            done.add(k_)
        self.n_sinks += 1
        bad = []
        for top in v:
            if not self.allowed(op, side, top):
                bad.append(top)
        what = noid(render(operand, False))[:60] if operand is not None else noid(render(node, False))[:60]
        key = "embed:%s operand of %s <- %s" % ("left" if side == "L" else "right", op, what)
        if not bad:
            self.report(True, node, key, "operand is primary/parenthesised or binds tighter than `%s` (top operators: %s)" % (op, sorted(v) or "none"))
        else:
            self.report(False, node, key,
                        "a sub-expression that may have %s at its top is embedded bare as the %s operand of `%s`: printed without parentheses it re-associates "
                        "(wrap it with wrapInParentheses()/expr::parens)" % ("any operator" if "ANY" in bad else "operator(s) %s" % bad, "left" if side == "L" else "right", op))

    def allowed(self, op, side, top):
        if top == "unary":
            return True
        if op in ASSIGN:
            return side == "R" or top not in ("ANY",) and not top.startswith("OPERAND:")
        if op == "[]":
            return False   # subscript base must be primary
        if op.startswith("VAR:"):
            # an operator taken from the user's own node: its own former operands may return to the same kind of slot
            return top.startswith("OPERAND:") and top.split(":", 1)[1].split(".")[0] in op
        if top == "ANY":
            return False
        if top.startswith("OPERAND:"):
            return False
        if top.startswith("VAR:"):
            return False
        if top in ASSIGN:
            return False
        po, pt = self.bin_prec.get(op), self.bin_prec.get(top)
        if po is None or pt is None:
            return False
        if pt < po:
            return True
        if pt > po:
            return False
        # same precedence class
        if side == "L":
            return True                      # left-associative: (a top b) op c prints the same
        if op == "+" and top in ("+", "-"):
            return True                      # a + (b - c) == a + b - c
        if op == "*" and top == "*":
            return True
        return False

    # ---- driver ------------------------------------------------------------------------------
    def run(self):
        f = self.f
        defs = f.local_defs()
        # fixpoint over local definitions
        for _ in range(6):
            changed = False
            for d, ds in defs.items():
                v = CLEAN
                relevant = False
                for dn in ds:
                    if dn["k"] == "VarDecl":
                        if not kids(dn):
                            continue
                        if not (self.is_expr_type(dn) or "expr" in f.tname(dn.get("t"))):
                            continue
                        relevant = True
                        saved = self.report
                        self.report = lambda *a, **k: None
                        v = v | self.ev(kids(dn)[0])
                        self.report = saved
                    elif dn["k"] in ("BinaryOperator",) and dn.get("op") == "=":
                        relevant = True
                        saved = self.report
                        self.report = lambda *a, **k: None
                        v = v | self.ev(kids(dn)[1])
                        self.report = saved
                    elif dn["k"] == "CXXOperatorCallExpr" and dn.get("op") == "=" and len(kids(dn)) == 3:
                        relevant = True
                        saved = self.report
                        self.report = lambda *a, **k: None
                        v = v | self.ev(kids(dn)[2])
                        self.report = saved
                if relevant and self.val.get(d) != v:
                    self.val[d] = v
                    changed = True
            if not changed:
                break
        # report pass: evaluate every construction; each operand slot is reported once
        self.n_sinks = 0
        self._done = set()
        for n in f.walk():
            top = False
            if n["k"] in ("CXXConstructExpr", "CXXTemporaryObjectExpr") and callee(n) == NS + "binaryOpNode::binaryOpNode":
                top = True
            elif is_call(n) and (callee(n) == NS + "expr::binaryOpExpr" or callee(n) == NS + "expr::operator[]" or
                                 (callee(n).startswith(NS + "operator") and n["k"] == "CXXOperatorCallExpr" and len(kids(n)) == 3)):
                top = True
            if top:
                self.ev(n)
        return self.n_sinks
