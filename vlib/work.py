"""Work directory: generated headers, compile database, extractor runs (cached per unit by
content hash of the unit's real dependency set), fact loading.

Nothing here reads /repo/_build: the generated headers are synthesised from
/repo/scripts exactly as cmake does for the pinned configuration.
"""
import hashlib
import json
import os
import re
import shutil
import subprocess
import sys
from concurrent.futures import ThreadPoolExecutor

VERIF = os.path.dirname(os.path.dirname(os.path.abspath(__file__)))
REPO = os.environ.get("VERIF_REPO", "/repo")
WORK = os.path.join(VERIF, ".work")
EXTRACTOR = os.path.join(VERIF, "tools", "occa-facts")

DEFINES = {
    "OCCA_OS": "OCCA_LINUX_OS",
    "OCCA_USING_VS": "0",
    "OCCA_UNSAFE": "0",
    "OCCA_OPENMP_ENABLED": "1",
    "OCCA_OPENCL_ENABLED": "0",
    "OCCA_CUDA_ENABLED": "0",
    "OCCA_HIP_ENABLED": "0",
    "OCCA_METAL_ENABLED": "0",
    "OCCA_DPCPP_ENABLED": "0",
    "OCCA_THREAD_SHARABLE_ENABLED": "0",
    "OCCA_MAX_ARGS": "128",
    "OCCA_SOURCE_DIR": '"%s"' % REPO,
    "OCCA_BUILD_DIR": '"%s/_build"' % REPO,
}

VARIANTS = {
    "default": {},
    "sharable": {"OCCA_THREAD_SHARABLE_ENABLED": "1"},
    "unsafe": {"OCCA_UNSAFE": "1"},
}


class AnalysisBroken(Exception):
    """exit 2: a unit did not parse, an anchor vanished, a rule matched fewer instances than its floor"""


def _sha(b):
    return hashlib.sha256(b).hexdigest()


def gen_dir(variant):
    # the generated header names the source directory: checks that run on another tree (VERIF_REPO: selftest scratch copies) get their own
    # directory, otherwise concurrent runs on different trees would keep rewriting one shared header under each other's extractors
    if REPO == "/repo":
        return os.path.join(WORK, "gen", variant)
    return os.path.join(WORK, "gen", "%s-%s" % (variant, hashlib.sha256(REPO.encode()).hexdigest()[:12]))


def make_gen(variant):
    """instantiate compiledDefines.hpp and copy codegen files like cmake/CodeGen.cmake does"""
    g = gen_dir(variant)
    inc = os.path.join(g, "include")
    os.makedirs(os.path.join(inc, "occa", "defines"), exist_ok=True)
    os.makedirs(os.path.join(inc, "codegen"), exist_ok=True)
    tpl_path = os.path.join(REPO, "scripts/build/compiledDefinesTemplate.hpp.in")
    if not os.path.isfile(tpl_path):
        raise AnalysisBroken("missing " + tpl_path)
    defs = dict(DEFINES)
    defs.update(VARIANTS[variant])
    out = []
    for line in open(tpl_path):
        m = re.match(r"#cmakedefine01\s+(\w+)", line)
        if m:
            out.append("#define %s %s\n" % (m.group(1), defs.get(m.group(1), "0")))
            continue
        m = re.match(r"#cmakedefine\s+(\w+)\s+(.*)", line)
        if m:
            name = m.group(1)
            if name in defs:
                out.append("#define %s %s\n" % (name, defs[name]))
            continue
        out.append(line)
    _write_if_changed(os.path.join(inc, "occa/defines/compiledDefines.hpp"), "".join(out))
    cg = os.path.join(REPO, "scripts/codegen")
    for fn in os.listdir(cg):
        if fn.endswith("_codegen.in"):
            _write_if_changed(os.path.join(inc, "codegen", fn[:-3]), open(os.path.join(cg, fn)).read())
    return inc


def _write_if_changed(path, text):
    if os.path.isfile(path) and open(path).read() == text:
        return
    tmp = "%s.%d.tmp" % (path, os.getpid())     # atomic: a concurrent reader never sees a truncated header
    with open(tmp, "w") as f:
        f.write(text)
    os.replace(tmp, path)


def flags(variant):
    inc = os.path.join(gen_dir(variant), "include")
    return [
        "clang++", "-std=gnu++17", "-UNDEBUG", "-DUSE_CMAKE", "-Dlibocca_EXPORTS",
        "-I%s/include" % REPO, "-I%s" % inc, "-I%s/src" % REPO,
        "-fopenmp", "-fsyntax-only", "-w",
    ]


def all_units():
    out = []
    for root, _, files in os.walk(os.path.join(REPO, "src")):
        for f in files:
            if f.endswith(".cpp"):
                out.append(os.path.join(root, f))
    return sorted(out)


def _unit_out(variant, unit):
    rel = os.path.relpath(unit, "/").replace("/", "__")
    d = os.path.join(WORK, "facts", variant)
    os.makedirs(d, exist_ok=True)
    return os.path.join(d, rel + ".json")


def _extractor_id():
    st = os.stat(EXTRACTOR)
    return "%d:%d" % (st.st_size, int(st.st_mtime))


def _deps_hash(deps, variant):
    h = hashlib.sha256()
    h.update(_extractor_id().encode())
    h.update(" ".join(flags(variant)).encode())
    for d in sorted(deps):
        try:
            with open(d, "rb") as f:
                h.update(d.encode())
                h.update(hashlib.sha256(f.read()).digest())
        except OSError:
            h.update(("missing:" + d).encode())
    return h.hexdigest()


def _relevant(dep, variant):
    return dep.startswith(REPO + "/") or dep.startswith(gen_dir(variant))


def _run_unit(args):
    variant, unit = args
    out = _unit_out(variant, unit)
    stamp = out + ".stamp"
    if os.path.isfile(out) and os.path.isfile(stamp):
        try:
            st = json.load(open(stamp))
            if st["hash"] == _deps_hash(st["deps"], variant):
                return (unit, out, True, "")
        except Exception:
            pass
    tmp_out = "%s.%d.tmp" % (out, os.getpid())    # written aside and renamed: concurrent checks may extract the same unit
    cmd = [EXTRACTOR, "-o", tmp_out, "--root", REPO + "/", "--extra-root", gen_dir(variant) + "/", unit, "--"] + flags(variant)[1:]
    p = subprocess.run(cmd, stdout=subprocess.PIPE, stderr=subprocess.PIPE, text=True)
    if p.returncode != 0 or not os.path.isfile(tmp_out):
        if os.path.isfile(tmp_out):
            os.remove(tmp_out)
        return (unit, out, False, "extractor failed on %s:\n%s" % (unit, p.stderr[-3000:]))
    os.replace(tmp_out, out)
    # dependency list from the facts file (cheap scan of the head)
    with open(out) as f:
        data = json.load(f)
    deps = [d for d in data.get("deps", []) if _relevant(d, variant)]
    if unit not in deps:
        deps.append(unit)
    tmp_stamp = "%s.%d.tmp" % (stamp, os.getpid())
    with open(tmp_stamp, "w") as f:
        json.dump({"deps": deps, "hash": _deps_hash(deps, variant)}, f)
    os.replace(tmp_stamp, stamp)
    return (unit, out, False, "")


def extract(units, variant="default", jobs=None):
    """run the extractor over the given absolute unit paths; returns {unit: facts-file}"""
    if not os.path.isfile(EXTRACTOR):
        import fcntl
        os.makedirs(WORK, exist_ok=True)
        with open(os.path.join(WORK, "extractor.lock"), "w") as lk:      # checks started in parallel build it once
            fcntl.flock(lk, fcntl.LOCK_EX)
            if not os.path.isfile(EXTRACTOR):
                r = subprocess.run(["make", "-C", os.path.join(VERIF, "tools")], stdout=subprocess.PIPE, stderr=subprocess.STDOUT, text=True)
                if r.returncode != 0:
                    raise AnalysisBroken("cannot build extractor:\n" + r.stdout[-2000:])
    make_gen(variant)
    for u in units:
        if not os.path.isfile(u):
            raise AnalysisBroken("anchor unit vanished: " + u)
    jobs = jobs or min(16, os.cpu_count() or 4)
    res = {}
    cached = 0
    with ThreadPoolExecutor(max_workers=jobs) as ex:
        for unit, out, was_cached, err in ex.map(_run_unit, [(variant, u) for u in units]):
            if err:
                raise AnalysisBroken(err)
            res[unit] = out
            cached += was_cached
    return res, cached


def syntax_check(source_path, variant="default", extra=()):
    """compile a witness TU with -fsyntax-only against the current headers; returns (ok, stderr)"""
    make_gen(variant)
    cmd = flags(variant) + list(extra) + ["-ferror-limit=0", source_path]
    cmd = [c for c in cmd if c != "-w"]
    p = subprocess.run(cmd, stdout=subprocess.PIPE, stderr=subprocess.PIPE, text=True)
    return p.returncode == 0, p.stderr
