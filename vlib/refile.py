"""Re-file the obligations of another property's rule module under this property's rule ids (shared clauses)."""


class _ProxyReport:
    def __init__(self, R, mapping, label, keep=None):
        self.R = R
        self.keep = keep            # optional predicate (rule, key) -> bool: which obligations of a mapped rule are shared
        self.mapping = mapping      # {source rule id: target rule id}; unmapped rules are dropped
        self.label = label
        self.analysed = R.analysed
        self.assumptions = []
        self.explanation = ""
        self.rules = {}
        self.obl = []
        self.meta = {}

    def rule(self, rid, desc, floor=1):
        self.rules[rid] = {"desc": desc, "floor": floor, "n": 0}
        if rid in self.mapping and self.mapping[rid] not in self.R.rules:
            self.R.rule(self.mapping[rid], "(shared with %s) %s" % (self.label, desc), floor)

    def ob(self, rule, ok, function, key, site="", detail="", nontrivial=True, path=None):
        self.rules.setdefault(rule, {"desc": "", "floor": 0, "n": 0})["n"] += 1
        self.obl.append({"rule": rule, "ok": ok, "function": function})
        if rule in self.mapping and (self.keep is None or self.keep(rule, key)):
            return self.R.ob(self.mapping[rule], ok, function, key, site, detail, nontrivial, path)
        return ok


class _ProxyCtx:
    def __init__(self, ctx, mapping, label, keep=None):
        self.ctx = ctx
        self.R = _ProxyReport(ctx.R, mapping, label, keep)
        self.tier = ctx.tier
        self.prop = ctx.prop

    def program(self, units, *a, **k):
        return self.ctx.program(units, *a, **k)


def refile(ctx, module, mapping, label, keep=None):
    module.run(_ProxyCtx(ctx, mapping, label, keep))
