"""TERM: closed form of the expression tree a builder function returns, per header configuration.

A builder such as oklForStatement::getIterationCount() assembles an exprNode tree out of the validated loop header (initial value, bound,
step) with `new binaryOpNode(src, op::X, l, r)`, `primitiveNode(src, k)`, wrapInParentheses() and clone(). Which nodes it assembles depends only
on a handful of boolean header facts (inclusive comparison, explicit step, direction). For one assignment of those facts the function is
straight-line code, so an abstract execution over the statement tree yields the *term* it returns; the term is then brought to the normal form

        numerator / denominator + outside            (all three polynomials over the header symbols, integer coefficients)

With C's truncating division and a symbolic denominator that normal form is unique: two builders denote the same function of the header values
exactly when their normal forms are equal (n/m + 1 and (n + m)/m differ for -m < n < 0, i.e. for an empty loop). A shape the interpreter does not know
(another operator, a loop, an unknown condition) raises TermError - the caller reports analysis-broken, never a verdict.
"""
from .facts import kids, strip, walk, is_call, call_args, call_object, callee, render, literal, noid, declref, decl_of

NS = "occa::lang::"
TRANSPARENT_CALLS = ("::wrapInParentheses", "::clone", "::cloneExprNode", "::to", "expr::parens", "expr::popExprNode", "expr::createStatement")
DSL_OPS = ("+", "-", "*", "/", "%", "+=", "-=", "<", "<=", ">", ">=")
IGNORED_STMTS = ("CXXDeleteExpr", "NullStmt")


class TermError(Exception):
    pass


class NeedChoice(Exception):
    """a condition that is no header fact of the configuration was met: the caller explores both outcomes"""
    def __init__(self, text):
        Exception.__init__(self, text)
        self.text = text


# ---- polynomials ----------------------------------------------------------------------------------------------------
class Poly:
    def __init__(self, m=None):
        self.m = {k: v for k, v in (m or {}).items() if v != 0}

    @staticmethod
    def const(c):
        return Poly({(): c})

    @staticmethod
    def sym(s):
        return Poly({(s,): 1})

    def __add__(self, o):
        o = _p(o)
        m = dict(self.m)
        for k, v in o.m.items():
            m[k] = m.get(k, 0) + v
        return Poly(m)

    def __neg__(self):
        return Poly({k: -v for k, v in self.m.items()})

    def __sub__(self, o):
        return self + (-_p(o))

    def __mul__(self, o):
        o = _p(o)
        m = {}
        for k1, v1 in self.m.items():
            for k2, v2 in o.m.items():
                k = tuple(sorted(k1 + k2))
                m[k] = m.get(k, 0) + v1 * v2
        return Poly(m)

    __radd__ = __add__
    __rmul__ = __mul__

    def __rsub__(self, o):
        return _p(o) - self

    def __eq__(self, o):
        return isinstance(o, Poly) and self.m == o.m

    def __hash__(self):
        return hash(tuple(sorted(self.m.items())))

    def is_zero(self):
        return not self.m

    def __repr__(self):
        if not self.m:
            return "0"
        out = []
        for k, v in sorted(self.m.items(), key=lambda kv: (len(kv[0]), kv[0])):
            mono = "*".join(k)
            if not mono:
                s = str(abs(v))
            elif abs(v) == 1:
                s = mono
            else:
                s = "%d*%s" % (abs(v), mono)
            out.append(("- " if v < 0 else "+ ") + s)
        r = " ".join(out)
        return r[2:] if r.startswith("+ ") else "-" + r[2:]


def _p(x):
    return x if isinstance(x, Poly) else Poly.const(x)


class NF:
    """num/den + out; den None means a pure polynomial `out`"""

    def __init__(self, out, num=None, den=None):
        self.out, self.num, self.den = _p(out), num, den

    @staticmethod
    def quot(num, den):
        return NF(Poly.const(0), _p(num), _p(den))

    def __add__(self, o):
        o = o if isinstance(o, NF) else NF(o)
        if self.den is not None and o.den is not None:
            raise TermError("sum of two quotients")
        a, b = (self, o) if self.den is not None else (o, self)
        return NF(a.out + b.out, a.num, a.den)

    __radd__ = __add__

    def __eq__(self, o):
        return isinstance(o, NF) and self.out == o.out and self.num == o.num and self.den == o.den

    def __repr__(self):
        if self.den is None:
            return repr(self.out)
        q = "(%r) / (%r)" % (self.num, self.den)
        return q if self.out.is_zero() else "%s + %r" % (q, self.out)


def normal_form(t):
    """term -> NF. term = ("c", int) | ("s", name) | (op, l, r) with op in + - * /"""
    if t[0] == "c":
        return NF(Poly.const(t[1]))
    if t[0] == "s":
        return NF(Poly.sym(t[1]))
    op, l, r = t[0], normal_form(t[1]), normal_form(t[2])
    if op == "+":
        return l + r
    if op == "-":
        if r.den is not None:
            raise TermError("quotient subtracted")
        return NF(l.out - r.out, l.num, l.den)
    if op == "*":
        if l.den is not None or r.den is not None:
            raise TermError("product with a quotient")
        return NF(l.out * r.out)
    if op == "/":
        if l.den is not None or r.den is not None:
            raise TermError("nested quotient")
        return NF.quot(l.out, r.out)
    raise TermError("operator %s outside + - * /" % op)


def show(t):
    if t[0] == "c":
        return str(t[1])
    if t[0] == "s":
        return t[1]
    if len(t) != 3:
        return "<%s>" % " ".join(str(x) for x in t)
    return "(%s %s %s)" % (show(t[1]), t[0], show(t[2]))


# ---- abstract execution of a builder ---------------------------------------------------------------------------------
class Builder:
    def __init__(self, prog, fn, fields, config, params=None, optable=None, sym_sources=None, op_sources=None, cond_fallback=None, container_sources=None):
        """fields : {member qualified-name suffix: symbol} for the header fields that denote user expressions
        config : {condition text (ids removed, blanks removed): bool} for the header facts
        params : {parameter name: symbol}"""
        self.prog, self.f, self.fields, self.config = prog, fn, fields, config
        self.params = params or {}
        self.env = {}
        self.why = {}
        self.sym_sources = sym_sources      # callable(node) -> term | None: nodes that denote parts of the user's loop header
        self.op_sources = op_sources        # callable(node) -> operator spelling | None
        self.container_sources = container_sources  # callable(base node) -> tag | None: `base[i]` denotes the symbol TAG[i]
        self.cond_fallback = cond_fallback  # callable(node) -> bool | None for conditions that are not header facts
        self.choices = None                 # list of outcomes for conditions outside the configuration (see explore())
        self._nchoice = 0
        self.taken = []
        self.captures = []                  # (kind, target text, term): values stored into statements / declarations
        if optable is None:
            from .paren import operator_table
            optable = operator_table(prog)
        self.ops = {q: sp for q, (sp, pr, t) in optable.items()}

    # conditions ---------------------------------------------------------------------------------------------------
    def cond(self, e):
        e = strip(e)
        if e["k"] == "UnaryOperator" and e.get("op") == "!":
            return not self.cond(kids(e)[0])
        if e["k"] == "ParenExpr":
            return self.cond(kids(e)[0])
        if e["k"] == "BinaryOperator" and e.get("op") in ("<", "<=", ">", ">=", "==", "!="):
            try:
                l, r = self.ev(kids(e)[0]), self.ev(kids(e)[1])
            except TermError:
                l = r = None
            if l is not None and l[0] == "c" and r[0] == "c":
                return {"<": l[1] < r[1], "<=": l[1] <= r[1], ">": l[1] > r[1], ">=": l[1] >= r[1], "==": l[1] == r[1], "!=": l[1] != r[1]}[e["op"]]
        if e["k"] == "CXXMemberCallExpr" and callee(e).endswith("::operator bool"):
            return self.cond(call_object(e))
        if e["k"] in ("CXXOperatorCallExpr", "BinaryOperator") and e.get("op") == "&":
            # flag test `V & (A | B)`: true iff one of the named flags is set in the configuration ("flag:<name>")
            mask = [x.get("n", "").split("::")[-1] for x in walk(kids(e)[-1]) if x["k"] == "DeclRefExpr" and "Type::" in x.get("n", "")]
            if mask and all(("flag:" + m) in self.config for m in mask):
                return any(self.config["flag:" + m] for m in mask)
        if e["k"] == "DeclRefExpr" and e.get("loc") and self.env.get(e.get("d")) and self.env[e["d"]][0] == "b":
            return self.env[e["d"]][1]
        if self.cond_fallback is not None:
            v = self.cond_fallback(e)
            if v is not None:
                return v
        if e["k"] == "MemberExpr" and ("member:" + e.get("n", "").split("::")[-1]) in self.config:
            return self.config["member:" + e.get("n", "").split("::")[-1]]
        key = noid(render(e, False)).replace(" ", "")
        while key.startswith("(") and key.endswith(")") and key not in self.config:
            key = key[1:-1]
        if key not in self.config:
            if self.choices is not None:
                if self._nchoice < len(self.choices):
                    v = self.choices[self._nchoice]
                    self._nchoice += 1
                    self.taken.append((key, v))
                    return v
                raise NeedChoice(key)
            raise TermError("condition `%s` is not a header fact of the configuration" % key)
        return self.config[key]

    # operators ----------------------------------------------------------------------------------------------------
    def op(self, e):
        e = strip(e)
        if self.op_sources is not None:
            o = self.op_sources(e)
            if o is not None:
                return o
        if e["k"] == "ConditionalOperator":
            return self.op(kids(e)[1] if self.cond(kids(e)[0]) else kids(e)[2])
        if e["k"] == "DeclRefExpr":
            if e.get("n") in self.ops:
                return self.ops[e["n"]]
            if e.get("loc") and self.env.get(e["d"]) and self.env[e["d"]][0] == "op":
                return self.env[e["d"]][1]
        raise TermError("operator argument `%s` not resolved" % noid(render(e, False)))

    # expressions --------------------------------------------------------------------------------------------------
    def ev(self, e, depth=0):
        if depth > 60:
            raise TermError("expression too deep")
        e = strip(e)
        k = e["k"]
        c = kids(e)
        if self.sym_sources is not None:
            t = self.sym_sources(e)
            if t is not None:
                return t
        if k in ("ExprWithCleanups", "MaterializeTemporaryExpr", "CXXBindTemporaryExpr", "ParenExpr", "CXXDefaultArgExpr"):
            return self.ev(c[0], depth + 1)
        if k == "BinaryOperator" and e.get("op") in ("+", "-", "*") and "int" in self.f.type(e) and "*" not in self.f.type(e):
            l, r = self.ev(c[0], depth + 1), self.ev(c[1], depth + 1)
            if l[0] == "c" and r[0] == "c":
                return ("c", {"+": l[1] + r[1], "-": l[1] - r[1], "*": l[1] * r[1]}[e["op"]])
            return (e["op"], l, r)
        if self.container_sources is not None and ((k == "CXXOperatorCallExpr" and e.get("op") == "[]" and len(c) == 3) or k == "ArraySubscriptExpr"):
            base, idx = (c[1], c[2]) if k == "CXXOperatorCallExpr" else (c[0], c[1])
            tag = self.container_sources(strip(base))
            if tag is not None:
                it = self.ev(idx, depth + 1)
                return ("s", "%s[%s]" % (tag, show(it)))
        if k == "CXXOperatorCallExpr" and e.get("op") == "[]" and callee(e) == NS + "expr::operator[]" and len(c) == 3:
            return ("[]", self.ev(c[1], depth + 1), self.ev(c[2], depth + 1))
        if k == "CXXOperatorCallExpr" and e.get("op") in DSL_OPS and callee(e).startswith(NS + "operator") and len(c) == 3:
            return (e["op"], self.ev(c[1], depth + 1), self.ev(c[2], depth + 1))
        if is_call(e) and callee(e) == NS + "expr::binaryOpExpr":
            a = call_args(e)
            return (self.op(a[0]), self.ev(a[1], depth + 1), self.ev(a[2], depth + 1))
        if k in ("CXXConstructExpr", "CXXTemporaryObjectExpr") and callee(e) == NS + "expr::expr":
            if len(c) == 0:
                return ("empty",)
            return self.ev(c[-1], depth + 1)      # (node) / (variable) / (token, variable) / (token, primitive)
        if k in ("CXXConstructExpr", "CXXTemporaryObjectExpr") and callee(e) == NS + "variableDeclaration::variableDeclaration" and len(c) == 2:
            return ("decl", self.ev(c[0], depth + 1), self.ev(c[1], depth + 1))
        lit = literal(e)
        if isinstance(lit, bool) and k == "CXXBoolLiteralExpr":
            return ("b", lit)
        if isinstance(lit, int) and not isinstance(lit, bool):
            return ("c", lit)
        if k == "DeclRefExpr":
            if e.get("loc"):
                if e["d"] in self.env:
                    v = self.env[e["d"]]
                    if v is None:
                        raise TermError("local `%s` does not hold a term (%s)" % (e.get("n"), self.why.get(e["d"], "declared without a value")))
                    if v[0] == "op":
                        raise TermError("local `%s` holds an operator" % e.get("n"))
                    return v
                if e.get("n") in self.params:
                    return ("s", self.params[e["n"]])
            raise TermError("reference `%s` is not a known local or parameter" % e.get("n"))
        if k == "MemberExpr":
            nm = e.get("n", "").split("::")[-1]
            if nm in self.fields and c and strip(c[0])["k"] == "CXXThisExpr":
                return ("s", self.fields[nm])
            raise TermError("member `%s` is not a header field" % e.get("n"))
        if k == "UnaryOperator" and e.get("op") in ("*", "&"):
            return self.ev(c[0], depth + 1)
        if k == "ConditionalOperator":
            return self.ev(c[1] if self.cond(c[0]) else c[2], depth + 1)
        if k == "CXXNewExpr":
            for x in c:
                if strip(x)["k"] in ("CXXConstructExpr", "CXXTemporaryObjectExpr"):
                    return self.ev(x, depth + 1)
            raise TermError("new-expression without constructor")
        if k in ("CXXConstructExpr", "CXXTemporaryObjectExpr"):
            cq = callee(e)
            if cq == NS + "binaryOpNode::binaryOpNode" and len(c) == 4:
                return (self.op(c[1]), self.ev(c[2], depth + 1), self.ev(c[3], depth + 1))
            if cq == NS + "primitiveNode::primitiveNode" and len(c) == 2:
                ints = [int(x["v"]) for x in walk(c[1]) if x["k"] == "IntegerLiteral"]
                if len(ints) != 1:
                    raise TermError("primitiveNode value is not one integer literal")
                return ("c", ints[0])
            if cq == NS + "parenthesesNode::parenthesesNode" and len(c) == 2:
                return self.ev(c[1], depth + 1)
            if cq == NS + "parenCastNode::parenCastNode" and len(c) == 3:
                return self.ev(c[2], depth + 1)      # a conversion of the value: the same term (its presence is checked by the rule that needs it)
            if len(c) == 1:
                return self.ev(c[0], depth + 1)
            raise TermError("constructor %s not modelled" % cq)
        if is_call(e):
            cq = callee(e)
            if any(cq.endswith(s) for s in TRANSPARENT_CALLS):
                o = call_object(e)
                a = call_args(e)
                return self.ev(o if o is not None else a[0], depth + 1)
            raise TermError("call %s not modelled" % cq)
        raise TermError("expression kind %s not modelled: %s" % (k, noid(render(e, False))[:60]))

    # statements ---------------------------------------------------------------------------------------------------
    def bind(self, d, init):
        try:
            self.env[d] = self.ev(init)
        except TermError as e1:
            try:
                self.env[d] = ("op", self.op(init))
            except TermError:
                self.env[d] = None      # a local that is not a term (token, flag, ...): an error only if it is read as one
                self.why[d] = str(e1)

    def run(self, s):
        """returns the returned term (or ("null",)) or None when control falls through"""
        k = s["k"]
        if k == "CompoundStmt":
            for x in kids(s):
                r = self.run(x)
                if r is not None:
                    return r
            return None
        if k == "DeclStmt":
            for v in kids(s):
                if v["k"] == "VarDecl":
                    if kids(v):
                        self.bind(v["d"], kids(v)[0])
                    else:
                        self.env[v["d"]] = None
            return None
        if k == "IfStmt":
            c = kids(s)
            if self.cond(c[0]):
                return self.run(c[1])
            return self.run(c[2]) if len(c) > 2 else None
        if k == "ReturnStmt":
            e = strip(kids(s)[0]) if kids(s) else None
            if e is None:
                return ("null",)
            from .facts import is_null_const
            if is_null_const(e):
                return ("null",)
            return self.ev(e)
        if k in IGNORED_STMTS:
            return None
        e = strip(s)
        if e["k"] in ("ExprWithCleanups",):
            e = strip(kids(e)[0])
        if e["k"] == "BinaryOperator" and e.get("op") == "=" and strip(kids(e)[0])["k"] == "DeclRefExpr" and strip(kids(e)[0]).get("loc"):
            self.bind(strip(kids(e)[0])["d"], kids(e)[1])
            return None
        if e["k"] == "CXXOperatorCallExpr" and e.get("op") == "=" and len(kids(e)) == 3 and strip(kids(e)[1])["k"] == "DeclRefExpr" and strip(kids(e)[1]).get("loc"):
            self.bind(strip(kids(e)[1])["d"], kids(e)[2])
            return None
        if e["k"] == "BinaryOperator" and e.get("op") == "=" and strip(kids(e)[0])["k"] in ("CXXOperatorCallExpr", "ArraySubscriptExpr"):
            return None       # element of a local container: denoted symbolically through container_sources
        if e["k"] == "BinaryOperator" and e.get("op") == "=" and strip(kids(e)[0])["k"] == "MemberExpr":
            try:
                self.captures.append(("assign", strip(kids(e)[0]), self.ev(kids(e)[1])))
            except TermError as ex:
                self.captures.append(("assign", strip(kids(e)[0]), ("unknown", str(ex))))
            return None
        if e["k"] == "CXXMemberCallExpr" and callee(e).endswith("::push_back") and len(call_args(e)) == 1:
            try:
                self.captures.append(("push", e, self.ev(call_args(e)[0])))
            except TermError as ex:
                self.captures.append(("push", e, ("unknown", str(ex))))
            return None
        if e["k"] == "CXXMemberCallExpr" and len(call_args(e)) == 1:
            try:
                self.captures.append(("call", e, self.ev(call_args(e)[0])))
            except TermError:
                pass
            return None
        if e["k"] in ("CXXDeleteExpr",):
            return None
        if k == "ForStmt" and len(kids(s)) >= 4:
            init, cnd, inc, body = kids(s)[0], kids(s)[-3], kids(s)[-2], kids(s)[-1]
            if init["k"] != "NullStmt":
                self.run(init)
            for _ in range(65):
                if cnd["k"] != "NullStmt" and not self.cond(cnd):
                    return None
                r = self.run(body)
                if r is not None:
                    return r
                if inc["k"] != "NullStmt":
                    self.step(inc)
            raise TermError("loop does not terminate within 64 iterations for this configuration")
        if e["k"] == "UnaryOperator" and e.get("op") in ("++", "--"):
            self.step(e)
            return None
        if k in ("WhileStmt", "DoStmt", "CXXForRangeStmt", "SwitchStmt"):
            raise TermError("%s in a builder: not straight-line per configuration" % k)
        if is_call(e):
            return None      # a call statement whose value is dropped cannot change a term local (locals are only bound by = and declarations)
        raise TermError("statement kind %s not modelled" % k)

    def step(self, e):
        e = strip(e)
        if e["k"] == "UnaryOperator" and e.get("op") in ("++", "--"):
            v = strip(kids(e)[0])
            cur = self.env.get(v.get("d")) if v["k"] == "DeclRefExpr" else None
            if cur is None or cur[0] != "c":
                raise TermError("increment of something that is not an integer local with a known value")
            self.env[v["d"]] = ("c", cur[1] + (1 if e["op"] == "++" else -1))
            return
        raise TermError("loop increment %s not modelled" % noid(render(e, False)))

    def result(self):
        body = self.f.d.get("body")
        if body is None:
            raise TermError("no body")
        r = self.run(body)
        if r is None:
            raise TermError("control falls off the end")
        return r

    def effects(self):
        """for void builders: run to the end and return the captured stores"""
        body = self.f.d.get("body")
        if body is None:
            raise TermError("no body")
        self.run(body)
        return self.captures


def nf_deep(t):
    """normal form of the arithmetic parts of a term whose top may be an assignment / comparison / declaration"""
    if t[0] in ("+=", "-=", "<", "<=", ">", ">=", "decl", "[]") or t[0].startswith("OP:"):
        return (t[0], nf_deep(t[1]), nf_deep(t[2]))
    if t[0] in ("unknown", "empty", "null"):
        return t
    return normal_form(t)


def member_chain(fn, e, depth=0):
    """(index of the root parameter or None, [member names from the root outwards]) of an access path, following casts, *, &,
    calls on the object (`.to<T>()`, `.variable()`) and single-definition locals"""
    e = strip(e)
    if e is None or depth > 30:
        return None, []
    k = e["k"]
    if k in ("ParenExpr", "ExprWithCleanups", "MaterializeTemporaryExpr", "CXXBindTemporaryExpr") or (k == "UnaryOperator" and e.get("op") in ("*", "&")):
        return member_chain(fn, kids(e)[0], depth + 1)
    if k == "MemberExpr":
        r, ch = member_chain(fn, kids(e)[0], depth + 1) if kids(e) else (None, [])
        return r, ch + [e.get("n", "")]
    if k == "CXXMemberCallExpr" and call_object(e) is not None:
        r, ch = member_chain(fn, call_object(e), depth + 1)
        return r, ch + [callee(e) + "()"]
    if k == "CXXOperatorCallExpr" and e.get("op") == "[]":
        return member_chain(fn, kids(e)[1], depth + 1)
    if k in ("CXXConstructExpr", "CXXTemporaryObjectExpr") and len(kids(e)) == 1:
        return member_chain(fn, kids(e)[0], depth + 1)
    if k == "DeclRefExpr":
        ps = [p["d"] for p in fn.d["params"]]
        if e.get("d") in ps:
            return ps.index(e["d"]), []
        ds = fn.local_defs().get(e.get("d"), [])
        if len(ds) == 1 and ds[0]["k"] == "VarDecl" and kids(ds[0]):
            return member_chain(fn, kids(ds[0])[0], depth + 1)
    return None, []


def explore(make_builder, run, max_depth=5):
    """all outcomes of a builder when conditions outside the configuration may go either way.
    make_builder() -> fresh Builder; run(builder) -> value. Returns [(choices taken [(text, bool)], value)]."""
    out = []
    work = [[]]
    while work:
        ch = work.pop()
        b = make_builder()
        b.choices = list(ch)
        try:
            out.append((list(b.taken) if False else None, run(b), b))
            out[-1] = (list(b.taken), out[-1][1])
        except NeedChoice as e:
            if len(ch) >= max_depth:
                raise TermError("more than %d undetermined conditions (last: %s)" % (max_depth, e.text))
            work.append(ch + [True])
            work.append(ch + [False])
    return out


# ---- trusted base of TERM / PAREN re-verified: the expression DSL builds what its operators say ---------------------------------------
def dsl_soundness(prog, report):
    """report(ok, function, key, site, detail) for each DSL primitive the abstract execution interprets:
       `a <op> b` on occa::lang::expr builds a binaryOpNode carrying the operator object whose spelling is <op>, operands in order;
       expr::parens goes through wrapInParentheses; expr::operator[] builds subscriptNode(value, index)"""
    from .paren import operator_table
    tab = operator_table(prog)
    n = 0
    for f in prog.funcs.values():
        q = f.q
        if not q.startswith(NS + "operator") or len(f.d.get("params", [])) != 2 or "expr" not in f.d.get("sig", ""):
            continue
        sp = q[len(NS + "operator"):].strip()
        if sp == "<<":
            continue
        rets = [r for r in f.walk() if r["k"] == "ReturnStmt"]
        calls = [c for c in f.walk() if is_call(c) and callee(c).endswith("expr::binaryOpExpr")]
        ok, detail = False, "does not return expr::binaryOpExpr(op, left, right)"
        if len(rets) == 1 and len(calls) == 1:
            a = call_args(calls[0])
            opq = (declref(a[0]) or {}).get("n", "")
            pids = [p["d"] for p in f.d["params"]]
            order = [decl_of(a[1]), decl_of(a[2])] == pids
            built = tab.get(opq, ("?",))[0]
            ok = built == sp and order
            detail = ("builds `%s` with (left, right)" % built) if ok else \
                     ("`a %s b` builds a `%s` node%s: every expression the translator assembles with it means something else" % (sp, built, "" if order else " with its operands swapped"))
        report(ok, q + " " + f.d.get("sig", "")[:40], "dsl:operator %s" % sp, f.site(rets[0]) if rets else "%s:%d" % (f.relfile, f.d["line"]), detail)
        n += 1
    b = prog.fn(NS + "expr::binaryOpExpr")
    news = [x for x in b.walk() if x["k"] == "CXXNewExpr"]
    ok = False
    if len(news) == 1:
        ctor = [x for x in walk(news[0]) if x["k"] in ("CXXConstructExpr", "CXXTemporaryObjectExpr")]
        if ctor:
            a = kids(ctor[0])
            pids = [p["d"] for p in b.d["params"]]
            def base_param(e):
                for x in walk(e):
                    if x["k"] == "DeclRefExpr" and x.get("d") in pids:
                        return pids.index(x["d"])
                return None
            ok = "binaryOpNode" in b.tname(news[0].get("nt")) and len(a) >= 4 and [base_param(x) for x in a[1:4]] == [0, 1, 2]
    report(ok, b.q, "dsl:binaryOpExpr(op, left, right) -> binaryOpNode(op, left, right)", "%s:%d" % (b.relfile, b.d["line"]),
           "operator and operands handed on in order" if ok else "the node is not built from (op, left, right) in that order")
    p = prog.fn(NS + "expr::parens")
    ok = any(is_call(c) and callee(c).endswith("::wrapInParentheses") for c in p.walk()) and not any(x["k"] == "IfStmt" and "node" not in noid(render(kids(x)[0], False)) for x in p.walk())
    report(ok, p.q, "dsl:parens -> wrapInParentheses", "%s:%d" % (p.relfile, p.d["line"]), "every non-empty expression goes through the node's wrapInParentheses" if ok else "expr::parens does not always wrap")
    s = [f for f in prog.fns(NS + "expr::operator[]")]
    ok = False
    for f in s:
        news = [x for x in f.walk() if x["k"] == "CXXNewExpr"]
        if len(news) == 1 and "subscriptNode" in f.tname(news[0].get("nt")):
            ctor = [x for x in walk(news[0]) if x["k"] in ("CXXConstructExpr", "CXXTemporaryObjectExpr")]
            a = kids(ctor[0]) if ctor else []
            pid = f.d["params"][0]["d"]
            if len(a) >= 3:
                val_this = any(x["k"] == "CXXThisExpr" for x in walk(a[1])) and not any(x["k"] == "DeclRefExpr" and x.get("d") == pid for x in walk(a[1]))
                idx_arg = any(x["k"] == "DeclRefExpr" and x.get("d") == pid for x in walk(a[2]))
                ok = val_this and idx_arg
    report(ok, NS + "expr::operator[]", "dsl:a[b] -> subscriptNode(value = a, index = b)", "src/occa/internal/lang/expr/expr.cpp", "value and index in order" if ok else "value and index not in order")
    return n + 3
