"""Small intraprocedural data-flow helpers (flow-insensitive local derivation)."""
from .facts import kids, strip, walk, is_call, call_args, call_object, render, CASTS

# calls through which a file name stays "the same name" (or a name in the same name space)
PATH_PRESERVING = {"occa::io::expandFilename"}
PATH_METHODS = {"c_str", "str", "data"}


def mentions(expr, decls):
    for x in walk(expr):
        if x["k"] == "DeclRefExpr" and x.get("d") in decls:
            return True
    return False


def path_derived(expr, derived):
    """expr denotes (a name built by suffixing) a value held in one of the declarations `derived`"""
    n = strip(expr)
    if n is None:
        return False
    k = n["k"]
    c = kids(n)
    if k == "DeclRefExpr":
        return n.get("d") in derived
    if k in ("CXXConstructExpr", "CXXTemporaryObjectExpr"):
        return len(c) >= 1 and path_derived(c[0], derived) and all(x["k"] == "CXXDefaultArgExpr" for x in c[1:])
    if k == "CXXMemberCallExpr":
        m = c[0] if c else None
        if m is not None and m["k"] == "MemberExpr" and m.get("n", "").split("::")[-1] in PATH_METHODS and kids(m):
            return path_derived(kids(m)[0], derived)
        return False
    if k == "CallExpr":
        if n.get("callee") in PATH_PRESERVING and len(c) > 1:
            return path_derived(c[1], derived)
        return False
    if k == "CXXOperatorCallExpr":
        op = n.get("op")
        if op == "[]" and len(c) > 1:
            return path_derived(c[1], derived)
        if op == "+" and len(c) > 2:
            return path_derived(c[1], derived)
        return False
    if k == "ArraySubscriptExpr":
        return path_derived(c[0], derived)
    if k == "ConditionalOperator":
        return path_derived(c[1], derived) and path_derived(c[2], derived)
    if k == "CXXDefaultArgExpr":
        return False
    return False


def derive_locals(fn, seeds, pred=path_derived):
    """closure of `seeds` (decl ids) over local definitions whose every defining expression satisfies pred"""
    derived = set(seeds)
    defs = fn.local_defs()
    changed = True
    while changed:
        changed = False
        for d, ds in defs.items():
            if d in derived:
                continue
            ok = bool(ds)
            for dn in ds:
                if dn["k"] == "VarDecl":
                    if not kids(dn) or not pred(kids(dn)[0], derived):
                        ok = False
                elif dn["k"] in ("BinaryOperator",) and dn.get("op") == "=":
                    if not pred(kids(dn)[1], derived):
                        ok = False
                elif dn["k"] == "CXXOperatorCallExpr" and dn.get("op") == "=":
                    if not pred(kids(dn)[2], derived):
                        ok = False
                elif dn["k"] == "CXXOperatorCallExpr" and dn.get("op") == "+=":
                    pass  # suffixing keeps the name space
                else:
                    ok = False
            if ok:
                derived.add(d)
                changed = True
    return derived


def stream_chain(n):
    """flatten a left-nested operator<< chain into [stream, operand1, operand2, ...]; None if n is not a << call"""
    if n["k"] != "CXXOperatorCallExpr" or n.get("op") != "<<":
        return None
    c = kids(n)
    if len(c) < 3:
        return None
    left = strip(c[1])
    sub = stream_chain(left) if left is not None else None
    if sub is None:
        return [c[1], c[2]]
    return sub + [c[2]]


def plus_chain(n):
    """flatten a left-nested operator+ (std::string) chain into its operand list"""
    n = strip(n)
    if n is not None and n["k"] in ("CXXOperatorCallExpr",) and n.get("op") == "+" and len(kids(n)) > 2:
        return plus_chain(kids(n)[1]) + plus_chain(kids(n)[2])
    if n is not None and n["k"] == "BinaryOperator" and n.get("op") == "+":
        return plus_chain(kids(n)[0]) + plus_chain(kids(n)[1])
    return [n]
