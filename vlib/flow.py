"""Small intraprocedural data-flow helpers (flow-insensitive local derivation)."""
from .facts import kids, strip, walk, is_call, call_args, call_object, callee, literal, render, CASTS

# calls through which a file name stays "the same name" (or a name in the same name space)
PATH_PRESERVING = {"occa::io::expandFilename"}
PATH_METHODS = {"c_str", "str", "data"}


def mentions(expr, decls):
    for x in walk(expr):
        if x["k"] == "DeclRefExpr" and x.get("d") in decls:
            return True
    return False


def path_derived(expr, derived):
    """expr denotes (a name built by suffixing) a value held in one of the declarations `derived`"""
    n = strip(expr)
    if n is None:
        return False
    k = n["k"]
    c = kids(n)
    if k == "DeclRefExpr":
        return n.get("d") in derived
    if k in ("CXXConstructExpr", "CXXTemporaryObjectExpr"):
        return len(c) >= 1 and path_derived(c[0], derived) and all(x["k"] == "CXXDefaultArgExpr" for x in c[1:])
    if k == "CXXMemberCallExpr":
        m = c[0] if c else None
        if m is not None and m["k"] == "MemberExpr" and m.get("n", "").split("::")[-1] in PATH_METHODS and kids(m):
            return path_derived(kids(m)[0], derived)
        return False
    if k == "CallExpr":
        if n.get("callee") in PATH_PRESERVING and len(c) > 1:
            return path_derived(c[1], derived)
        return False
    if k == "CXXOperatorCallExpr":
        op = n.get("op")
        if op == "[]" and len(c) > 1:
            return path_derived(c[1], derived)
        if op == "+" and len(c) > 2:
            return path_derived(c[1], derived)
        return False
    if k == "ArraySubscriptExpr":
        return path_derived(c[0], derived)
    if k == "ConditionalOperator":
        return path_derived(c[1], derived) and path_derived(c[2], derived)
    if k == "CXXDefaultArgExpr":
        return False
    return False


def derive_locals(fn, seeds, pred=path_derived):
    """closure of `seeds` (decl ids) over local definitions whose every defining expression satisfies pred"""
    derived = set(seeds)
    defs = fn.local_defs()
    changed = True
    while changed:
        changed = False
        for d, ds in defs.items():
            if d in derived:
                continue
            ok = bool(ds)
            for dn in ds:
                if dn["k"] == "VarDecl":
                    if not kids(dn) or not pred(kids(dn)[0], derived):
                        ok = False
                elif dn["k"] in ("BinaryOperator",) and dn.get("op") == "=":
                    if not pred(kids(dn)[1], derived):
                        ok = False
                elif dn["k"] == "CXXOperatorCallExpr" and dn.get("op") == "=":
                    if not pred(kids(dn)[2], derived):
                        ok = False
                elif dn["k"] == "CXXOperatorCallExpr" and dn.get("op") == "+=":
                    pass  # suffixing keeps the name space
                else:
                    ok = False
            if ok:
                derived.add(d)
                changed = True
    return derived


def stream_chain(n):
    """flatten a left-nested operator<< chain into [stream, operand1, operand2, ...]; None if n is not a << call"""
    if n["k"] != "CXXOperatorCallExpr" or n.get("op") != "<<":
        return None
    c = kids(n)
    if len(c) < 3:
        return None
    left = strip(c[1])
    sub = stream_chain(left) if left is not None else None
    if sub is None:
        return [c[1], c[2]]
    return sub + [c[2]]


def plus_chain(n):
    """flatten a left-nested operator+ (std::string) chain into its operand list"""
    n = strip(n)
    if n is not None and n["k"] in ("CXXOperatorCallExpr",) and n.get("op") == "+" and len(kids(n)) > 2:
        return plus_chain(kids(n)[1]) + plus_chain(kids(n)[2])
    if n is not None and n["k"] == "BinaryOperator" and n.get("op") == "+":
        return plus_chain(kids(n)[0]) + plus_chain(kids(n)[1])
    return [n]


# ---- lexicographic comparators --------------------------------------------------------------------
def lex_keys(fn):
    """Key sequence of a two-parameter strict-weak-order functor written as a lexicographic comparison.
    Returns [(component, ascending)] where component is the compared expression with the first parameter spelled `$`
    (so `$->offset`, and `$` itself for the object identity). Recognised shapes: `if (X != Y) return X < Y;` chains,
    `if (X < Y) return true; if (Y < X) return false;` pairs, `return X < Y;`, `X < Y || (X == Y && REST)`, std::tie(...) < std::tie(...).
    Raises ValueError on any other shape (the caller reports analysis-broken, never a verdict)."""
    ps = fn.d["params"]
    if len(ps) != 2:
        raise ValueError("comparator does not take two parameters")
    da, db = ps[0]["d"], ps[1]["d"]

    def comp(e):
        """(component string, side) where side is 'a' / 'b' by the parameter it mentions"""
        sides = {("a" if x.get("d") == da else "b") for x in walk(e) if x["k"] == "DeclRefExpr" and x.get("d") in (da, db)}
        if len(sides) != 1:
            raise ValueError("operand mixes both parameters: %s" % render(e, False))
        side = sides.pop()
        mine = da if side == "a" else db

        def r(x):
            x = strip(x)
            if x["k"] == "DeclRefExpr" and x.get("d") == mine:
                return "$"
            if x["k"] == "MemberExpr":
                return r(kids(x)[0]) + ("->" if x.get("arrow") else ".") + x.get("n", "").split("::")[-1]
            if x["k"] == "UnaryOperator" and x.get("op") == "*":
                return "*" + r(kids(x)[0])
            if is_call(x) and call_object(x) is not None and not call_args(x):
                return r(call_object(x)) + "." + callee(x).split("::")[-1] + "()"
            raise ValueError("unrecognised component: %s" % render(x, False))
        return r(e), side

    def rel(e):
        """e is `X op Y` over the same component of both parameters -> (component, op with a on the left)"""
        e = strip(e)
        if e["k"] not in ("BinaryOperator", "CXXOperatorCallExpr") or e.get("op") not in ("<", ">", "!=", "=="):
            raise ValueError("not a relational expression: %s" % render(e, False))
        xs = kids(e)[-2:]
        (cx, sx), (cy, sy) = comp(xs[0]), comp(xs[1])
        if cx != cy or sx == sy:
            raise ValueError("compares different components: %s" % render(e, False))
        op = e["op"]
        if sx == "b" and op in ("<", ">"):
            op = ">" if op == "<" else "<"
        return cx, op

    def of_expr(e):
        e = strip(e)
        if e["k"] == "BinaryOperator" and e.get("op") == "||":
            l, rr = [strip(x) for x in kids(e)]
            c, op = rel(l)
            if op not in ("<", ">") or rr["k"] != "BinaryOperator" or rr.get("op") != "&&":
                raise ValueError("unrecognised disjunction: %s" % render(e, False))
            c2, op2 = rel(kids(rr)[0])
            if c2 != c or op2 != "==":
                raise ValueError("tie case does not test equality of the same component")
            return [(c, op == "<")] + of_expr(kids(rr)[1])
        if e["k"] == "CXXOperatorCallExpr" and e.get("op") in ("<", ">") and all(is_call(strip(x)) and callee(strip(x)).startswith("std::tie") for x in kids(e)[-2:]):
            l, rr = [strip(x) for x in kids(e)[-2:]]
            out = []
            for x, y in zip(call_args(l), call_args(rr)):
                (cx, sx), (cy, sy) = comp(x), comp(y)
                if cx != cy or sx == sy:
                    raise ValueError("std::tie operands differ")
                out.append((cx, (e["op"] == "<") == (sx == "a")))
            return out
        c, op = rel(e)
        if op not in ("<", ">"):
            raise ValueError("final comparison is not an ordering")
        return [(c, op == "<")]

    body = [n for n in kids(fn.d["body"]) if n["k"] != "NullStmt"] if fn.d.get("body") else []
    keys = []
    i = 0

    def single_return(s):
        s = kids(s)[0] if s["k"] == "CompoundStmt" and len(kids(s)) == 1 else s
        return s if s["k"] == "ReturnStmt" else None
    while i < len(body):
        s = body[i]
        if s["k"] == "ReturnStmt":
            keys += of_expr(kids(s)[0])
            if i != len(body) - 1:
                raise ValueError("statements after the final return")
            return keys
        if s["k"] == "IfStmt" and len(kids(s)) == 2:
            c, op = rel(kids(s)[0])
            ret = single_return(kids(s)[1])
            if ret is None:
                raise ValueError("if-arm is not a single return")
            if op == "!=":
                k2 = of_expr(kids(ret)[0])
                if len(k2) != 1 or k2[0][0] != c:
                    raise ValueError("tie-break arm returns a different component")
                keys.append(k2[0])
                i += 1
                continue
            if op in ("<", ">") and literal(kids(ret)[0]) is True and i + 1 < len(body) and body[i + 1]["k"] == "IfStmt":
                c2, op2 = rel(kids(body[i + 1])[0])
                ret2 = single_return(kids(body[i + 1])[1])
                if c2 == c and op2 in ("<", ">") and op2 != op and ret2 is not None and literal(kids(ret2)[0]) is False:
                    keys.append((c, op == "<"))
                    i += 2
                    continue
            raise ValueError("unrecognised if shape: %s" % render(kids(s)[0], False))
        raise ValueError("unrecognised statement %s" % s["k"])
    raise ValueError("comparator falls off its end")


# ---- C++17 evaluation order -------------------------------------------------------------------------
def sequenced_before(fn, a, b):
    """True / False / None (unsequenced or unknown): is the evaluation of node a sequenced before that of node b (C++17 rules)?
    Statement order inside a compound statement; init before use in a declaration statement; for `x = y` and compound assignments
    (built-in and overloaded, operator notation) the right operand before the left; for `,` `&&` `||` `?:` `<<` `>>` `[]` left before right;
    arguments before the call itself; the arguments of one call among themselves: unsequenced."""
    if a is b:
        return None
    pa = [a] + list(fn.ancestors(a))
    pb = [b] + list(fn.ancestors(b))
    ida = {n["i"] for n in pa}
    if b["i"] in ida:
        return True            # a is inside b: operands are evaluated before the operation b itself
    if a["i"] in {n["i"] for n in pb}:
        return False
    lca = next((n for n in pb if n["i"] in ida), None)
    if lca is None:
        return None
    ca = pa[[n["i"] for n in pa].index(lca["i"]) - 1]
    cb = pb[[n["i"] for n in pb].index(lca["i"]) - 1]
    ks = kids(lca)
    ia = next(i for i, x in enumerate(ks) if x["i"] == ca["i"])
    ib = next(i for i, x in enumerate(ks) if x["i"] == cb["i"])
    k = lca["k"]
    if k in ("CompoundStmt", "DeclStmt", "IfStmt", "ForStmt", "WhileStmt", "CXXForRangeStmt", "SwitchStmt"):
        return ia < ib
    op = lca.get("op", "")
    assign = op in ("=", "+=", "-=", "*=", "/=", "%=", "<<=", ">>=", "&=", "|=", "^=")
    if k in ("BinaryOperator", "CompoundAssignOperator"):
        if assign:
            return ia > ib       # right operand first
        if op in (",", "&&", "||", "<<", ">>"):
            return ia < ib
        return None
    if k == "CXXOperatorCallExpr":
        # kids: [callee, lhs, rhs...]
        if ia == 0 or ib == 0:
            return None
        if assign:
            return ia > ib
        if op in (",", "&&", "||", "<<", ">>", "[]"):
            return ia < ib
        return None
    if k == "ConditionalOperator":
        return True if ia == 0 else (False if ib == 0 else None)
    return None


def must_pass_through(fn, start_node, target_pred, via_pred):
    """True when every CFG path of `fn` from the call `start_node` to a call satisfying target_pred passes a call satisfying via_pred
    (and the target is reachable at all). Predicates take the call node."""
    from .facts import is_call
    calls = {c["i"]: c for c in fn.walk() if is_call(c)}
    tgt = lambda b, i, e: e in calls and target_pred(calls[e])
    via = lambda b, i, e: e in calls and via_pred(calls[e])
    pos = fn.cfg.position(start_node)
    if not pos:
        return None
    if fn.cfg.find_path(pos, tgt, lambda b, i, e: False) is None:
        return None
    return fn.cfg.find_path(pos, tgt, via) is None
