"""Obligation bookkeeping, known findings, evidence and VIOLATION output."""
import json
import os
import time

from .work import VERIF, AnalysisBroken

KNOWN = os.path.join(VERIF, "known_findings.jsonl")
EVID = os.path.join(VERIF, "evidence")


def load_known():
    """known_findings.jsonl: {"status":"finding"|"fixed", "property", "rule", "function", "key", "what", ...}"""
    out = []
    if os.path.isfile(KNOWN):
        for line in open(KNOWN):
            line = line.strip()
            if not line or line.startswith("#") or line.startswith("fixed:"):
                continue
            out.append(json.loads(line))
    return out


class Report:
    def __init__(self, prop, tier, seed=0):
        self.prop = prop
        self.tier = tier
        self.seed = seed
        self.t0 = time.time()
        self.obl = []        # dicts: rule, site, function, key, ok, detail, nontrivial
        self.rules = {}      # rule -> {"desc":..., "floor":..., "n":...}
        self.meta = {}
        self.assumptions = []
        self.trusted = ["clang 14 front end and CFG builder", "tools/occa-facts.cc extractor", "vlib engine (CFG/dominators/branch facts)"]
        self.explanation = ""
        self.analysed = {}

    def rule(self, rid, desc, floor=1):
        self.rules[rid] = {"desc": desc, "floor": floor, "n": 0}

    def ob(self, rule, ok, function, key, site="", detail="", nontrivial=True, path=None):
        """record one obligation. key is the semantic construct key (never a line number)."""
        if rule not in self.rules:
            raise AnalysisBroken("internal: unknown rule " + rule)
        self.rules[rule]["n"] += 1
        self.obl.append({"rule": rule, "ok": bool(ok), "function": function, "key": key, "site": site,
                         "detail": detail, "nontrivial": nontrivial, "path": path})
        return ok

    def finish(self):
        """print verdict lines, write evidence, return exit code"""
        # instance floors: a rule that matched (almost) nothing is broken, not passing
        # ... unless the same run has concrete, unlisted violations to show: those are reported (exit 1) with the floor as a note
        low = [(rid, r) for rid, r in self.rules.items() if r["n"] < r["floor"]]
        if low:
            listed = {(k["rule"], k["function"], k["key"]) for k in load_known() if k.get("property") == self.prop and k.get("status", "finding") == "finding"}
            if not any((not o["ok"]) and (o["rule"], o["function"], o["key"]) not in listed for o in self.obl):
                rid, r = low[0]
                raise AnalysisBroken("rule %s matched %d instances, floor is %d (%s)" % (rid, r["n"], r["floor"], r["desc"]))
            for rid, r in low:
                print("note: rule %s matched %d instances (floor %d)" % (rid, r["n"], r["floor"]))
        known = [k for k in load_known() if k.get("property") == self.prop and k.get("status", "finding") == "finding"]
        fails = [o for o in self.obl if not o["ok"]]
        viol = []
        kf_lines = []
        used = set()
        for o in fails:
            m = None
            for idx, k in enumerate(known):
                if k["rule"] == o["rule"] and k["function"] == o["function"] and k["key"] == o["key"]:
                    m = idx
                    break
            if m is None:
                viol.append(o)
            else:
                used.add(m)
                o["known"] = True
                kf_lines.append("KNOWN-FINDING: property=%s %s [%s in %s: %s]" % (
                    self.prop, known[m].get("what", ""), o["rule"], o["function"], o["key"]))
        for line in sorted(set(kf_lines)):
            print(line)
        dry = bool(os.environ.get("VERIF_NO_EVIDENCE"))   # selftest runs against scratch copies must not touch the evidence
        vdir = os.path.join(EVID, "violations") if not dry else os.path.join(VERIF, ".work", "selftest-violations")
        os.makedirs(vdir, exist_ok=True)
        if not dry:
            for f in os.listdir(vdir):
                if f.startswith(self.prop + "-"):
                    os.remove(os.path.join(vdir, f))
        for idx, o in enumerate(viol):
            p = os.path.join(vdir, "%s-%d.json" % (self.prop, idx))
            json.dump({"property": self.prop, "rule": o["rule"], "rule_desc": self.rules[o["rule"]]["desc"],
                       "function": o["function"], "site": o["site"], "construct": o["key"],
                       "detail": o["detail"], "path": o.get("path"),
                       "replay": "./check %s --explain %s" % (self.prop, p)}, open(p, "w"), indent=1)
            print("%s: %s: %s: %s -- %s" % (o["site"], o["rule"], o["function"], o["key"], o["detail"]))
            print("VIOLATION property=%s replay=%s" % (self.prop, p))
        if not dry:
            self.write_evidence(len(viol))
        n = len(self.obl)
        print("%s: %d obligations over %d rules, %d discharged, %d known findings, %d violations (%.1fs)" % (
            self.prop, n, len(self.rules), sum(1 for o in self.obl if o["ok"]), len(fails) - len(viol), len(viol), time.time() - self.t0))
        return 1 if viol else 0

    def write_evidence(self, nviol):
        os.makedirs(EVID, exist_ok=True)
        n = len(self.obl)
        distinct = len({(o["rule"], o["function"], o["key"]) for o in self.obl if o["nontrivial"]})
        samples = []
        per_rule_seen = {}
        for o in self.obl:
            c = per_rule_seen.get(o["rule"], 0)
            if c < 3:
                per_rule_seen[o["rule"]] = c + 1
                samples.append({"rule": o["rule"], "site": o["site"], "function": o["function"], "construct": o["key"],
                                "verdict": "ok" if o["ok"] else ("known-finding" if o.get("known") else "VIOLATION"),
                                "detail": o["detail"][:300]})
        ev = {
            "property_id": self.prop,
            "tier": self.tier,
            "seed": self.seed,
            "level": "other",
            "coverage": {
                "explanation": self.explanation,
                "evaluations": max(n, 1),
                "distinct_nontrivial": distinct,
                "rule": "one evaluation per (rule, function, construct) obligation derived from the current source; non-trivial = the obligation needed a CFG path / dominator / data-flow or call-graph query or a table comparison (pure existence checks are not counted)",
                "samples": samples,
                "obligations": n,
                "discharged": sum(1 for o in self.obl if o["ok"]),
                "known_findings": sum(1 for o in self.obl if o.get("known")),
                "checker_cmd": "./check %s --tier %s" % (self.prop, self.tier),
                "trusted_base": self.trusted,
                "rules": {rid: {"description": r["desc"], "instances": r["n"], "floor": r["floor"]} for rid, r in self.rules.items()},
                "analysed": self.analysed,
                "meta_checks": self.meta,
                "exhaustive": True,
            },
            "assumptions": self.assumptions,
            "wall_s": round(time.time() - self.t0, 2),
            "violations": nviol,
        }
        json.dump(ev, open(os.path.join(EVID, self.prop + ".json"), "w"), indent=1)
