"""CFG analyses over the extractor's clang CFG: noreturn cuts, dominators, element positions,
path queries (must-pass-through), branch-fact (guard) availability."""
from .facts import kids, strip, render, is_call, walk, CASTS

# functions that never return normally although not declared [[noreturn]] (self-checked by META-1)
NORETURN = {"occa::error"}


class Block:
    __slots__ = ("id", "elems", "succs", "preds", "term", "tc", "tk", "noret")

    def __init__(self, d):
        self.id = d["b"]
        self.elems = list(d["e"])
        self.succs = [s for s in d["s"]]
        self.preds = []
        self.term = d.get("t")
        self.tc = d.get("tc")
        self.tk = d.get("tk")
        self.noret = d.get("noret", False)


class CFG:
    def __init__(self, fn):
        self.fn = fn
        c = fn.d.get("cfg")
        if not c:
            raise ValueError("no CFG for " + fn.q)
        self.entry = c["entry"]
        self.exit = c["exit"]
        self.blocks = {b["b"]: Block(b) for b in c["blocks"]}
        nodes = fn.nodes
        # cut after calls that never return
        for b in self.blocks.values():
            for idx, e in enumerate(b.elems):
                if isinstance(e, int):
                    n = nodes.get(e)
                    if n is not None and is_call(n) and (n.get("callee") in NORETURN or n.get("noret")):
                        b.elems = b.elems[:idx + 1]
                        b.succs = [self.exit]
                        b.term = None
                        b.tc = None
                        b.noret = True
                        break
        for b in self.blocks.values():
            b.succs = [s for s in b.succs if s is not None or True]
        for b in self.blocks.values():
            for s in b.succs:
                if s is not None:
                    self.blocks[s].preds.append(b.id)
        self.pos = {}
        for b in self.blocks.values():
            for idx, e in enumerate(b.elems):
                if isinstance(e, int):
                    self.pos.setdefault(e, (b.id, idx))
        # jump statements are block terminators, not elements: give them the position at the end of their block
        for b in self.blocks.values():
            if b.term is not None and b.tk in ("ContinueStmt", "BreakStmt", "GotoStmt"):
                self.pos.setdefault(b.term, (b.id, len(b.elems)))
        self.reach = self._reach(self.entry)
        self._dom = None
        self._pdom = None

    # ---- basic graph ----------------------------------------------------
    def _reach(self, start, fwd=True):
        seen = {start}
        work = [start]
        while work:
            b = work.pop()
            nxt = self.blocks[b].succs if fwd else self.blocks[b].preds
            for s in nxt:
                if s is not None and s not in seen:
                    seen.add(s)
                    work.append(s)
        return seen

    def _dominators(self, fwd=True):
        start = self.entry if fwd else self.exit
        ids = [b for b in self.blocks if b in (self.reach if fwd else self._reach(self.exit, False))]
        allset = set(ids)
        dom = {b: set(allset) for b in ids}
        dom[start] = {start}
        changed = True
        while changed:
            changed = False
            for b in ids:
                if b == start:
                    continue
                ps = [p for p in (self.blocks[b].preds if fwd else self.blocks[b].succs) if p in dom]
                if ps:
                    new = set.intersection(*[dom[p] for p in ps]) | {b}
                else:
                    new = {b}
                if new != dom[b]:
                    dom[b] = new
                    changed = True
        return dom

    @property
    def dom(self):
        if self._dom is None:
            self._dom = self._dominators(True)
        return self._dom

    @property
    def pdom(self):
        if self._pdom is None:
            self._pdom = self._dominators(False)
        return self._pdom

    def position(self, node):
        """(block, index) of the CFG element for node, or of its nearest enclosing element"""
        nid = node["i"] if isinstance(node, dict) else node
        p = self.pos.get(nid)
        if p:
            return p
        n0 = self.fn.nodes.get(nid)
        # compound statements are not CFG elements: use their first element
        if n0 is not None and n0["k"] in ("CompoundStmt", "IfStmt", "ForStmt", "WhileStmt", "DoStmt", "CXXForRangeStmt", "SwitchStmt", "CaseStmt", "DefaultStmt"):
            for x in walk(n0):
                p = self.pos.get(x["i"])
                if p:
                    return p
        n = n0
        while n is not None:
            p = self.pos.get(n["i"])
            if p:
                return p
            n = self.fn.parent.get(n["i"])
        return None

    def before(self, a, b):
        """element a executes before element b on every path reaching b (a dominates b)"""
        pa, pb = self.position(a), self.position(b)
        if not pa or not pb:
            return False
        if pa[0] == pb[0]:
            return pa[1] < pb[1]
        return pa[0] in self.dom.get(pb[0], ())

    def after_all(self, a, b):
        """every path from a to exit passes b (b post-dominates a)"""
        pa, pb = self.position(a), self.position(b)
        if not pa or not pb:
            return False
        if pa[0] == pb[0]:
            return pb[1] > pa[1]
        return pb[0] in self.pdom.get(pa[0], ())

    # ---- path search ----------------------------------------------------
    def find_path(self, start, is_target, is_blocker, start_after=True):
        """search a path from position `start` (block, idx) to an element satisfying is_target that
        meets no element satisfying is_blocker. Targets: callables on (block, idx, elem).
        is_target may also be the string 'exit' (reaching the exit block).
        Returns the list of block ids of such a path, or None."""
        sb, si = start
        first = si + 1 if start_after else si
        seen = set()
        work = [(sb, first, [sb])]
        while work:
            b, i0, path = work.pop()
            blk = self.blocks[b]
            blocked = False
            for idx in range(i0, len(blk.elems)):
                e = blk.elems[idx]
                if is_target != "exit" and is_target(b, idx, e):
                    return path
                if is_blocker(b, idx, e):
                    blocked = True
                    break
            if blocked:
                continue
            if is_target == "exit" and b == self.exit:
                return path
            for s in blk.succs:
                if s is None or s in seen:
                    continue
                seen.add(s)
                work.append((s, 0, path + [s]))
        return None

    def enum_paths(self, start, is_target, is_blocker, start_after=True, limit=5000):
        """all simple block paths from `start` to an element satisfying is_target (or 'exit') that meet no blocker element.
        Raises AnalysisBroken when more than `limit` paths exist (loops are not unrolled: a block is entered once per path)."""
        sb, si = start
        out = []
        work = [(sb, si + 1 if start_after else si, [sb])]
        while work:
            b, i0, path = work.pop()
            blk = self.blocks[b]
            stop = False
            for idx in range(i0, len(blk.elems)):
                e = blk.elems[idx]
                if is_target != "exit" and is_target(b, idx, e):
                    out.append(path)
                    stop = True
                    break
                if is_blocker(b, idx, e):
                    stop = True
                    break
            if stop:
                continue
            if is_target == "exit" and b == self.exit:
                out.append(path)
                continue
            for s_ in blk.succs:
                if s_ is None or s_ in path:
                    continue
                work.append((s_, 0, path + [s_]))
            if len(out) + len(work) > limit:
                from .work import AnalysisBroken
                raise AnalysisBroken("%s: more than %d paths" % (self.fn.q, limit))
        return out

    def elem_node(self, e):
        if isinstance(e, int):
            return self.fn.nodes.get(e)
        return None

    def all_paths_pass(self, start_pos, end, event, start_after=True):
        """True iff every path from start to `end` ('exit' or predicate) passes an element satisfying event.
        Returns (ok, counterexample-path)"""
        p = self.find_path(start_pos, end, event, start_after)
        return (p is None, p)

    # ---- return statements / exits --------------------------------------
    def normal_exits(self):
        """(block, idx, node) for each ReturnStmt element, plus fall-off-end blocks"""
        out = []
        for b in self.blocks.values():
            if b.id not in self.reach:
                continue
            for idx, e in enumerate(b.elems):
                n = self.elem_node(e)
                if n is not None and n["k"] == "ReturnStmt":
                    out.append((b.id, idx, n))
        return out

    # ---- branch facts -----------------------------------------------------
    def _subst_local(self, n, defs):
        """follow `const bool isOk = (bool)(cond)` style single-definition locals"""
        n = strip(n)
        hops = 0
        while n is not None and n["k"] == "DeclRefExpr" and n.get("loc") and hops < 4:
            ds = defs.get(n["d"], ())
            if len(ds) == 1 and ds[0]["k"] == "VarDecl" and kids(ds[0]):
                t = self.fn.tname(ds[0].get("t"))
                if "bool" in t:
                    n = strip(kids(ds[0])[0])
                    hops += 1
                    continue
            break
        return n

    def atoms(self, cond, polarity, defs, out=None):
        """decompose a branch condition into atomic facts [(node, polarity)]"""
        if out is None:
            out = []
        n = self._subst_local(cond, defs)
        if n is None:
            return out
        k = n["k"]
        c = kids(n)
        if k == "UnaryOperator" and n.get("op") == "!":
            return self.atoms(c[0], not polarity, defs, out)
        if k == "CXXOperatorCallExpr" and n.get("op") == "!" and len(c) == 2:
            return self.atoms(c[1], not polarity, defs, out)
        if k == "BinaryOperator" and n.get("op") == "&&":
            if polarity:
                self.atoms(c[0], True, defs, out)
                self.atoms(c[1], True, defs, out)
            else:
                out.append((n, polarity))
            return out
        if k == "BinaryOperator" and n.get("op") == "||":
            if not polarity:
                self.atoms(c[0], False, defs, out)
                self.atoms(c[1], False, defs, out)
            else:
                out.append((n, polarity))
            return out
        # x == true / x == false / x != true / x != false  reduce to x with the matching polarity
        if k == "BinaryOperator" and n.get("op") in ("==", "!="):
            for a_, b_ in ((c[0], c[1]), (c[1], c[0])):
                sb = strip(b_)
                if sb is not None and sb["k"] == "CXXBoolLiteralExpr":
                    same = (n["op"] == "==") == bool(sb.get("v"))
                    return self.atoms(a_, polarity if same else (not polarity), defs, out)
        # a != b   ==   not (a == b): keep one spelling so that the two tests correlate
        if (k == "BinaryOperator" and n.get("op") == "!=") or (k == "CXXOperatorCallExpr" and n.get("op") == "!=" and len(c) == 3):
            eqn = dict(n)
            eqn["op"] = "=="
            out.append((eqn, not polarity))
            return out
        out.append((n, polarity))
        return out

    def edge_facts(self, defs):
        """{(pred, succ): [(node, polarity)]} from two-way branch terminators"""
        ef = {}
        for b in self.blocks.values():
            if b.tc is None or len(b.succs) != 2:
                continue
            if b.tk in ("SwitchStmt", "CXXTryStmt", "GotoStmt", "IndirectGotoStmt"):
                continue
            cond = self.fn.nodes.get(b.tc)
            if cond is None:
                continue
            t, f = b.succs
            if t is not None and t != f:
                ef.setdefault((b.id, t), []).extend(self.atoms(cond, True, defs))
            if f is not None and t != f:
                ef.setdefault((b.id, f), []).extend(self.atoms(cond, False, defs))
        return ef

    def facts_in(self, kills=None):
        """must-hold branch facts at the entry of each block.
        fact key = (render(atom), polarity). A fact is killed in a block that writes a
        declaration / field it mentions (kills(block) -> set of mention tokens)."""
        defs = self.fn.local_defs()
        ef = self.edge_facts(defs)
        nodes = self.fn.nodes
        mention = {}
        factnode = {}

        def key(a):
            n, pol = a
            s = render(n)
            kk = (s, pol)
            if kk not in mention:
                ms = set()
                for x in walk(n):
                    if x["k"] == "DeclRefExpr":
                        ms.add("d%d" % x["d"])
                    elif x["k"] == "MemberExpr":
                        ms.add("f" + render(x))
                mention[kk] = ms
                factnode[kk] = n
            return kk

        written = {}
        for b in self.blocks.values():
            w = set()
            for e in b.elems:
                n = nodes.get(e) if isinstance(e, int) else None
                if n is None:
                    continue
                tgt = write_target(n)
                if tgt is not None:
                    t = strip(tgt)
                    if t["k"] == "DeclRefExpr":
                        w.add("d%d" % t["d"])
                    elif t["k"] == "MemberExpr":
                        w.add("f" + render(t))
            written[b.id] = w

        # whole-condition facts: for a statement S with condition E built from && / ||, the CFG splits E over several
        # blocks; at S's then-target E holds as a whole and at its else-target it fails as a whole.
        extra = {}
        self._whole = {}
        for b in self.blocks.values():
            if b.term is None or b.tk not in ("IfStmt", "WhileStmt", "ForStmt", "DoStmt", "ConditionalOperator") or len(b.succs) != 2:
                continue
            st = nodes.get(b.term)
            if st is None:
                continue
            ck = kids(st)
            E = ck[1] if b.tk in ("ForStmt", "DoStmt") and len(ck) > 1 else (ck[0] if ck else None)
            if E is None:
                continue
            Es = strip(E)
            if not (Es["k"] == "BinaryOperator" and Es.get("op") in ("&&", "||")):
                continue
            inner = {x["i"] for x in walk(E)}
            condblocks = {bb.id for bb in self.blocks.values() if bb.term == b.term or (bb.term in inner)}
            for tgt, pol in ((b.succs[0], True), (b.succs[1], False)):
                if tgt is None or tgt in condblocks:
                    continue
                if all(p_ in condblocks for p_ in self.blocks[tgt].preds):
                    extra.setdefault(tgt, []).append(key((Es, pol)))
                    self._whole.setdefault(tgt, []).append((Es, pol))

        order = [b for b in self.blocks if b in self.reach]
        IN = {b: None for b in order}   # None = top (all facts)
        IN[self.entry] = set()
        OUT = {}

        def out_of(b):
            s = IN[b]
            if s is None:
                return None
            w = written[b]
            if not w:
                return s
            return {k for k in s if not (mention[k] & w)}

        changed = True
        iters = 0
        while changed and iters < 200:
            changed = False
            iters += 1
            for b in order:
                if b == self.entry:
                    continue
                acc = None
                for p in self.blocks[b].preds:
                    if p not in IN:
                        continue
                    o = out_of(p)
                    if o is None:
                        continue
                    s = set(o)
                    for a in ef.get((p, b), ()):
                        s.add(key(a))
                    acc = s if acc is None else (acc & s)
                if acc is None:
                    continue
                for kx in extra.get(b, ()):
                    acc.add(kx)
                if IN[b] is None or acc != IN[b]:
                    IN[b] = acc
                    changed = True
        self._factnode = factnode
        self._edge_facts = ef
        self._written = written
        self._mention = mention
        return IN

    def facts_at(self, node, IN=None):
        """facts holding just before the CFG element of node: block-entry facts minus those killed earlier in the block"""
        if IN is None:
            IN = self.facts_in()
        p = self.position(node)
        if not p:
            return set()
        b, idx = p
        s = IN.get(b)
        if s is None:
            return set()
        nodes = self.fn.nodes
        res = set(s)
        for e in self.blocks[b].elems[:idx]:
            n = nodes.get(e) if isinstance(e, int) else None
            if n is None:
                continue
            tgt = write_target(n)
            if tgt is not None:
                t = strip(tgt)
                tok = None
                if t["k"] == "DeclRefExpr":
                    tok = "d%d" % t["d"]
                elif t["k"] == "MemberExpr":
                    tok = "f" + render(t)
                if tok:
                    res = {k for k in res if tok not in self._mention[k]}
        return res

    def fact_node(self, key):
        return self._factnode[key]

    def facts_on_edge(self, b, s, IN):
        """facts holding when control moves from block b to its successor s"""
        base = IN.get(b)
        if base is None:
            return set()
        w = self._written[b]
        res = {k for k in base if not (self._mention[k] & w)} if w else set(base)
        for (n, pol) in self._edge_facts.get((b, s), ()):
            k = (render(n), pol)
            if k in self._factnode:
                res.add(k)
        return res

    def path_edge_facts(self, path):
        """branch facts taken along a block path [(key, polarity)]"""
        if not hasattr(self, "_edge_facts"):
            self.facts_in()
        out = set()
        for a, b in zip(path, path[1:]):
            for (n, pol) in self._edge_facts.get((a, b), ()):
                out.add((render(n), pol))
        return out

    # ---- path search that respects correlated branch conditions -----------------
    def _null_init_facts(self):
        """{DeclStmt element id: [(fact key, False)]} for pointer locals initialised with a null constant: passing the declaration
        establishes `p` is false until p is written (only for variables that some branch condition tests directly)"""
        if getattr(self, "_nif", None) is None:
            from .facts import is_null_const
            keyof = {}
            for k in self._mention:
                n = self._factnode.get(k)
                if n is not None and strip(n)["k"] == "DeclRefExpr" and strip(n).get("loc"):
                    keyof[strip(n)["d"]] = k[0]
            out = {}
            for n in self.fn.walk():
                if n["k"] == "DeclStmt":
                    for v in kids(n):
                        if v["k"] == "VarDecl" and v["d"] in keyof and kids(v) and is_null_const(kids(v)[0]):
                            out.setdefault(n["i"], []).append((keyof[v["d"]], False))
            self._nif = out
        return self._nif

    def find_feasible_path(self, start, is_target, is_blocker, start_after=True, max_states=20000, null_inits=False, want_facts=False):
        """like find_path, but carries the branch facts taken along the path (killed by writes to what they mention)
        and never takes an edge whose fact contradicts one already held. is_target may be 'exit'.
        null_inits: a pointer local declared with a null initialiser counts as a held fact `p is false` from its declaration on.
        want_facts: return (path, facts held when the target is reached)."""
        if not hasattr(self, "_edge_facts"):
            self.facts_in()
        sb, si = start
        first = si + 1 if start_after else si
        seen = set()
        nif = self._null_init_facts() if null_inits else {}
        init = frozenset()
        if null_inits and not start_after:
            pass
        elif null_inits:
            e0 = self.blocks[sb].elems[si] if 0 <= si < len(self.blocks[sb].elems) else None
            if isinstance(e0, int) and e0 in nif:
                init = frozenset(nif[e0])
        work = [(sb, first, init, [sb])]
        states = 0
        while work:
            b, i0, held, path = work.pop()
            states += 1
            if states > max_states:
                return (path, frozenset()) if want_facts else path  # give up conservatively: report a path
            blk = self.blocks[b]
            blocked = False
            cur = set(held)
            for idx in range(i0, len(blk.elems)):
                e = blk.elems[idx]
                if is_target != "exit" and is_target(b, idx, e):
                    return (path, frozenset(cur)) if want_facts else path
                if is_blocker(b, idx, e):
                    blocked = True
                    break
                n = self.fn.nodes.get(e) if isinstance(e, int) else None
                if isinstance(e, int) and e in nif:
                    cur |= set(nif[e])
                if n is not None:
                    tgt = write_target(n)
                    if tgt is not None:
                        t = strip(tgt)
                        tok = None
                        if t["k"] == "DeclRefExpr":
                            tok = "d%d" % t["d"]
                        elif t["k"] == "MemberExpr":
                            tok = "f" + render(t)
                        if tok:
                            cur = {k for k in cur if tok not in self._mention.get(k, ())}
            if blocked:
                continue
            if is_target == "exit" and b == self.exit:
                return (path, frozenset(cur)) if want_facts else path
            for s in blk.succs:
                if s is None:
                    continue
                nf = set(cur)
                ok = True
                for (n, pol) in self._edge_facts.get((b, s), ()):
                    k = (render(n), pol)
                    if k not in self._mention:
                        continue
                    if (k[0], not pol) in nf:
                        ok = False
                        break
                    nf.add(k)
                if not ok:
                    continue
                st = (s, frozenset(nf))
                if st in seen:
                    continue
                seen.add(st)
                work.append((s, 0, frozenset(nf), path + [s]))
        return None


ASSIGN_OPS = {"=", "+=", "-=", "*=", "/=", "%=", "<<=", ">>=", "&=", "|=", "^="}


def write_target(n):
    """the expression written by node n (assignment, ++/--), or None"""
    k = n["k"]
    if k in ("BinaryOperator", "CompoundAssignOperator") and n.get("op") in ASSIGN_OPS:
        return kids(n)[0]
    if k == "UnaryOperator" and n.get("op") in ("++", "--"):
        return kids(n)[0]
    if k == "CXXOperatorCallExpr" and n.get("op") in ASSIGN_OPS | {"++", "--"} and len(kids(n)) > 1:
        return kids(n)[1]
    return None
