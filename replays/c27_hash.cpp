// replay of F26/F27: hash values unchanged by the unsigned rewrite; zero hash string
#include <occa.hpp>
#include <iostream>
int main() {
  occa::hash_t a = occa::hash("hello world, a somewhat longer string to overflow");
  std::cout << a.getFullString() << "\n";
  occa::hash_t z = a ^ a;
  std::cout << "zero hash string: [" << z.getString() << "] full [" << z.getFullString() << "]\n";
  occa::hash_t b = occa::hash_t::fromString(a.getFullString());
  std::cout << "roundtrip " << (a == b) << " short is prefix " << (a.getFullString().substr(0,16) == a.getString()) << "\n";
}
