// replay of F07/F08: cache keys for configurations that used to collide
#include <occa.hpp>
#include <iostream>
int main() {
  occa::device dev({{"mode", "Serial"}});
  const std::string src = "@kernel void k(int *x) { for (int i = 0; i < 1; ++i; @outer) for (int j = 0; j < 1; ++j; @inner) x[0] = 1; }";
  occa::json a, b, c, d;
  a["compiler_flags"] = "-O1"; a["compiler_linker_flags"] = "-O2";
  b["compiler_flags"] = "-O2"; b["compiler_linker_flags"] = "-O1";
  c["okl/include_paths"] = occa::json::parse("['/tmp/x']");
  occa::kernel ka = dev.buildKernelFromString(src, "k", a);
  occa::kernel kb = dev.buildKernelFromString(src, "k", b);
  occa::kernel kc = dev.buildKernelFromString(src, "k", c);
  occa::kernel kd = dev.buildKernelFromString(src, "k", d);
  std::cout << "swapped flags share a key: " << (ka.binaryFilename() == kb.binaryFilename()) << " (expect 0)\n";
  std::cout << "include_paths ignored by key: " << (kc.binaryFilename() == kd.binaryFilename()) << " (expect 0)\n";
}
