// replay of F11 (dtype fromJson lost bytes): investigation only
#include <occa.hpp>
#include <iostream>
int main() {
  occa::dtype_t s("s");
  s.addField("a", occa::dtype::float_).addField("b", occa::dtype::double_, 3);
  occa::dtype_t s2 = occa::dtype::fromJson(occa::dtype::toJson(s));
  std::cout << "struct " << s.bytes() << " -> " << s2.bytes() << " matches=" << s.matches(s2) << "\n";
  occa::dtype_t t = occa::dtype_t::tuple(occa::dtype::int_, 4);
  occa::dtype_t t2 = occa::dtype::fromJson(occa::dtype::toJson(t));
  std::cout << "tuple " << t.bytes() << " -> " << t2.bytes() << "\n";
  occa::dtype_t e("e", 4);
  e.addEnumerator("A").addEnumerator("B");
  occa::dtype_t e2 = occa::dtype::fromJson(occa::dtype::toJson(e));
  std::cout << "enum " << e.bytes() << " -> " << e2.bytes() << "\n";
}
