// replay of F09: two identical headers edited identically -> applyDependencyHash used to recurse forever
#include <occa.hpp>
#include <fstream>
#include <iostream>
#include <cstdlib>
static void put(const std::string &f, const std::string &s) { std::ofstream o(f); o << s; }
int main() {
  std::string dir = std::string(getenv("OCCA_CACHE_DIR")) + "/../src/";
  system(("mkdir -p " + dir).c_str());
  put(dir + "a.h", "#define A 1\n");
  put(dir + "b.h", "#define A 1\n");
  put(dir + "k.okl", "#include \"" + dir + "a.h\"\n#include \"" + dir + "b.h\"\n@kernel void k(int *x) { for (int i = 0; i < 1; ++i; @outer) for (int j = 0; j < 1; ++j; @inner) x[0] = A; }\n");
  occa::device dev({{"mode", "Serial"}});
  int v = 0;
  occa::memory m = dev.malloc<int>(1);
  occa::kernel k = dev.buildKernel(dir + "k.okl", "k");
  k(m); m.copyTo(&v); std::cout << "first build: " << v << "\n";
  put(dir + "a.h", "#define A 2\n");
  put(dir + "b.h", "#define A 2\n");
  occa::kernel k2 = dev.buildKernel(dir + "k.okl", "k");
  k2(m); m.copyTo(&v); std::cout << "after editing both headers: " << v << " (expect 2)\n";
}
