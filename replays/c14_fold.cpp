// replay of C14 findings (literal typing, short circuit, equality, shifts, division): investigation only
#include <occa.hpp>
#include <occa/internal/lang/expr.hpp>
#include <iostream>
using occa::primitive;
static void lit(const char *s) {
  primitive p = primitive::load(std::string(s));
  std::cout << s << " -> type " << p.type << " value " << p.toString() << " (" << (p.isSigned() ? "signed" : "unsigned") << ", " << p.sizeof_() << " bytes) as i64 " << p.to<int64_t>() << "\n";
}
int main() {
  const char *ls[] = {"123", "-5", "2147483647", "2147483648", "-2147483648", "4294967295", "4294967295u", "1L", "7UL", "0xFF", "0x7FFFFFFF", "0x80000000", "0xFFFFFFFF", "0x100000000", "0xFFFFFFFFu", "0b101", "1.5", "2.5f"};
  for (auto s : ls) lit(s);
  std::cout << "1 == 1.0f : " << (bool) primitive::equal(primitive(1), primitive(1.0f)) << "\n";
  primitive s = primitive::leftShift(primitive((uint32_t) 1), primitive((int64_t) 31));
  std::cout << "1u << 31L type " << s.type << " bytes " << s.sizeof_() << "\n";
  try { primitive::div(primitive(1), primitive(0)); std::cout << "1/0 returned\n"; } catch (occa::exception &e) { std::cout << "1/0 threw occa::exception\n"; }
}
