// replay of F05 (pool reservations overlap after a skipped compaction): investigation only
#include <occa.hpp>
#include <iostream>
#include <vector>
int main() {
  occa::device dev({{"mode", "Serial"}});
  occa::memoryPool pool = dev.createMemoryPool();
  pool.setAlignment(128);
  std::vector<occa::memory> m;
  for (int i = 0; i < 4; ++i) m.push_back(pool.reserve<char>(128));
  std::vector<char> buf(128);
  for (int i = 0; i < 4; ++i) { std::fill(buf.begin(), buf.end(), (char) ('a' + i)); m[i].copyFrom(buf.data()); }
  m[1].free(); m[3].free();           // two separate 128-byte holes, size 512, reserved 256
  occa::memory big = pool.reserve<char>(256);   // no single hole fits; reserved + 256 == size
  std::vector<char> z(256, 'Z');
  big.copyFrom(z.data());
  m[0].copyTo(buf.data()); std::cout << "m0 reads " << buf[0] << " (expect a)\n";
  m[2].copyTo(buf.data()); std::cout << "m2 reads " << buf[0] << " (expect c)\n";
  std::cout << "size " << pool.size() << " reserved " << pool.reserved() << " n " << pool.numReservations() << "\n";
}
