#include <occa.hpp>
#include <iostream>
int main() {
  occa::device dev(std::string("{mode: 'Serial'}"));
  occa::dtype_t mine("mine_t", 12);   // not registered
  std::cout << "before: " << dev.memoryAllocated() << "\n";
  try {
    occa::memory m = dev.malloc(10, mine);
    std::cout << "no throw\n";
  } catch (occa::exception &e) {
    std::cout << "threw occa::exception\n";
  }
  std::cout << "after: " << dev.memoryAllocated() << "\n";
  return dev.memoryAllocated() == 0 ? 0 : 1;
}
