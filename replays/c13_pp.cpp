// replay of F15/F16: #elif after a taken group, skipped && operands, nested skipped regions
#include <occa.hpp>
#include <occa/internal/lang/modes/serial.hpp>
#include <iostream>
int main(int argc, char **argv) {
  const char *src =
    "#if 1\nint a;\n#elif 1/0\nint b;\n#endif\n"
    "#if 0 && (1/0)\nint c;\n#endif\n"
    "#if 0\n#elif 1\nint d;\n#else\nint e;\n#endif\n"
    "#if 0\n# if 1\nint f;\n# elif 1/0\nint g;\n# endif\n#elif 0\nint h;\n#else\nint i;\n#endif\n"
    "#if 1 || (1/0)\nint j;\n#endif\n"
    "#if 2147483648 > 0\nint k;\n#endif\n"
    "#if 0xFFFFFFFF > 0\nint l;\n#endif\n";
  occa::json props;
  props["okl/validate"] = false;
  occa::lang::okl::serialParser parser(props);
  parser.parseSource(src);
  std::cout << "success=" << parser.succeeded() << "\n" << parser.toString() << "\n";
  if (argc > 1) {
    occa::lang::okl::serialParser p2(props);
    p2.parseSource(argv[1]);
    std::cout << "success=" << p2.succeeded() << "\n" << p2.toString() << "\n";
  }
}
