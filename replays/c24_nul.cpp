// replay of known finding C24-R1 (NUL byte): investigation only, not part of any registered check
#include <occa.hpp>
#include <iostream>
int main() {
  occa::json j = std::string("a\0b", 3);
  std::string text = j.dump();
  std::cout << "dump size " << text.size() << "\n";
  try {
    occa::json k = occa::json::parse(text);
    std::cout << "parsed size " << k.string().size() << " equal=" << (k == j) << "\n";
  } catch (occa::exception &e) {
    std::cout << "parse threw occa::exception: round trip fails\n";
  }
}
