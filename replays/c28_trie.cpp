// replay of F28: unfrozen vs frozen longest-prefix length
#include <occa.hpp>
#include <occa/internal/utils/trie.hpp>
#include <iostream>
int main() {
  occa::trie<int> t;
  t.autoFreeze = false;
  t.add("a", 1); t.add("abc", 2);
  occa::trie<int>::result_t r = t.getLongest("abd");
  std::cout << "unfrozen: length " << r.length << " value " << r.value() << "\n";
  t.freeze();
  r = t.getLongest("abd");
  std::cout << "frozen  : length " << r.length << " value " << r.value() << "\n";
}
