#!/bin/sh
# build and run one replay program against the current /repo/_build (investigation aid; never used by ./check)
set -e
src=$1
out=$(mktemp -d /tmp/replay.XXXXXX)
g++ -std=c++17 -g -I/repo/include -I/repo/_build/include -I/repo/src "$src" -o "$out/a.out" -L/repo/_build/lib -locca -Wl,-rpath,/repo/_build/lib -fopenmp
shift
OCCA_CACHE_DIR="$out/cache" "$out/a.out" "$@" || echo "exit status $?"
rm -rf "$out"
