// replay of F21/F22/F23: generated code for shifted bounds, strided @tile, @dim with operator arguments
#include <occa.hpp>
#include <occa/internal/lang/modes/serial.hpp>
#include <occa/internal/lang/modes/cuda.hpp>
#include <iostream>
int main() {
  const char *src =
    "@kernel void k(const int N, const int T, int *x @dim(4, 5)) {\n"
    "  for (int i = 1; i < N >> 1; ++i; @outer) {\n"
    "    for (int j = 0; j < 8; j += 2; @tile(T >> 1, @inner, @inner)) {\n"
    "      x(i << 1, j) = 0;\n"
    "    }\n"
    "  }\n"
    "}\n";
  occa::json props;
  occa::lang::okl::cudaParser parser(props);
  parser.parseSource(src);
  std::cout << "success=" << parser.succeeded() << "\n" << parser.toString() << "\n--- launcher ---\n" << parser.launcherParser.toString() << "\n";
}
