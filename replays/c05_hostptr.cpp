// replay of F06 (use_host_pointer allocation never discounted): investigation only
#include <occa.hpp>
#include <iostream>
int main() {
  occa::device dev({{"mode", "Serial"}});
  char *host = new char[64];
  {
    occa::memory m = dev.malloc<char>(64, host, {{"use_host_pointer", true}});
    std::cout << "allocated while live: " << dev.memoryAllocated() << " ptr aliases host: " << (m.ptr<char>() == host) << "\n";
    m.free();
  }
  std::cout << "allocated after free: " << dev.memoryAllocated() << " (expect 0)\n";
  delete [] host;
}
