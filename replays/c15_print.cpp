// replay of F20: printing nested prefix operators
#include <occa.hpp>
#include <occa/internal/lang/modes/serial.hpp>
#include <iostream>
int main() {
  occa::json props; props["okl/validate"] = false;
  occa::lang::okl::serialParser parser(props);
  parser.parseSource("int f(int i, int j, int *p) { int a = - -j; int b = + +i; int c = - +j; return a; }");
  std::cout << parser.toString() << "\n";
}
