// dtypeStruct_t::matches / dtypeUnion_t::matches looked up BOTH field types in this->fieldTypes: two structs with the same field names
// but different field types "matched". Exit 1 on the defective library.
#include <occa.hpp>
#include <iostream>
int main() {
  occa::dtype_t a("a_t"), b("b_t");
  a.addField("x", occa::dtype::int_);
  b.addField("x", occa::dtype::double_);
  const bool m = a.matches(b);
  std::cout << "struct{int x}.matches(struct{double x}) = " << m << "\n";
  return m ? 1 : 0;
}
